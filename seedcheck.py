#!/usr/bin/env python3
"""Confirm a seeded change produced by a sub-agent and file it under /verif/seeded/<id>/.

  python3 seedcheck.py <worktree> <id> <property> [--detected-by C01,C02]

Steps (all in a scratch copy of /repo outside /repo and /verif, removed afterwards): the patch applies and builds; the unedited
suite passes twice with it; the demonstration fails with the patch and passes without it. Then patch.diff, the demonstration,
the agent's notes and meta.json are stored under seeded/<id>/.
"""
import json, os, shutil, subprocess, sys, tempfile, time

ENV = dict(os.environ, GOFLAGS="-mod=mod", GOPROXY="off", GOSUMDB="off", GOTOOLCHAIN="local")


def sh(cmd, cwd, timeout=400):
    try:
        p = subprocess.run(cmd, cwd=cwd, env=ENV, stdout=subprocess.PIPE, stderr=subprocess.STDOUT, text=True, timeout=timeout)
        return p.returncode, p.stdout
    except subprocess.TimeoutExpired as e:
        return -9, (e.stdout or "") + "\n[timeout]"


def main():
    wt, sid, prop = sys.argv[1], sys.argv[2], sys.argv[3]
    detected = [prop]
    if "--detected-by" in sys.argv:
        detected = sys.argv[sys.argv.index("--detected-by") + 1].split(",")
    patch = os.path.join(wt, "SEED_PATCH.diff")
    demo = os.path.join(wt, "seed_demo_test.go")
    notes = os.path.join(wt, "SEED_NOTES.md")
    for f in (patch, demo):
        if not os.path.exists(f):
            print("missing", f)
            return 1
    d = tempfile.mkdtemp(prefix="verif-seed-")
    ran = []
    try:
        dst = os.path.join(d, "repo")
        subprocess.run(["rsync", "-a", "--exclude", ".git", "/repo/", dst + "/"], check=True)
        rc, out = sh(["patch", "-p1", "-s", "-i", patch], dst)
        if rc != 0:
            print("PATCH DOES NOT APPLY\n", out)
            return 1
        rc, out = sh(["go", "build", "./..."], dst)
        ran.append("go build ./... -> %d" % rc)
        if rc != 0:
            print("BUILD FAILS\n", out[-2000:])
            return 1
        for i in range(2):
            rc, out = sh(["go", "test", "-vet=off", "-count=1", "-timeout", "150s", "."], dst)
            fails = [l for l in out.splitlines() if l.startswith("--- FAIL")]
            ran.append("unedited suite run %d -> rc %d %s" % (i + 1, rc, fails))
            if rc != 0 and not all("WithMultipleListeners" in f for f in fails):
                print("EXISTING SUITE FAILS WITH THE PATCH\n", out[-3000:])
                return 1
        shutil.copy(demo, os.path.join(dst, "seed_demo_test.go"))
        rc1, out1 = sh(["go", "test", "-vet=off", "-count=1", "-timeout", "150s", "-run", "TestSeedDemo", "."], dst)
        ran.append("demo with patch -> rc %d" % rc1)
        rc, out = sh(["patch", "-p1", "-R", "-s", "-i", patch], dst)
        if rc != 0:
            print("cannot revert", out)
            return 1
        rc2, out2 = sh(["go", "test", "-vet=off", "-count=1", "-timeout", "150s", "-run", "TestSeedDemo", "."], dst)
        ran.append("demo without patch -> rc %d" % rc2)
        if rc1 == 0:
            print("DEMO PASSES WITH THE PATCH (should fail)\n", out1[-1500:])
            return 1
        if rc2 != 0:
            print("DEMO FAILS WITHOUT THE PATCH (should pass)\n", out2[-2500:])
            return 1
        tgt = os.path.join(os.path.dirname(os.path.abspath(__file__)), "seeded", sid)
        os.makedirs(tgt, exist_ok=True)
        shutil.copy(patch, os.path.join(tgt, "patch.diff"))
        shutil.copy(demo, os.path.join(tgt, "seed_demo_test.go.txt"))
        if os.path.exists(notes):
            shutil.copy(notes, os.path.join(tgt, "NOTES.md"))
        needs = ""
        if os.path.exists(notes):
            needs = open(notes).read()[:1500]
        meta = {"id": sid, "property": prop, "detected_by": detected, "source": "independent sub-agent given only the property text",
                "needs_to_manifest": needs, "verified": ran, "verified_at": time.strftime("%Y-%m-%d %H:%M:%S")}
        json.dump(meta, open(os.path.join(tgt, "meta.json"), "w"), indent=1)
        print("CONFIRMED", sid, "; ".join(ran))
        print("demo failure excerpt:\n", "\n".join(out1.splitlines()[-12:]))
        return 0
    finally:
        shutil.rmtree(d, ignore_errors=True)


if __name__ == "__main__":
    sys.exit(main())
