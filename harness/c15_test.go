//go:build go1.25

package harness

import (
	"context"
	"errors"
	"fmt"
	"strings"
	"sync"
	"testing"
	"testing/synctest"
	"time"

	lime "github.com/takenet/lime-go"
	"pgregory.net/rapid"
)

type c15Case struct {
	Op        string `json:"op"`        // see c15Ops
	Transport string `json:"transport"` // inproc | tcp | tcp-tls
	End       string `json:"end"`       // deadline | cancel | cancel+deadline (cancelled early although its deadline is a minute away)
	AtMs      int    `json:"atMs"`      // when the context ends, relative to the start of the call (0 = already ended)
}

type c15Obs struct {
	Blocked   bool   `json:"blocked"`  // the call was provably blocked when its context ended
	Returned  bool   `json:"returned"` // it returned within bound + slack
	LatencyMs int64  `json:"latencyMs"`
	Err       string `json:"err,omitempty"`
	Note      string `json:"note,omitempty"`
}

var c15Ops = []string{
	"transport.receive", "transport.receive/slow-peer", "transport.send",
	"channel.send-message", "channel.send-notification", "channel.send-request", "channel.send-response", "channel.process-command",
	"client.establish/new-sent", "client.establish/choice-sent", "client.establish/tls-upgrade", "client.establish/auth-sent", "client.finish",
	"server.establish/await-new", "server.establish/await-choice", "server.establish/tls-upgrade", "server.establish/await-auth",
	"listener.accept",
}

func c15Applies(op, tr string) bool {
	if strings.Contains(op, "tls-upgrade") {
		return tr == "tcp-tls"
	}
	if op == "listener.accept" {
		return tr == "inproc"
	}
	if op == "transport.receive/slow-peer" {
		return tr == "tcp" // the peer writes raw bytes, one at a time
	}
	if strings.Contains(op, "choice") || strings.Contains(op, "await-choice") {
		return tr != "inproc" // the in-process transport offers nothing to negotiate
	}
	return true
}

// boundMs: the statement's bound — promptly at a deadline, and for a cancellation no later than the poll interval (5 s on TCP).
func c15BoundMs(c *c15Case) int64 {
	if c.End == "deadline" || c.Transport == "inproc" {
		return 1
	}
	// "cancel+deadline" is a cancellation: the far deadline plays no role in the bound
	switch c.Op {
	case "channel.process-command", "listener.accept":
		return 1 // waiting on Go channels, not on the connection
	}
	return 5001
}

// c15Rig holds whatever the operation under test needs; release() unblocks everything at the end.
type c15Rig struct {
	op      func(ctx context.Context) error
	refill  bool // the operation only blocks once buffers are full: repeat until one call blocks
	release func()
}

func bigText(n int) lime.Document { return lime.TextDocument(strings.Repeat("z", n)) }

func newTransportPair(tr string, pipeCap int) (ct, st lime.Transport, cl, sv *FConn) {
	if tr == "inproc" {
		ct, st = lime.VerifNewInProcessTransportPair("c15", 1)
		return
	}
	cl, sv = Pipe(PipeOpts{Capacity: pipeCap})
	var scfg, ccfg *lime.TCPConfig
	if tr == "tcp-tls" {
		s, c := TLSConfigs()
		scfg, ccfg = &lime.TCPConfig{TLSConfig: s}, &lime.TCPConfig{TLSConfig: c}
	}
	ct = lime.VerifNewTCPTransport(cl, ccfg, false)
	st = lime.VerifNewTCPTransport(sv, scfg, true)
	return
}

func establishedChannels(tr string, pipeCap int) (*lime.ClientChannel, *lime.ServerChannel, func()) {
	ct, st, cl, sv := newTransportPair(tr, pipeCap)
	cc := lime.NewClientChannel(ct, 1)
	sc := lime.NewServerChannel(st, 1, srvNode, fixedSid)
	enc := []lime.SessionEncryption{lime.SessionEncryptionNone}
	encSel := lime.NoneEncryptionSelector
	if tr == "tcp-tls" {
		enc = []lime.SessionEncryption{lime.SessionEncryptionTLS}
		encSel = lime.TLSEncryptionSelector
	}
	ctx, cancel := context.WithTimeout(context.Background(), 20*time.Second)
	defer cancel()
	var wg sync.WaitGroup
	wg.Add(1)
	go func() {
		defer wg.Done()
		_ = sc.EstablishSession(ctx, []lime.SessionCompression{lime.SessionCompressionNone}, enc, []lime.AuthenticationScheme{lime.AuthenticationSchemeGuest},
			func(context.Context, lime.Identity, lime.Authentication) (*lime.AuthenticationResult, error) {
				return lime.MemberAuthenticationResult(), nil
			}, func(_ context.Context, n lime.Node, _ *lime.ServerChannel) (lime.Node, error) { return n, nil })
	}()
	_, _ = cc.EstablishSession(ctx, lime.NoneCompressionSelector, encSel, lime.Identity{Name: "alice", Domain: "cli.example"}, lime.GuestAuthenticator, "home")
	wg.Wait()
	release := func() {
		if cl != nil {
			cl.Cut()
			_ = cl.Close()
			_ = sv.Close()
		} else {
			// in-process: free senders blocked on full queues before closing anything
			for i := 0; i < 16; i++ {
				c2, cc2 := context.WithTimeout(context.Background(), time.Millisecond)
				_, _ = TReceive(c2, st)
				cc2()
				c3, cc3 := context.WithTimeout(context.Background(), time.Millisecond)
				_, _ = TReceive(c3, ct)
				cc3()
			}
		}
		_ = ct.Close()
		_ = st.Close()
		_ = cc.Close()
		_ = sc.Close()
	}
	return cc, sc, release
}

func buildC15Rig(c *c15Case) (*c15Rig, string) {
	rig := &c15Rig{release: func() {}}
	scfgTLS, _ := TLSConfigs()
	switch {
	case c.Op == "transport.receive":
		ct, st, cl, sv := newTransportPair(c.Transport, 4096)
		if c.Transport == "tcp-tls" {
			var wg sync.WaitGroup
			wg.Add(1)
			go func() { defer wg.Done(); _ = st.SetEncryption(context.Background(), lime.SessionEncryptionTLS) }()
			_ = ct.SetEncryption(context.Background(), lime.SessionEncryptionTLS)
			wg.Wait()
		}
		rig.op = func(ctx context.Context) error { _, err := TReceive(ctx, ct); return err }
		rig.release = func() {
			if cl != nil {
				_ = cl.Close()
				_ = sv.Close()
			}
			_ = ct.Close()
			_ = st.Close()
		}
	case c.Op == "transport.receive/slow-peer":
		// the peer is in the middle of an envelope and writes it slowly: a byte every 700 ms, never a gap as long as the I/O poll
		ct, st, cl, sv := newTransportPair(c.Transport, 4096)
		stop := make(chan struct{})
		var wg sync.WaitGroup
		wg.Add(1)
		go func() {
			defer wg.Done()
			frame := []byte(`{"id":"slow","type":"text/plain","content":"` + strings.Repeat("s", 400) + `"}` + "\n")
			for i := range frame {
				if _, err := sv.Write(frame[i : i+1]); err != nil {
					return
				}
				select {
				case <-stop:
					return
				case <-time.After(700 * time.Millisecond):
				}
			}
		}()
		rig.op = func(ctx context.Context) error { _, err := TReceive(ctx, ct); return err }
		rig.release = func() {
			close(stop)
			_ = cl.Close()
			_ = sv.Close()
			wg.Wait()
			_ = ct.Close()
			_ = st.Close()
		}
	case c.Op == "transport.send":
		ct, st, cl, sv := newTransportPair(c.Transport, 2048)
		if c.Transport == "tcp-tls" {
			var wg sync.WaitGroup
			wg.Add(1)
			go func() { defer wg.Done(); _ = st.SetEncryption(context.Background(), lime.SessionEncryptionTLS) }()
			_ = ct.SetEncryption(context.Background(), lime.SessionEncryptionTLS)
			wg.Wait()
		}
		i := 0
		rig.refill = true
		rig.op = func(ctx context.Context) error {
			i++
			m := &lime.Message{}
			m.ID = fmt.Sprint("fill-", i)
			m.SetContent(bigText(1500))
			return ct.Send(ctx, m)
		}
		rig.release = func() {
			if cl != nil {
				cl.Cut()
				_ = cl.Close()
				_ = sv.Close()
			} else {
				go func() {
					for k := 0; k < 8; k++ {
						c2, cc2 := context.WithTimeout(context.Background(), time.Millisecond)
						_, _ = TReceive(c2, st)
						cc2()
					}
				}()
			}
		}
	case strings.HasPrefix(c.Op, "channel."):
		cc, _, release := establishedChannels(c.Transport, 2048)
		if !cc.Established() {
			release()
			return nil, "harness: could not establish"
		}
		rig.release = release
		i := 0
		rig.refill = c.Op != "channel.process-command"
		rig.op = func(ctx context.Context) error {
			i++
			id := fmt.Sprint("op-", i)
			switch c.Op {
			case "channel.send-message":
				m := &lime.Message{}
				m.ID = id
				m.SetContent(bigText(1500))
				return cc.SendMessage(ctx, m)
			case "channel.send-notification":
				n := &lime.Notification{Event: lime.NotificationEventFailed, Reason: &lime.Reason{Code: 1, Description: strings.Repeat("r", 1500)}}
				n.ID = id
				return cc.SendNotification(ctx, n)
			case "channel.send-request":
				r := &lime.RequestCommand{}
				r.ID, r.Method = id, lime.CommandMethodSet
				r.SetURIString("/x")
				r.SetResource(bigText(1500))
				return cc.SendRequestCommand(ctx, r)
			case "channel.send-response":
				r := &lime.ResponseCommand{Status: lime.CommandStatusSuccess}
				r.ID, r.Method = id, lime.CommandMethodGet
				r.SetResource(bigText(1500))
				return cc.SendResponseCommand(ctx, r)
			default:
				r := &lime.RequestCommand{}
				r.ID, r.Method = id, lime.CommandMethodGet
				r.SetURIString("/never-answered")
				_, err := cc.ProcessCommand(ctx, r)
				return err
			}
		}
	case strings.HasPrefix(c.Op, "client."):
		ct, _, cl, sv := newTransportPair(c.Transport, 65536)
		var peer *RawPeer
		var ip *InprocPeer
		if cl != nil {
			peer = NewRawPeer(sv)
		} else {
			_, st2, _, _ := newTransportPair("inproc", 0)
			_ = st2
		}
		_ = ip
		if c.Transport == "inproc" {
			// scripted server over the in-process pair
			var st lime.Transport
			ct, st = lime.VerifNewInProcessTransportPair("c15c", 4)
			ip = &InprocPeer{T: st}
		}
		cc := lime.NewClientChannel(ct, 1)
		stage := strings.TrimPrefix(c.Op, "client.establish/")
		from := srvNode
		send := func(s *lime.Session) {
			if peer != nil {
				m, _ := CanonOf(s)
				_ = peer.SendEnv(m)
			} else {
				_ = ip.SendEnvelope(s)
			}
		}
		ses := func(state lime.SessionState) *lime.Session {
			s := &lime.Session{State: state}
			s.ID, s.From = "A", from
			return s
		}
		// a scripted server goroutine that answers up to the stage and then goes silent
		go func() {
			switch stage {
			case "choice-sent", "tls-upgrade":
				o := ses(lime.SessionStateNegotiating)
				o.EncryptionOptions = []lime.SessionEncryption{lime.SessionEncryptionNone, lime.SessionEncryptionTLS}
				o.CompressionOptions = []lime.SessionCompression{lime.SessionCompressionNone}
				send(o)
				if stage == "tls-upgrade" {
					time.Sleep(time.Millisecond) // virtual: elapses only once the client has answered and is waiting
					cf := ses(lime.SessionStateNegotiating)
					cf.Encryption, cf.Compression = lime.SessionEncryptionTLS, lime.SessionCompressionNone
					send(cf) // ... and never starts the TLS handshake
				}
			case "auth-sent":
				a := ses(lime.SessionStateAuthenticating)
				a.SchemeOptions = []lime.AuthenticationScheme{lime.AuthenticationSchemeGuest}
				send(a)
			case "client.finish":
				a := ses(lime.SessionStateAuthenticating)
				a.SchemeOptions = []lime.AuthenticationScheme{lime.AuthenticationSchemeGuest}
				send(a)
				time.Sleep(time.Millisecond)
				e := ses(lime.SessionStateEstablished)
				e.To = lime.Node{Identity: lime.Identity{Name: "alice", Domain: "cli.example"}, Instance: "home"}
				send(e)
			}
		}()
		encSel := lime.NoneEncryptionSelector
		if stage == "tls-upgrade" {
			encSel = lime.TLSEncryptionSelector
		}
		if c.Op == "client.finish" {
			ectx, ec := context.WithTimeout(context.Background(), 20*time.Second)
			_, err := cc.EstablishSession(ectx, lime.NoneCompressionSelector, encSel, lime.Identity{Name: "alice", Domain: "cli.example"}, lime.GuestAuthenticator, "home")
			ec()
			if err != nil || !cc.Established() {
				return nil, fmt.Sprintf("harness: client could not establish: %v", err)
			}
			rig.op = func(ctx context.Context) error { _, err := cc.FinishSession(ctx); return err }
		} else {
			rig.op = func(ctx context.Context) error {
				_, err := cc.EstablishSession(ctx, lime.NoneCompressionSelector, encSel, lime.Identity{Name: "alice", Domain: "cli.example"}, lime.GuestAuthenticator, "home")
				return err
			}
		}
		rig.release = func() {
			if cl != nil {
				_ = sv.Close()
				_ = cl.Close()
			}
			_ = cc.Close()
			if ip != nil {
				_ = ip.T.Close()
			}
		}
	case strings.HasPrefix(c.Op, "server.establish/"):
		stage := strings.TrimPrefix(c.Op, "server.establish/")
		var st lime.Transport
		var peer *RawPeer
		var ip *InprocPeer
		var cl, sv *FConn
		if c.Transport == "inproc" {
			var ct lime.Transport
			ct, st = lime.VerifNewInProcessTransportPair("c15s", 4)
			ip = &InprocPeer{T: ct}
		} else {
			cl, sv = Pipe(PipeOpts{Capacity: 65536})
			var cfg *lime.TCPConfig
			if c.Transport == "tcp-tls" {
				cfg = &lime.TCPConfig{TLSConfig: scfgTLS}
			}
			st = lime.VerifNewTCPTransport(sv, cfg, true)
			peer = NewRawPeer(cl)
		}
		sc := lime.NewServerChannel(st, 1, srvNode, fixedSid)
		enc := []lime.SessionEncryption{lime.SessionEncryptionNone}
		if stage == "await-choice" || stage == "tls-upgrade" {
			enc = []lime.SessionEncryption{lime.SessionEncryptionNone, lime.SessionEncryptionTLS}
		}
		send := func(s *lime.Session) {
			if peer != nil {
				m, _ := CanonOf(s)
				_ = peer.SendEnv(m)
			} else {
				_ = ip.SendEnvelope(s)
			}
		}
		go func() {
			if stage == "await-new" {
				return
			}
			send(&lime.Session{State: lime.SessionStateNew})
			if stage == "tls-upgrade" {
				time.Sleep(time.Millisecond)
				ch := &lime.Session{State: lime.SessionStateNegotiating, Encryption: lime.SessionEncryptionTLS, Compression: lime.SessionCompressionNone}
				ch.ID = fixedSid
				send(ch) // ... and never sends a ClientHello
			}
		}()
		rig.op = func(ctx context.Context) error {
			err := sc.EstablishSession(ctx, []lime.SessionCompression{lime.SessionCompressionNone}, enc, []lime.AuthenticationScheme{lime.AuthenticationSchemeGuest},
				func(context.Context, lime.Identity, lime.Authentication) (*lime.AuthenticationResult, error) {
					return lime.MemberAuthenticationResult(), nil
				}, func(_ context.Context, n lime.Node, _ *lime.ServerChannel) (lime.Node, error) { return n, nil })
			if err == nil && !sc.Established() {
				return errors.New("not established")
			}
			return err
		}
		rig.release = func() {
			if cl != nil {
				_ = cl.Close()
				_ = sv.Close()
			}
			if ip != nil {
				_ = ip.T.Close()
			}
			_ = sc.Close()
		}
	case c.Op == "listener.accept":
		l := lime.NewInProcessTransportListener("c15-accept")
		rig.op = func(ctx context.Context) error { _, err := l.Accept(ctx); return err }
		rig.release = func() {}
	default:
		return nil, "harness: unknown op " + c.Op
	}
	return rig, ""
}

func runC15(c *c15Case) *c15Obs {
	obs := &c15Obs{}
	rig, note := buildC15Rig(c)
	if note != "" {
		obs.Note = note
		return obs
	}
	defer func() {
		rig.release()
		time.Sleep(6 * time.Second)
		synctest.Wait()
	}()
	bound := time.Duration(c15BoundMs(c)) * time.Millisecond
	at := time.Duration(c.AtMs) * time.Millisecond
	for attempt := 0; attempt < 400; attempt++ {
		var ctx context.Context
		var cancel context.CancelFunc
		start := time.Now()
		switch c.End {
		case "deadline":
			ctx, cancel = context.WithDeadline(context.Background(), start.Add(at))
		case "cancel+deadline":
			ctx, cancel = context.WithDeadline(context.Background(), start.Add(time.Minute))
			if c.AtMs == 0 {
				cancel()
			}
		default:
			ctx, cancel = context.WithCancel(context.Background())
			if c.AtMs == 0 {
				cancel()
			}
		}
		done := make(chan opResult, 1)
		go func() {
			err := rig.op(ctx)
			done <- opResult{err, time.Now()}
		}()
		synctest.Wait()
		select {
		case r := <-done:
			cancel()
			if rig.refill && r.err == nil && c.AtMs != 0 {
				continue // not blocked yet: buffers still had room
			}
			// returned without (provably) blocking
			obs.Returned = true
			obs.LatencyMs = r.at.Sub(start.Add(at)).Milliseconds()
			if c.AtMs != 0 && !rig.refill {
				obs.Note = "operation did not block"
			}
			if r.err != nil {
				obs.Err = r.err.Error()
			}
			if c.AtMs == 0 {
				obs.LatencyMs = r.at.Sub(start).Milliseconds()
			}
			return obs
		default:
		}
		// the call is pending and every goroutine is durably blocked
		obs.Blocked = true
		tEnd := start.Add(at)
		if c.End != "deadline" && c.AtMs != 0 {
			time.Sleep(time.Until(tEnd))
			cancel()
		}
		const slack = 40 * time.Second // long enough to see the TLS fallback deadline (30 s) as "late", not "never"
		time.Sleep(time.Until(tEnd.Add(bound + slack)))
		synctest.Wait()
		select {
		case r := <-done:
			obs.Returned = true
			obs.LatencyMs = r.at.Sub(tEnd).Milliseconds()
			if r.err != nil {
				obs.Err = r.err.Error()
			}
		default:
		}
		cancel()
		return obs
	}
	obs.Note = "harness: buffers never filled"
	return obs
}

func judgeC15(c *c15Case, obs *c15Obs, o *Outcome) {
	o.Class("op=" + c.Op)
	o.Class("transport=" + c.Transport)
	o.Class("end=" + c.End)
	if strings.HasPrefix(obs.Note, "harness:") {
		o.Fail("C15/harness/"+c.Op+"/"+c.Transport, "%s", obs.Note)
		return
	}
	o.NonTrivial = obs.Blocked
	key := c.Op + "/" + c.Transport + "/" + c.End
	if obs.Blocked {
		o.Class("blocked-when-context-ended")
	}
	if !obs.Returned {
		o.Fail("C15/never-returned/"+key, "%s on %s was blocked when its context ended (%s at %d ms) and had not returned %d ms + 40 s later", c.Op, c.Transport, c.End, c.AtMs, c15BoundMs(c))
		return
	}
	if obs.Blocked && obs.Err == "" {
		o.Fail("C15/returned-nil/"+key, "%s returned nil although its context ended while it was blocked", c.Op)
	}
	if obs.LatencyMs > c15BoundMs(c) {
		o.Fail("C15/late/"+key, "%s on %s returned %d ms after its context ended (%s); bound %d ms", c.Op, c.Transport, obs.LatencyMs, c.End, c15BoundMs(c))
	}
}

func TestC15Enum(t *testing.T) {
	rec := NewRecorder("C15", "TestC15Enum")
	defer rec.Finish(t)
	sh, nsh := Shard()
	idx := 0
	for _, op := range c15Ops {
		for _, tr := range []string{"inproc", "tcp", "tcp-tls"} {
			if !c15Applies(op, tr) {
				continue
			}
			for _, end := range []string{"deadline", "cancel", "cancel+deadline"} {
				for _, at := range []int{0, 50, 1300, 7000} {
					idx++
					if idx%nsh != sh {
						continue
					}
					c := &c15Case{Op: op, Transport: tr, End: end, AtMs: at}
					o := &Outcome{}
					var obs *c15Obs
					rec.Journal(c)
					synctest.Test(t, func(t *testing.T) { obs = runC15(c) })
					judgeC15(c, obs, o)
					rec.Eval(c, o)
				}
			}
		}
	}
	rec.Note("exhaustive", "true")
}

func TestC15(t *testing.T) {
	rec := NewRecorder("C15", "TestC15")
	rapid.Check(t, func(rt *rapid.T) {
		c := &c15Case{Op: rapid.SampledFrom(c15Ops).Draw(rt, "op"), Transport: rapid.SampledFrom([]string{"inproc", "tcp", "tcp-tls"}).Draw(rt, "transport"),
			End: rapid.SampledFrom([]string{"deadline", "cancel", "cancel+deadline"}).Draw(rt, "end"), AtMs: rapid.IntRange(0, 12000).Draw(rt, "atMs")}
		if !c15Applies(c.Op, c.Transport) {
			c.Transport = "tcp-tls"
			if c.Op == "listener.accept" {
				c.Transport = "inproc"
			}
			if c.Op == "transport.receive/slow-peer" {
				c.Transport = "tcp"
			}
		}
		o := &Outcome{}
		var obs *c15Obs
		rec.Journal(c)
		rapid.SyncTest(rt, func(rt *rapid.T) { obs = runC15(c) })
		judgeC15(c, obs, o)
		rec.Check(rt, c, o)
	})
}

func TestC15Replay(t *testing.T) {
	rec := NewRecorder("C15", "TestC15Replay")
	defer rec.Finish(t)
	for _, f := range ReplayFiles("C15") {
		var c c15Case
		if err := LoadCase(f, &c); err != nil || c.Op == "" {
			continue
		}
		o := &Outcome{}
		var obs *c15Obs
		synctest.Test(t, func(t *testing.T) { obs = runC15(&c) })
		judgeC15(&c, obs, o)
		rec.Eval(&c, o)
	}
}
