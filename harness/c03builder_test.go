//go:build go1.25

package harness

import (
	"context"
	"encoding/base64"
	"strings"
	"sync"
	"testing"
	"testing/synctest"
	"time"

	lime "github.com/takenet/lime-go"
	"pgregory.net/rapid"
)

// C03 through the ServerBuilder entry point: EnablePlain/Key/External/Guest/Transport authentication wire the per-scheme
// dispatch (buildAuthenticate) in front of the application's authenticators. The server listens in-process; the scripted
// client sends session envelopes as objects.

type c03bStep struct {
	Scheme  string `json:"scheme"`           // guest plain key external transport
	Secret  string `json:"secret"`           // the secret the application's authenticator knows as right is "right-secret"
	Encoded string `json:"encoded"`          // base64 | raw (sent as is)
	Name    string `json:"name"`             // identity name: uuid | plain
	NoAuth  bool   `json:"noAuth,omitempty"` // the envelope names the scheme but carries no authentication object at all
}

type c03bCase struct {
	Enabled []string   `json:"enabled"`         // schemes enabled on the builder
	Steps   []c03bStep `json:"steps"`           // authenticating envelopes sent one after the other (the first answered one ends the handshake)
	Other   []string   `json:"other,omitempty"` // schemes enabled on a second builder of the same process while the first server is serving (it is never built or started)
}

type c03bCall struct {
	Scheme   string `json:"scheme"`
	Identity string `json:"identity"`
	Secret   string `json:"secret"`
	Result   string `json:"result"`
}

type c03bObs struct {
	Note        string     `json:"note,omitempty"`
	Calls       []c03bCall `json:"calls"`
	Got         []GotEnv   `json:"got"`
	EstCallback int        `json:"estCallback"`
	SentUpTo    int        `json:"sentUpTo"`
}

const rightSecret = "right-secret"
const uuidName = "3f2504e0-4f89-11d3-9a0c-0305e82c3301"

func runC03Builder(c *c03bCase) *c03bObs {
	obs := &c03bObs{}
	var mu sync.Mutex
	logCall := func(scheme string, id lime.Identity, secret string) (*lime.AuthenticationResult, error) {
		res := "unknown"
		if secret == rightSecret {
			res = "member"
		}
		mu.Lock()
		obs.Calls = append(obs.Calls, c03bCall{Scheme: scheme, Identity: IdentityText(id), Secret: secret, Result: res})
		mu.Unlock()
		if res == "member" {
			return lime.MemberAuthenticationResult(), nil
		}
		return lime.UnknownAuthenticationResult(), nil
	}
	addr := lime.InProcessAddr("c03-builder")
	b := lime.NewServerBuilder().Name("postmaster").Domain("srv.example").Instance("s1").ListenInProcess(addr).
		Established(func(string, *lime.ServerChannel) { mu.Lock(); obs.EstCallback++; mu.Unlock() })
	for _, s := range c.Enabled {
		switch s {
		case "guest":
			b = b.EnableGuestAuthentication()
		case "transport":
			b = b.EnableTransportAuthentication()
		case "plain":
			b = b.EnablePlainAuthentication(func(_ context.Context, id lime.Identity, pw string) (*lime.AuthenticationResult, error) {
				return logCall("plain", id, pw)
			})
		case "key":
			b = b.EnableKeyAuthentication(func(_ context.Context, id lime.Identity, k string) (*lime.AuthenticationResult, error) {
				return logCall("key", id, k)
			})
		case "external":
			b = b.EnableExternalAuthentication(func(_ context.Context, id lime.Identity, tok, _ string) (*lime.AuthenticationResult, error) {
				return logCall("external", id, tok)
			})
		}
	}
	server := b.Build()
	done := make(chan error, 1)
	go func() { done <- server.ListenAndServe() }()
	synctest.Wait()
	if len(c.Other) > 0 {
		// another server of the same process is being configured meanwhile: that is nothing to this one
		deny := func(context.Context, lime.Identity, string) (*lime.AuthenticationResult, error) {
			return lime.UnknownAuthenticationResult(), nil
		}
		b2 := lime.NewServerBuilder().Name("other").Domain("other.example")
		for _, s := range c.Other {
			switch s {
			case "guest":
				b2 = b2.EnableGuestAuthentication()
			case "transport":
				b2 = b2.EnableTransportAuthentication()
			case "plain":
				b2 = b2.EnablePlainAuthentication(deny)
			case "key":
				b2 = b2.EnableKeyAuthentication(deny)
			case "external":
				b2 = b2.EnableExternalAuthentication(func(context.Context, lime.Identity, string, string) (*lime.AuthenticationResult, error) {
					return lime.UnknownAuthenticationResult(), nil
				})
			}
		}
		_ = b2
	}
	ct, err := lime.DialInProcess(addr, 8)
	if err != nil {
		obs.Note = "harness: dial: " + err.Error()
		_ = server.Close()
		<-done
		return obs
	}
	peer := &InprocPeer{T: ct}
	_ = peer.SendEnvelope(&lime.Session{State: lime.SessionStateNew})
	synctest.Wait()
	peer.Drain()
	sid := ""
	for _, g := range peer.Got {
		if id, ok := g.Env["id"].(string); ok {
			sid = id
		}
	}
	for i, st := range c.Steps {
		if !ct.Connected() {
			break
		}
		s := &lime.Session{State: lime.SessionStateAuthenticating}
		s.ID = sid
		name := "alice"
		if st.Name == "uuid" {
			name = uuidName
		}
		s.From = lime.Node{Identity: lime.Identity{Name: name, Domain: "cli.example"}, Instance: "home"}
		enc := st.Secret
		if st.Encoded == "base64" {
			enc = base64.StdEncoding.EncodeToString([]byte(st.Secret))
		}
		switch {
		case st.NoAuth:
			s.Scheme = lime.AuthenticationScheme(st.Scheme)
		case st.Scheme == "guest":
			s.SetAuthentication(&lime.GuestAuthentication{})
		case st.Scheme == "transport":
			s.SetAuthentication(&lime.TransportAuthentication{})
		case st.Scheme == "plain":
			s.SetAuthentication(&lime.PlainAuthentication{Password: enc})
		case st.Scheme == "key":
			s.SetAuthentication(&lime.KeyAuthentication{Key: enc})
		case st.Scheme == "external":
			s.SetAuthentication(&lime.ExternalAuthentication{Token: st.Secret, Issuer: "issuer.example"})
		}
		_ = peer.SendEnvelope(s)
		obs.SentUpTo = i + 1
		synctest.Wait()
		peer.Drain()
		if n := len(peer.Got); n > 0 {
			if st, _ := peer.Got[n-1].Env["state"].(string); st != "authenticating" {
				break
			}
		}
	}
	time.Sleep(2 * time.Second)
	synctest.Wait()
	peer.Drain()
	obs.Got = peer.Got
	_ = ct.Close()
	_ = server.Close()
	<-done
	time.Sleep(2 * time.Second)
	synctest.Wait()
	return obs
}

func judgeC03Builder(c *c03bCase, obs *c03bObs, o *Outcome) {
	o.Class("builder-entry-point")
	if len(c.Other) > 0 {
		o.Class("second-builder-configured-meanwhile")
	}
	if strings.HasPrefix(obs.Note, "harness:") {
		o.Fail("C03/harness/builder", "%s", obs.Note)
		return
	}
	o.NonTrivial = obs.SentUpTo > 0
	est := false
	for _, g := range obs.Got {
		if g.Env["state"] == "established" {
			est = true
		}
	}
	if obs.EstCallback > 0 && !est {
		o.Fail("C03/established-callback-without-established-envelope/builder", "Established fired %d times, the peer never saw an established session", obs.EstCallback)
	}
	if !est {
		return
	}
	o.Class("established-observed")
	last := c.Steps[obs.SentUpTo-1]
	o.Class("established-via=" + last.Scheme)
	if !containsStr(c.Enabled, last.Scheme) {
		o.Fail("C03/established-with-unoffered-scheme/builder", "established under scheme %s, enabled %v", last.Scheme, c.Enabled)
		return
	}
	if last.NoAuth {
		o.Class("no-authentication-object")
		if last.Scheme != "guest" {
			o.Fail("C03/established-without-credentials/builder", "established under scheme %s by an envelope that carried no authentication object at all", last.Scheme)
			return
		}
	}
	switch last.Scheme {
	case "plain", "key", "external":
		// the application's authenticator must have vouched for exactly what this peer presented
		if len(obs.Calls) == 0 {
			o.Fail("C03/established-without-auth-call/builder", "established via %s without a call of the application's authenticator", last.Scheme)
			return
		}
		call := obs.Calls[len(obs.Calls)-1]
		name := "alice"
		if last.Name == "uuid" {
			name = uuidName
		}
		if call.Result != "member" {
			o.Fail("C03/established-after-"+call.Result+"/builder", "established although the authenticator answered %q", call.Result)
		}
		if call.Scheme != last.Scheme || call.Identity != name+"@cli.example" {
			o.Fail("C03/auth-args-mismatch/builder", "authenticator ran for (%s,%s), the peer presented (%s,%s)", call.Scheme, call.Identity, last.Scheme, name+"@cli.example")
		}
		// what the peer presented, as the scheme defines it: the base64-decoded password / key, or the token itself
		presentedSecret, decodable := last.Secret, true
		if last.Scheme != "external" && last.Encoded == "raw" {
			if b, err := base64.StdEncoding.DecodeString(last.Secret); err == nil {
				presentedSecret = string(b)
			} else {
				decodable = false
			}
		}
		if !decodable {
			o.Fail("C03/established-with-undecodable-credentials/builder", "established although the %s credential %q is not valid base64", last.Scheme, last.Secret)
		} else if call.Secret != presentedSecret {
			o.Fail("C03/auth-secret-mismatch/builder", "authenticator was handed %q, the peer presented %q", call.Secret, presentedSecret)
		}
		if decodable && presentedSecret != rightSecret {
			o.Fail("C03/established-with-wrong-secret/builder", "established with secret %q", presentedSecret)
		}
	case "transport":
		o.Fail("C03/established-via-transport-scheme/builder", "the transport scheme has no credential check behind it in ServerBuilder, yet a session was established through it")
	}
}

func TestC03Builder(t *testing.T) {
	rec := NewRecorder("C03", "TestC03Builder")
	rapid.Check(t, func(rt *rapid.T) {
		all := []string{"guest", "plain", "key", "external", "transport"}
		c := &c03bCase{}
		for _, s := range all {
			if rapid.Bool().Draw(rt, "enable-"+s) {
				c.Enabled = append(c.Enabled, s)
			}
		}
		if rapid.IntRange(0, 2).Draw(rt, "second") == 0 {
			for _, s := range all {
				if rapid.Bool().Draw(rt, "other-"+s) {
					c.Other = append(c.Other, s)
				}
			}
		}
		n := rapid.IntRange(1, 3).Draw(rt, "steps")
		for i := 0; i < n; i++ {
			c.Steps = append(c.Steps, c03bStep{
				Scheme:  rapid.SampledFrom(all).Draw(rt, "scheme"),
				Secret:  rapid.SampledFrom([]string{rightSecret, "wrong", "", "right-secret ", "cmlnaHQtc2VjcmV0", "not base64!"}).Draw(rt, "secret"),
				Encoded: rapid.SampledFrom([]string{"base64", "base64", "raw"}).Draw(rt, "encoded"),
				Name:    rapid.SampledFrom([]string{"uuid", "plain"}).Draw(rt, "name"),
				NoAuth:  rapid.IntRange(0, 4).Draw(rt, "noAuth") == 0,
			})
		}
		o := &Outcome{}
		var obs *c03bObs
		rec.Journal(c)
		rapid.SyncTest(rt, func(rt *rapid.T) { obs = runC03Builder(c) })
		judgeC03Builder(c, obs, o)
		rec.Check(rt, c, o)
	})
}
