package harness

// C19, the in-process transport: the server drops the session while several of its goroutines are still sending (their
// envelopes may land in the client's queue after the closing). Once the client's receiver has ended, the channel must not
// report an established session any more: the Client would go on handing it out, send into it with success and listen on it
// in a busy loop.

import (
	"context"
	"fmt"
	"sync"
	"testing"
	"time"
)

func TestC19InprocLateEnvelopes(t *testing.T) {
	rec := NewRecorder("C19", "TestC19InprocLateEnvelopes")
	defer rec.Finish(t)
	deaf := 0
	rounds := Scale(1500, 20000)
	case0 := map[string]int{"rounds": rounds, "serverSenders": 8}
	rec.Journal(case0)
	for r := 0; r < rounds; r++ {
		cc, sc, release, note := establishedChannelsCfg("inproc", 0, 1, 1, 0, false)
		if note != "" {
			t.Skip(note)
		}
		go func() {
			for range cc.MsgChan() {
			}
		}()
		var wg sync.WaitGroup
		stop := make(chan struct{})
		for s := 0; s < 8; s++ {
			wg.Add(1)
			go func(s int) {
				defer wg.Done()
				for k := 0; ; k++ {
					select {
					case <-stop:
						return
					default:
					}
					ctx, cancel := context.WithTimeout(context.Background(), 50*time.Millisecond)
					err := sc.SendMessage(ctx, c13Message(fmt.Sprintf("m-%d-%d", s, k)))
					cancel()
					if err != nil {
						return
					}
				}
			}(s)
		}
		time.Sleep(200 * time.Microsecond)
		_ = sc.Close() // the server drops the session
		close(stop)
		wg.Wait()
		select {
		case <-cc.RcvDone():
		case <-time.After(2 * time.Second):
			deaf++
			release()
			continue
		}
		time.Sleep(time.Millisecond)
		if cc.Established() {
			deaf++

		}
		release()
	}
	o := &Outcome{NonTrivial: true}
	o.Class("inproc/server-drops-while-sending")
	if deaf > 0 {
		o.Fail("C19/deaf-channel-looks-established/inproc", "in %d of %d rounds the client's receiver had ended (its streams are closed) and the channel still reported an established session", deaf, rounds)
	}
	rec.Eval(case0, o)
}
