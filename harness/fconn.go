package harness

// In-memory net.Conn pair with bounded buffers, deadlines, byte capture and scripted faults.
// Blocking uses sync.Cond.Wait and deadlines use time.AfterFunc, so that inside a testing/synctest
// bubble blocked readers/writers are durably blocked and deadlines fire on the fake clock.
//
// Behaviour mirrors a TCP socket where the checks depend on it:
//   - a deadline in the past fails at once with a net.Error whose Timeout() and Temporary() are true
//     (*net.OpError wrapping os.ErrDeadlineExceeded, which is what the net package returns);
//   - a write whose deadline expires after part of the buffer was accepted returns (n>0, timeout);
//   - reads never return (0, nil) and never return data together with an error;
//   - orderly close: the peer drains buffered bytes, then reads io.EOF; its writes fail;
//   - abrupt close (Cut/Reset): buffered bytes are discarded, reads fail with a non-EOF error.

import (
	"errors"
	"io"
	"net"
	"os"
	"sync"
	"time"
)

type FaultOp string

const (
	FPass    FaultOp = "pass"    // this call behaves normally
	FChunk   FaultOp = "chunk"   // read: deliver at most N bytes; write: accept at most N bytes per underlying step (still completes)
	FTimeout FaultOp = "timeout" // return (0, timeout) at once
	FShort   FaultOp = "short"   // write: accept N bytes then return (N, timeout)
	FStall   FaultOp = "stall"   // sleep D milliseconds, then behave normally
	FCut     FaultOp = "cut"     // write: accept N bytes, then the connection is cut abruptly; read: cut now
	FReset   FaultOp = "reset"   // fail with a non-timeout, non-EOF error; connection unusable afterwards
)

// Fault is consumed by one Read or one Write call on the end it is attached to.
type Fault struct {
	Op FaultOp `json:"op"`
	N  int     `json:"n,omitempty"`
	D  int     `json:"d,omitempty"` // milliseconds
}

type fAddr string

func (a fAddr) Network() string { return "fconn" }
func (a fAddr) String() string  { return string(a) }

var errReset = errors.New("fconn: connection reset by peer")

func timeoutErr(op string) error {
	return &net.OpError{Op: op, Net: "fconn", Err: os.ErrDeadlineExceeded}
}

// half is one direction of the pipe.
type half struct {
	mu       sync.Mutex
	cond     *sync.Cond
	buf      []byte
	capacity int
	wclosed  bool // writing end closed in an orderly way
	rclosed  bool // reading end closed
	broken   bool // abrupt: both directions dead
	total    int64
	capture  []byte
	doCap    bool
}

func newHalf(capacity int, capture bool) *half {
	h := &half{capacity: capacity, doCap: capture}
	h.cond = sync.NewCond(&h.mu)
	return h
}

// FConn is one end of the in-memory connection.
type FConn struct {
	name   string
	rd, wr *half
	peer   *FConn

	dmu    sync.Mutex
	rdl    time.Time
	wdl    time.Time
	rtimer *time.Timer
	wtimer *time.Timer
	closed bool

	smu         sync.Mutex
	readFaults  []Fault
	writeFaults []Fault
	chunkAll    int // if >0, every read delivers at most this many bytes

	// statistics
	ReadCalls  int
	BytesRead  int64
	WriteCalls int
	Fired      map[FaultOp]int // scripted faults consumed, by kind
	MaxRead    int             // largest number of bytes delivered by a single Read
	ReadLog    []int           // bytes delivered per Read call (when LogReads is set)
	LogReads   bool
	CutMid     bool // a scripted cut fired in the middle of a write

	// EOFWithData: the read that hands over the last bytes of a stream the peer has ended reports the end with them
	// (n > 0, io.EOF), as io.Reader allows and as a TLS 1.2 connection does when the close notification is already there
	EOFWithData bool
}

type PipeOpts struct {
	Capacity int  // per direction; default 64 KiB
	Capture  bool // keep every byte written, per direction
}

// Pipe returns two connected ends (a, b): what a writes, b reads.
func Pipe(o PipeOpts) (*FConn, *FConn) {
	if o.Capacity <= 0 {
		o.Capacity = 64 << 10
	}
	ab := newHalf(o.Capacity, o.Capture)
	ba := newHalf(o.Capacity, o.Capture)
	a := &FConn{name: "a", rd: ba, wr: ab}
	b := &FConn{name: "b", rd: ab, wr: ba}
	a.peer, b.peer = b, a
	return a, b
}

func (c *FConn) SetReadFaults(f []Fault) {
	c.smu.Lock()
	c.readFaults = append([]Fault(nil), f...)
	c.smu.Unlock()
}

func (c *FConn) SetWriteFaults(f []Fault) {
	c.smu.Lock()
	c.writeFaults = append([]Fault(nil), f...)
	c.smu.Unlock()
}

// SetReadChunk makes every read deliver at most n bytes (0 = unlimited).
func (c *FConn) SetReadChunk(n int) {
	c.smu.Lock()
	c.chunkAll = n
	c.smu.Unlock()
}

func (c *FConn) nextFault(read bool) (Fault, int) {
	c.smu.Lock()
	defer c.smu.Unlock()
	var f Fault
	if read {
		c.ReadCalls++
		if len(c.readFaults) > 0 {
			f = c.readFaults[0]
			c.readFaults = c.readFaults[1:]
		}
	} else {
		c.WriteCalls++
		if len(c.writeFaults) > 0 {
			f = c.writeFaults[0]
			c.writeFaults = c.writeFaults[1:]
		}
	}
	if f.Op != "" && f.Op != FPass {
		if c.Fired == nil {
			c.Fired = map[FaultOp]int{}
		}
		c.Fired[f.Op]++
	}
	return f, c.chunkAll
}

func (c *FConn) isClosed() bool {
	c.dmu.Lock()
	defer c.dmu.Unlock()
	return c.closed
}

func (c *FConn) deadline(read bool) time.Time {
	c.dmu.Lock()
	defer c.dmu.Unlock()
	if read {
		return c.rdl
	}
	return c.wdl
}

func expired(d time.Time) bool { return !d.IsZero() && !time.Now().Before(d) }

func (c *FConn) Read(b []byte) (int, error) {
	if len(b) == 0 {
		return 0, nil
	}
	if expired(c.deadline(true)) && !c.isClosed() {
		// like a socket: an operation that starts after its deadline fails at once, whatever is buffered
		return 0, timeoutErr("read")
	}
	f, chunk := c.nextFault(true)
	limit := len(b)
	if chunk > 0 && chunk < limit {
		limit = chunk
	}
	switch f.Op {
	case FTimeout:
		return 0, timeoutErr("read")
	case FStall:
		time.Sleep(time.Duration(f.D) * time.Millisecond)
	case FCut:
		c.Cut()
	case FReset:
		c.Cut()
		return 0, errReset
	case FChunk:
		if f.N > 0 && f.N < limit {
			limit = f.N
		}
	}
	h := c.rd
	h.mu.Lock()
	defer h.mu.Unlock()
	for {
		if c.isClosed() {
			return 0, net.ErrClosed
		}
		if h.broken {
			return 0, errReset
		}
		if len(h.buf) > 0 {
			n := copy(b[:limit], h.buf)
			h.buf = h.buf[n:]
			if len(h.buf) == 0 {
				h.buf = nil
			}
			h.cond.Broadcast()
			c.smu.Lock()
			c.BytesRead += int64(n)
			if n > c.MaxRead {
				c.MaxRead = n
			}
			if c.LogReads {
				c.ReadLog = append(c.ReadLog, n)
			}
			glued := c.EOFWithData
			c.smu.Unlock()
			if glued && h.buf == nil && h.wclosed {
				return n, io.EOF
			}
			return n, nil
		}
		if h.wclosed {
			return 0, io.EOF
		}
		if expired(c.deadline(true)) {
			return 0, timeoutErr("read")
		}
		h.cond.Wait()
	}
}

func (c *FConn) Write(b []byte) (int, error) {
	if expired(c.deadline(false)) && !c.isClosed() {
		// like a socket: a write that starts after its deadline fails at once, also when there is room
		return 0, timeoutErr("write")
	}
	f, _ := c.nextFault(false)
	budget := -1 // bytes this call may accept before the scripted fault fires
	var after FaultOp
	switch f.Op {
	case FTimeout:
		return 0, timeoutErr("write")
	case FShort:
		budget, after = f.N, FShort
	case FCut:
		budget, after = f.N, FCut
	case FReset:
		c.Cut()
		return 0, errReset
	case FStall:
		time.Sleep(time.Duration(f.D) * time.Millisecond)
	}
	h := c.wr
	h.mu.Lock()
	defer h.mu.Unlock()
	written := 0
	for {
		if c.isClosed() {
			return written, net.ErrClosed
		}
		if h.broken {
			return written, errReset
		}
		if h.rclosed || h.wclosed {
			return written, &net.OpError{Op: "write", Net: "fconn", Err: errors.New("broken pipe")}
		}
		if written == len(b) {
			if after == FCut && budget >= 0 && written >= budget {
				// the whole buffer was accepted before the connection broke: the write itself succeeds
				h.mu.Unlock()
				c.Cut()
				h.mu.Lock()
			}
			return written, nil
		}
		if budget == 0 || (budget > 0 && written >= budget) {
			if after == FCut {
				c.smu.Lock()
				c.CutMid = true
				c.smu.Unlock()
				h.mu.Unlock()
				c.Cut()
				h.mu.Lock()
				return written, errReset
			}
			return written, timeoutErr("write")
		}
		space := h.capacity - len(h.buf)
		if space > 0 {
			n := len(b) - written
			if n > space {
				n = space
			}
			if budget > 0 && written+n > budget {
				n = budget - written
			}
			h.buf = append(h.buf, b[written:written+n]...)
			if h.doCap {
				h.capture = append(h.capture, b[written:written+n]...)
			}
			h.total += int64(n)
			written += n
			h.cond.Broadcast()
			continue
		}
		if expired(c.deadline(false)) {
			return written, timeoutErr("write")
		}
		h.cond.Wait()
	}
}

// Close closes this end in an orderly way: the peer can drain what was written, then reads EOF.
func (c *FConn) Close() error {
	c.dmu.Lock()
	if c.closed {
		c.dmu.Unlock()
		return net.ErrClosed
	}
	c.closed = true
	if c.rtimer != nil {
		c.rtimer.Stop()
	}
	if c.wtimer != nil {
		c.wtimer.Stop()
	}
	c.dmu.Unlock()

	c.wr.mu.Lock()
	c.wr.wclosed = true
	c.wr.cond.Broadcast()
	c.wr.mu.Unlock()

	c.rd.mu.Lock()
	c.rd.rclosed = true
	c.rd.buf = nil
	c.rd.cond.Broadcast()
	c.rd.mu.Unlock()
	return nil
}

// CloseWrite half-closes: the peer reads EOF after draining, this end can still read.
func (c *FConn) CloseWrite() {
	c.wr.mu.Lock()
	c.wr.wclosed = true
	c.wr.cond.Broadcast()
	c.wr.mu.Unlock()
}

// Cut breaks the connection abruptly in both directions (buffered data is lost).
func (c *FConn) Cut() {
	for _, h := range []*half{c.rd, c.wr} {
		h.mu.Lock()
		h.broken = true
		h.buf = nil
		h.cond.Broadcast()
		h.mu.Unlock()
	}
}

// PeerClosed reports whether the other end has closed (orderly or abruptly): after draining, reads fail.
func (c *FConn) PeerClosed() bool {
	c.rd.mu.Lock()
	defer c.rd.mu.Unlock()
	return c.rd.wclosed || c.rd.broken
}

// Closed reports whether Close was called on this end.
func (c *FConn) Closed() bool { return c.isClosed() }

// Captured returns a copy of all bytes written by this end (needs PipeOpts.Capture).
func (c *FConn) Captured() []byte {
	c.wr.mu.Lock()
	defer c.wr.mu.Unlock()
	return append([]byte(nil), c.wr.capture...)
}

// TotalWritten returns the number of bytes this end has written into the pipe.
func (c *FConn) TotalWritten() int64 {
	c.wr.mu.Lock()
	defer c.wr.mu.Unlock()
	return c.wr.total
}

// TotalRead returns the number of bytes this end has taken out of the pipe.
func (c *FConn) TotalRead() int64 {
	c.smu.Lock()
	defer c.smu.Unlock()
	return c.BytesRead
}

// Buffered returns the number of bytes waiting to be read by this end.
func (c *FConn) Buffered() int {
	c.rd.mu.Lock()
	defer c.rd.mu.Unlock()
	return len(c.rd.buf)
}

func (c *FConn) LocalAddr() net.Addr  { return fAddr("fconn-" + c.name) }
func (c *FConn) RemoteAddr() net.Addr { return fAddr("fconn-" + c.peer.name) }

func (c *FConn) SetDeadline(t time.Time) error {
	_ = c.SetReadDeadline(t)
	return c.SetWriteDeadline(t)
}

func (c *FConn) setDL(read bool, t time.Time) {
	h := c.wr
	if read {
		h = c.rd
	}
	c.dmu.Lock()
	var old *time.Timer
	if read {
		old, c.rdl = c.rtimer, t
	} else {
		old, c.wdl = c.wtimer, t
	}
	if old != nil {
		old.Stop()
	}
	var nt *time.Timer
	if !t.IsZero() && !c.closed {
		d := time.Until(t)
		if d > 0 {
			nt = time.AfterFunc(d, func() {
				h.mu.Lock()
				h.cond.Broadcast()
				h.mu.Unlock()
			})
		}
	}
	if read {
		c.rtimer = nt
	} else {
		c.wtimer = nt
	}
	c.dmu.Unlock()
	// wake blocked callers so that they re-evaluate the new deadline
	h.mu.Lock()
	h.cond.Broadcast()
	h.mu.Unlock()
}

func (c *FConn) SetReadDeadline(t time.Time) error {
	if c.isClosed() {
		return net.ErrClosed
	}
	c.setDL(true, t)
	return nil
}

func (c *FConn) SetWriteDeadline(t time.Time) error {
	if c.isClosed() {
		return net.ErrClosed
	}
	c.setDL(false, t)
	return nil
}

var _ net.Conn = (*FConn)(nil)
