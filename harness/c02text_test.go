package harness

// C02 text-form sweep: the members that carry a parsed text form (uri, from/to/pp, type, id-bearing enums) are set to every
// string of up to three pieces from a small alphabet of the separators and escapes those parsers branch on; each input goes
// through the same decode / re-encode / re-decode oracle as every other C02 input. Enumerated (independent of VERIF_SEED).

import (
	"encoding/json"
	"strings"
	"testing"
)

var c02TextAlphabet = []string{"/", "%2F", "%7B", "{", "%", "%zz", "lime:", "http:", ":", "@", "?", "#", "=", "+", " ", ".", "..", "a", "x.y", "[", "]", "*", "é", "\\"}

var c02TextHosts = []struct {
	before, after string
	origin        string
}{
	{`{"id":"1","method":"get","uri":`, `}`, "text-uri"},
	{`{"id":"1","from":"a@b/c","method":"set","type":"text/plain","resource":"x","uri":`, `}`, "text-uri-set"},
	{`{"id":"1","method":"get","status":"success","uri":`, `}`, "text-uri-response"},
	{`{"id":"1","content":"x","type":"text/plain","to":`, `}`, "text-node"},
	{`{"id":"1","content":"x","type":"text/plain","from":"a@b/c","pp":`, `}`, "text-node-pp"},
	{`{"id":"1","content":"x","type":`, `}`, "text-mediatype"},
	{`{"id":"1","method":"get","uri":"/x","status":"success","resource":{"itemType":"text/plain","items":[]},"type":`, `}`, "text-mediatype-resource"},
	{`{"id":"1","event":`, `}`, "text-event"},
	{`{"id":"1","content":{"photoUri":`, `},"type":"application/vnd.lime.account+json"}`, "text-document-uri"},
}

func TestC02Text(t *testing.T) {
	rec := NewRecorder("C02", "TestC02Text")
	defer rec.Finish(t)
	sh, nsh := Shard()
	item := 0
	run := func(text string) {
		q, _ := json.Marshal(text)
		for _, h := range c02TextHosts {
			item++
			if item%nsh != sh {
				continue
			}
			b := []byte(h.before + string(q) + h.after)
			o := &Outcome{}
			o.Class("origin=" + h.origin)
			judgeDecode(b, o)
			o.NonTrivial = true
			rec.Eval(newC02Case(b, h.origin), o)
		}
	}
	depth := 3
	if Thorough() {
		depth = 4
	}
	var rec3 func(prefix string, d int)
	rec3 = func(prefix string, d int) {
		if prefix != "" {
			run(prefix)
		}
		if d == 0 {
			return
		}
		for _, p := range c02TextAlphabet {
			rec3(prefix+p, d-1)
		}
	}
	rec3("", depth)
	// deeper, with the few characters each grammar branches on, in the members that carry that grammar only
	deep := []struct {
		origins  string
		alphabet []string
		quick    int
		thorough int
	}{
		{"text-mediatype text-mediatype-resource", []string{"a", "/", "+", ";", "="}, 6, 8},
		{"text-node text-node-pp", []string{"a", "@", "/", "."}, 7, 9},
		{"text-uri text-uri-response", []string{"a", "/", ":", "?", "%2F", "@", "lime:", "{"}, 5, 6},
	}
	for _, dp := range deep {
		var hosts []int
		for i, h := range c02TextHosts {
			for _, o := range strings.Fields(dp.origins) {
				if h.origin == o {
					hosts = append(hosts, i)
				}
			}
		}
		d := dp.quick
		if Thorough() {
			d = dp.thorough
		}
		var walk func(prefix string, d int)
		walk = func(prefix string, d int) {
			if prefix != "" {
				q, _ := json.Marshal(prefix)
				for _, hi := range hosts {
					item++
					if item%nsh != sh {
						continue
					}
					h := c02TextHosts[hi]
					b := []byte(h.before + string(q) + h.after)
					o := &Outcome{NonTrivial: true}
					o.Class("origin=" + h.origin + "-deep")
					judgeDecode(b, o)
					rec.Eval(newC02Case(b, h.origin+"-deep"), o)
				}
			}
			if d == 0 {
				return
			}
			for _, p := range dp.alphabet {
				walk(prefix+p, d-1)
			}
		}
		walk("", d)
	}
	rec.Note("exhaustive", "true")
}
