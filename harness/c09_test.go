//go:build go1.25

package harness

import (
	"bytes"
	"fmt"
	"strings"
	"testing"
	"testing/synctest"

	"pgregory.net/rapid"
)

func capComp(string) []string { return []string{"none"} }

// judgeC09Script: offer = configured ∩ supported; confirmation only for an offered pair, echoing it; anything else failed;
// after a confirmed tls everything the server writes is TLS and Authenticate runs under tls.
func judgeC09Script(c *SrvCase, obs *SrvObs, o *Outcome) {
	offerC := intersectStr(c.Cfg.Comp, capComp(c.Cfg.Transport))
	offerE := intersectStr(c.Cfg.Enc, capEnc(c.Cfg.Transport))
	negotiated := false
	confirmedEnc := ""
	var choice *CSym
	for gi, g := range obs.Got {
		if g.Env["state"] != "negotiating" {
			continue
		}
		if g.Env["encryptionOptions"] != nil || g.Env["compressionOptions"] != nil {
			negotiated = true
			if !setEq(offerE, listOf(g.Env["encryptionOptions"])) || !setEq(offerC, listOf(g.Env["compressionOptions"])) {
				o.Fail("C09/offer-not-configured-and-supported", "offered %v/%v, configured %v/%v, supported %v/%v", g.Env["compressionOptions"], g.Env["encryptionOptions"],
					c.Cfg.Comp, c.Cfg.Enc, capComp(c.Cfg.Transport), capEnc(c.Cfg.Transport))
			}
			continue
		}
		// a confirmation: must answer the client's latest choice
		choice = nil
		for i := 0; i < g.Step && i < len(c.Script); i++ {
			if c.Script[i].Kind == "session" && c.Script[i].State == "negotiating" {
				choice = &c.Script[i]
			}
		}
		comp, _ := g.Env["compression"].(string)
		enc, _ := g.Env["encryption"].(string)
		if choice == nil {
			o.Fail("C09/confirmation-without-choice", "confirmation %s/%s although the client never chose", comp, enc)
			continue
		}
		if !containsStr(offerC, comp) || !containsStr(offerE, enc) {
			o.Fail("C09/confirmed-unoffered-option", "confirmed %s/%s, offer was %v/%v", comp, enc, offerC, offerE)
		}
		if comp != choice.Comp || enc != choice.Enc {
			o.Fail("C09/confirmation-differs-from-choice", "client chose %s/%s, server confirmed %s/%s", choice.Comp, choice.Enc, comp, enc)
		}
		confirmedEnc = enc
		_ = gi
	}
	if negotiated {
		o.Class("negotiation-stage")
	}
	judgeGluedCleartext(c, obs, o, "C09/cleartext-acted-upon-after-tls-confirmation")
	// a choice outside the offer must be answered with failed (when a negotiation stage was open)
	if negotiated {
		for i := range c.Script {
			s := &c.Script[i]
			if i == 1 && s.Kind == "session" && s.State == "negotiating" && s.ID == "sid" && (!containsStr(offerC, s.Comp) || !containsStr(offerE, s.Enc)) {
				answered := false
				for _, g := range obs.Got {
					if g.Step >= 2 && g.Env["state"] == "failed" {
						answered = true
					}
					if g.Step >= 2 && g.Env["state"] != "failed" {
						o.Fail("C09/unoffered-choice-not-failed", "choice %s/%s is outside the offer %v/%v but the server answered %v", s.Comp, s.Enc, offerC, offerE, g.Env["state"])
					}
				}
				if !answered {
					o.Fail("C09/unoffered-choice-not-failed", "choice %s/%s is outside the offer %v/%v and was not answered with a failed session", s.Comp, s.Enc, offerC, offerE)
				}
			}
		}
	}
	if confirmedEnc == "tls" {
		o.Class("confirmed-tls")
		// everything after the confirmation frame on the raw server->client capture must be TLS records
		clear, rest := clearPrefix([]byte(obs.Cleartext))
		if n := len(clear); n == 0 || clear[n-1]["encryption"] != "tls" {
			last := M{}
			if n > 0 {
				last = clear[n-1]
			}
			o.Fail("C09/cleartext-after-tls-confirmation", "after confirming tls the server still wrote cleartext: last cleartext envelope %s", short(last))
		}
		if !looksLikeTLS(rest) {
			o.Fail("C09/not-tls-after-confirmation", "bytes after the confirmation are not TLS records: % x", rest[:minInt(len(rest), 16)])
		}
		for _, e := range obs.Log {
			if e.Call == "auth" && e.Enc != "tls" {
				o.Fail("C09/auth-before-upgrade", "Authenticate ran under encryption %q after tls was confirmed", e.Enc)
			}
		}
	}
	if !negotiated {
		// no stage: the server keeps the options it started with
		for _, e := range obs.Log {
			if e.Call == "auth" && e.Enc != "none" {
				o.Fail("C09/options-changed-without-negotiation", "no negotiation stage, yet Authenticate ran under %q", e.Enc)
			}
		}
	}
	o.NonTrivial = negotiated
}

func minInt(a, b int) int {
	if a < b {
		return a
	}
	return b
}

func c09Cfgs(mode string) []SrvCfg {
	var out []SrvCfg
	for _, tr := range []string{"tcp", "tcp-tls"} {
		for _, comp := range [][]string{{"none"}, {"none", "gzip"}, {"gzip"}} {
			for _, enc := range [][]string{{"none"}, {"tls"}, {"none", "tls"}, {"tls", "none"}} {
				schemes := []string{"plain", "guest"}
				out = append(out, SrvCfg{Transport: tr, Comp: comp, Enc: enc, Schemes: schemes, Auth: standardAuth(schemes), Register: "echo", Mode: mode})
			}
		}
	}
	return out
}

func TestC09Script(t *testing.T) {
	rec := NewRecorder("C09", "TestC09Script")
	defer rec.Finish(t)
	sh, nsh := Shard()
	idx := 0
	for _, mode := range []string{"direct", "server"} {
		for _, cfg := range c09Cfgs(mode) {
			alpha := srvAlphabet(&cfg, false)
			enumScripts(cfg, alpha, Scale(3, 4), implNegotiates(&cfg), func(c *SrvCase) {
				idx++
				if idx%nsh != sh {
					return
				}
				o := &Outcome{}
				o.Class("transport=" + c.Cfg.Transport)
				o.Class("enc=" + strings.Join(c.Cfg.Enc, "+"))
				var obs *SrvObs
				rec.Journal(c)
				synctest.Test(t, func(t *testing.T) { obs = RunServerScript(c) })
				judgeC09Script(c, obs, o)
				rec.Eval(c, o)
			})
			// a pipelining peer: every authenticating symbol written in cleartext in the same write as the choice of tls,
			// alone and followed by each authenticating symbol sent properly under TLS
			if cfg.Transport != "tcp-tls" || !containsStr(cfg.Enc, "tls") {
				continue
			}
			var auths []CSym
			for _, x := range alpha {
				if x.Kind == "session" && x.State == "authenticating" && x.ID == "sid" && decodableSym(&x) {
					auths = append(auths, x)
				}
			}
			first := CSym{Kind: "session", State: "new", ID: "none", From: peerFrom}
			choice := CSym{Kind: "session", State: "negotiating", ID: "sid", Comp: "none", Enc: "tls", DoTLS: true, From: peerFrom}
			for _, g := range auths {
				g.Glued = true
				scripts := [][]CSym{{first, choice, g}}
				for _, a := range auths {
					scripts = append(scripts, []CSym{first, choice, g, a})
				}
				for _, sc := range scripts {
					idx++
					if idx%nsh != sh {
						continue
					}
					c := &SrvCase{Cfg: cfg, Script: sc, End: "eof"}
					o := &Outcome{}
					o.Class("transport=" + c.Cfg.Transport)
					o.Class("enc=" + strings.Join(c.Cfg.Enc, "+"))
					var obs *SrvObs
					rec.Journal(c)
					synctest.Test(t, func(t *testing.T) { obs = RunServerScript(c) })
					judgeC09Script(c, obs, o)
					rec.Eval(c, o)
				}
			}
		}
	}
	rec.Note("exhaustive", "true")
}

// judgeGluedCleartext: cleartext glued behind the choice that switched the connection to tls must not be acted upon -
// everything after the confirmation travels under the negotiated encryption, and credentials that only ever travelled in the
// clear are not accepted.
func judgeGluedCleartext(c *SrvCase, obs *SrvObs, o *Outcome, sig string) {
	m := RunServerModel(c, observedNegotiation(obs))
	for _, gi := range m.GluedDropped {
		o.Class("cleartext-glued-to-tls-choice")
		o.NonTrivial = true
		g := &c.Script[gi]
		ps, pc := presented(g)
		laterSame := false
		for j := gi + 1; j < len(c.Script); j++ {
			if qs, qc := presented(&c.Script[j]); c.Script[j].Kind == "session" && c.Script[j].State == "authenticating" && qs == ps && qc == pc {
				laterSame = true // the same credentials also travel under TLS later: a callback for them proves nothing
			}
		}
		if laterSame || !obs.PeerTLS {
			continue
		}
		for _, e := range obs.Log {
			if e.Call == "auth" && e.Scheme == ps && e.Cred == pc {
				o.Fail(sig, "the peer wrote credentials (%s,%q) in cleartext in the same write as its choice of tls and never sent them under TLS, yet Authenticate ran for them (transport encryption at that time: %q)", ps, pc, e.Enc)
			}
		}
	}
}

const credMarker = "Q1JFREVOVElBTC1NQVJLRVI" // base64-looking marker used as the client's secret

func judgeC09Pair(c *PairCase, obs *PairObs, o *Outcome) {
	offerC := intersectStr(c.Srv.Comp, capComp(c.Srv.Transport))
	offerE := intersectStr(c.Srv.Enc, capEnc(c.Srv.Transport))
	negotiated := obs.SelectorRan
	o.NonTrivial = negotiated
	if negotiated {
		o.Class("negotiation-stage")
		if !setEqS(offerE, obs.OfferedEnc) || !setEqS(offerC, obs.OfferedComp) {
			o.Fail("C09/offer-not-configured-and-supported", "client was offered %v/%v, configured∩supported is %v/%v", obs.OfferedComp, obs.OfferedEnc, offerC, offerE)
		}
	}
	// find the confirmation in the server's cleartext
	confirmed := ""
	for _, m := range obs.S2CClear {
		if m["state"] == "negotiating" && m["encryptionOptions"] == nil && m["compressionOptions"] == nil {
			confirmed, _ = m["encryption"].(string)
			comp, _ := m["compression"].(string)
			if !containsStr(offerE, confirmed) || !containsStr(offerC, comp) {
				o.Fail("C09/confirmed-unoffered-option", "confirmed %s/%s, offer %v/%v", comp, confirmed, offerC, offerE)
			}
		}
	}
	if confirmed != "" {
		o.Class("confirmed=" + confirmed)
	}
	if confirmed == "tls" {
		if !obs.S2CRestTLS || !obs.C2SRestTLS {
			o.Fail("C09/not-tls-after-confirmation", "after the tls confirmation the capture is not TLS records (s2c ok=%v, c2s ok=%v)", obs.S2CRestTLS, obs.C2SRestTLS)
		}
		if n := len(obs.S2CClear); n > 0 && obs.S2CClear[n-1]["encryption"] != "tls" {
			o.Fail("C09/cleartext-after-tls-confirmation", "server wrote cleartext after confirming tls: %s", short(obs.S2CClear[n-1]))
		}
		for _, m := range obs.C2SClear {
			if m["authentication"] != nil {
				o.Fail("C09/credentials-before-upgrade", "client credentials in cleartext although tls was confirmed: %s", short(m))
			}
		}
		if bytes.Contains(obs.C2S, []byte(credMarker)) {
			o.Fail("C09/credentials-before-upgrade", "the credential marker appears in the captured cleartext")
		}
		for _, call := range obs.CliAuthCalls {
			if call.Enc != "tls" {
				o.Fail("C09/client-not-upgraded-at-auth", "client authenticator ran while the client transport encryption was %q", call.Enc)
			}
		}
		for _, e := range obs.Log {
			if e.Call == "auth" && e.Enc != "tls" {
				o.Fail("C09/auth-before-upgrade", "server Authenticate ran under %q although tls was confirmed", e.Enc)
			}
		}
	}
	if obs.SrvState == "established" && obs.CliSesState == "established" {
		o.Class("both-established")
		if obs.CliEncFinal != obs.SrvEncFinal || obs.CliCompFinal != obs.SrvCompFinal {
			o.Fail("C09/ends-disagree", "after establishment client has %s/%s, server has %s/%s", obs.CliCompFinal, obs.CliEncFinal, obs.SrvCompFinal, obs.SrvEncFinal)
		}
		if confirmed != "" && obs.SrvEncFinal != confirmed {
			o.Fail("C09/confirmed-not-applied", "confirmed %s but the server transport reports %s", confirmed, obs.SrvEncFinal)
		}
		if confirmed == "" && !negotiated && (obs.SrvEncFinal != "none" || obs.CliEncFinal != "none") {
			o.Fail("C09/options-changed-without-negotiation", "no negotiation stage, yet encryption is %s/%s", obs.CliEncFinal, obs.SrvEncFinal)
		}
	}
}

func setEqS(a, b []string) bool {
	var bi []interface{}
	for _, x := range b {
		bi = append(bi, x)
	}
	return setEq(a, bi)
}

func TestC09Pair(t *testing.T) {
	rec := NewRecorder("C09", "TestC09Pair")
	defer rec.Finish(t)
	n := 0
	for _, cfg := range c09Cfgs("") {
		for _, cliEnc := range []string{"none", "tls", "first", "default"} {
			for _, cliComp := range []string{"none", "first"} {
				for _, cliTLS := range []bool{true, false} {
					for _, sch := range []string{"plain", "guest"} {
						cfg2 := cfg
						cfg2.Auth = map[string][]string{"plain:" + credMarker: {"member"}, "guest:": {"member"}}
						c := &PairCase{Srv: cfg2, CliEnc: cliEnc, CliComp: cliComp, CliScheme: sch, CliCred: credMarker, CliTLS: cliTLS}
						if sch == "guest" {
							c.CliCred = ""
						}
						// trace writers (another reader / writer chain under the TLS upgrade) spread over the combinations
						c.Trace = []string{"", "server", "client", "both"}[n%4]
						if cfg.Transport == "inproc" {
							c.Trace = ""
						}
						o := &Outcome{}
						o.Class("transport=" + cfg.Transport)
						o.Class("client-selector=" + cliEnc)
						var obs *PairObs
						rec.Journal(c)
						synctest.Test(t, func(t *testing.T) { obs = RunPair(c) })
						judgeC09Pair(c, obs, o)
						rec.Eval(c, o)
						n++
					}
				}
			}
		}
	}
	// in-process transport: supports only none/none
	for _, enc := range [][]string{{"none"}, {"tls"}, {"none", "tls"}} {
		for _, cliEnc := range []string{"none", "tls", "first"} {
			schemes := []string{"guest"}
			c := &PairCase{Srv: SrvCfg{Transport: "inproc", Comp: []string{"none"}, Enc: enc, Schemes: schemes, Auth: standardAuth(schemes), Register: "echo"},
				CliEnc: cliEnc, CliComp: "first", CliScheme: "guest"}
			o := &Outcome{}
			o.Class("transport=inproc")
			var obs *PairObs
			synctest.Test(t, func(t *testing.T) { obs = RunPair(c) })
			judgeC09Pair(c, obs, o)
			rec.Eval(c, o)
			n++
		}
	}
	rec.Note("pairs", fmt.Sprint(n))
	rec.Note("exhaustive", "true")
}

func TestC09(t *testing.T) {
	rec := NewRecorder("C09", "TestC09")
	rapid.Check(t, func(rt *rapid.T) {
		c := genSrvCase(rt, []string{"direct", "server"})
		c.Cfg.Comp = rapid.SampledFrom([][]string{{"none"}, {"none", "gzip"}, {"gzip"}, {"gzip", "none"}}).Draw(rt, "comp9")
		c.Cfg.Enc = rapid.SampledFrom([][]string{{"none"}, {"tls"}, {"none", "tls"}, {"tls", "none"}}).Draw(rt, "enc9")
		o := &Outcome{}
		rec.Journal(c)
		var obs *SrvObs
		rapid.SyncTest(rt, func(rt *rapid.T) { obs = RunServerScript(c) })
		judgeC09Script(c, obs, o)
		o.Class("transport=" + c.Cfg.Transport)
		rec.Check(rt, c, o)
	})
}

// judgeC09Client: the library client against a scripted server. Once the server has confirmed tls (and performs the
// handshake), the client must have switched before it sends any authentication data.
func judgeC09Client(c *CliCase, obs *CliObs, o *Outcome) {
	// a confirmation whose compression this transport cannot apply (the TCP transport has none but "none"): the two ends cannot
	// agree on what is in force, so the client must stop there - whatever else the same confirmation changes successfully
	for i, s := range c.Script {
		if i == 0 || i >= obs.SentN || s.Kind != "session" || s.State != "negotiating" || s.Comp == "" || s.Comp == "none" {
			continue
		}
		choice := false
		for _, g := range obs.Got {
			if g.Step <= i && g.Env["state"] == "negotiating" {
				choice = true
			}
		}
		if !choice {
			continue
		}
		o.NonTrivial = true
		o.Class("client-got-unappliable-compression")
		if obs.SesState == "established" {
			o.Fail("C09/client-established-with-unapplied-compression", "the server confirmed compression %q, which the transport cannot apply, yet the client reports an established session", s.Comp)
		}
		for _, g := range obs.Got {
			if g.Step > i && g.Env["authentication"] != nil {
				o.Fail("C09/client-went-on-after-unappliable-compression", "the server confirmed compression %q, which the transport cannot apply, yet the client went on and sent its credentials", s.Comp)
				break
			}
		}
		if len(obs.AuthEnc) > 0 && obs.Err == "" {
			o.Fail("C09/client-went-on-after-unappliable-compression", "the server confirmed compression %q, which the transport cannot apply, yet the client's authenticator ran", s.Comp)
		}
		return
	}
	confirmedTLS := -1
	for i, s := range c.Script {
		if i < obs.SentN && s.Kind == "session" && s.State == "negotiating" && s.Enc == "tls" && s.DoTLS && i > 0 {
			confirmedTLS = i
			break
		}
	}
	if confirmedTLS < 0 || !c.CliTLS {
		return
	}
	// was it consumed as a confirmation? only if the client had sent a negotiating choice before it
	choiceSeen := false
	for _, g := range obs.Got {
		if g.Step <= confirmedTLS && g.Env["state"] == "negotiating" {
			choiceSeen = true
		}
	}
	if !choiceSeen {
		return
	}
	o.NonTrivial = true
	o.Class("client-got-tls-confirmation")
	for _, m := range obs.C2SClear {
		if m["authentication"] != nil {
			o.Fail("C09/client-credentials-before-upgrade", "the server confirmed tls, yet the client sent credentials in cleartext: %s", short(m))
		}
	}
	for _, e := range obs.AuthEnc {
		if e != "tls" {
			o.Fail("C09/client-not-upgraded-at-auth", "client authenticator ran under %q after tls was confirmed", e)
		}
	}
	if !obs.C2SRestTLS {
		o.Fail("C09/not-tls-after-confirmation", "client bytes after the cleartext prefix are not TLS records")
	}
}

func TestC09Client(t *testing.T) {
	rec := NewRecorder("C09", "TestC09Client")
	defer rec.Finish(t)
	ses := func(state string) SSym { return SSym{Kind: "session", State: state, ID: "A", From: srvA} }
	opts := ses("negotiating")
	opts.EncOpts, opts.CompOpts = []string{"none", "tls"}, []string{"none"}
	confTLS := ses("negotiating")
	confTLS.Comp, confTLS.Enc, confTLS.DoTLS = "none", "tls", true
	confNone := ses("negotiating")
	confNone.Comp, confNone.Enc = "none", "none"
	authReq := ses("authenticating")
	authReq.Schemes = []string{"plain", "guest"}
	rt := ses("authenticating")
	rt.RoundTrip = "plain"
	est := ses("established")
	est.To = cliA
	optsGzip := ses("negotiating")
	optsGzip.EncOpts, optsGzip.CompOpts = []string{"none", "tls"}, []string{"gzip", "none"}
	confGzipTLS := ses("negotiating")
	confGzipTLS.Comp, confGzipTLS.Enc, confGzipTLS.DoTLS = "gzip", "tls", true
	confGzipNone := ses("negotiating")
	confGzipNone.Comp, confGzipNone.Enc = "gzip", "none"
	for _, encSel := range []string{"none", "tls", "first"} {
		for _, auth := range []string{"plain", "guest", "echo", "key"} {
			for _, cliTLS := range []bool{true, false} {
				for _, conf := range []SSym{confTLS, confNone, confGzipTLS, confGzipNone} {
					for _, tail := range [][]SSym{{authReq, est}, {authReq, rt, est}, {authReq}, {est}} {
						c := &CliCase{EncSel: encSel, CompSel: "none", Auth: auth, CliTLS: cliTLS, End: "eof"}
						c.Script = append([]SSym{opts, conf}, tail...)
						if conf.Comp == "gzip" {
							// the server offers gzip too and the client picks the first compression on offer
							c.CompSel = "first"
							c.Script = append([]SSym{optsGzip, conf}, tail...)
						}
						o := &Outcome{}
						o.Class("encSel=" + encSel)
						var obs *CliObs
						rec.Journal(c)
						synctest.Test(t, func(t *testing.T) { obs = RunClientScript(c) })
						judgeC09Client(c, obs, o)
						rec.Eval(c, o)
					}
				}
			}
		}
	}
	rec.Note("exhaustive", "true")
}

func TestC09Replay(t *testing.T) {
	rec := NewRecorder("C09", "TestC09Replay")
	defer rec.Finish(t)
	for _, f := range ReplayFiles("C09") {
		var c SrvCase
		if err := LoadCase(f, &c); err == nil && len(c.Script) > 0 {
			o := &Outcome{}
			var obs *SrvObs
			synctest.Test(t, func(t *testing.T) { obs = RunServerScript(&c) })
			judgeC09Script(&c, obs, o)
			rec.Eval(&c, o)
			continue
		}
		var p PairCase
		if err := LoadCase(f, &p); err == nil && p.CliEnc != "" {
			o := &Outcome{}
			var obs *PairObs
			synctest.Test(t, func(t *testing.T) { obs = RunPair(&p) })
			judgeC09Pair(&p, obs, o)
			rec.Eval(&p, o)
		}
	}
}
