//go:build go1.25

package harness

import (
	"context"
	"crypto/tls"
	"encoding/json"
	"fmt"
	"strings"
	"sync"
	"testing"
	"testing/synctest"
	"time"

	lime "github.com/takenet/lime-go"
	"pgregory.net/rapid"
)

type c12Case struct {
	Stream     []EnvSpec `json:"stream"`
	TLS        bool      `json:"tls,omitempty"`
	GapMs      int       `json:"gapMs,omitempty"`        // pause before every send whose context is "none"
	RefusedAt  []int     `json:"refusedAt,omitempty"`    // before these envelopes (index >= 1, no TLS) the peer writes a relative of the previous envelope that the decoder refuses (its id is a number): Receive answers it with an error, and the envelopes around it are unaffected
	LimitSlack int       `json:"limitSlack,omitempty"`   // > 0: the receiver's ReadLimit is the largest frame of the stream plus this many bytes (it bounds one envelope, not the connection)
	TLS12      bool      `json:"tls12,omitempty"`        // TLS capped at version 1.2
	EOFGlued   bool      `json:"eofGlued,omitempty"`     // the receiver's connection reports the end of the stream together with the last bytes it hands over (legal for a reader; several envelopes can come with it)
	SenderEnd  bool      `json:"senderCloses,omitempty"` // the sender closes its transport right after its last Send (under TLS the close notification follows the data at once)
	WritePlan  []Fault   `json:"writePlan,omitempty"`    // consumed by the sender's connection writes
	ReadPlan   []Fault   `json:"readPlan,omitempty"`     // consumed by the receiver's connection reads
	ReadChunk  int       `json:"readChunk,omitempty"`    // every read delivers at most this many bytes
	Coalesce   bool      `json:"coalesce,omitempty"`     // the receiver starts after the sender has finished
	PipeCap    int       `json:"pipeCap,omitempty"`
	RecvCtxMs  int       `json:"recvCtxMs,omitempty"` // every Receive gets a deadline this far ahead; one that ends on its context is followed by another Receive
	SendCtx    []string  `json:"sendCtx,omitempty"`   // per envelope: "" (20 s deadline) | "deadline:<ms>" | "cancel:<ms>" (cancelled after that long, no deadline)
}

type c12Obs struct {
	RefusedSent   int            `json:"refusedSent,omitempty"`
	RefusedSeen   int            `json:"refusedSeen,omitempty"`
	RefusedBroken bool           `json:"refusedBroken,omitempty"` // the harness could not write a refused relative completely: the stream is the harness's fault from there on
	SendErr       []string       `json:"sendErr"`                 // per attempted envelope: "" = Send returned nil, "-" = not attempted
	Recv          []interface{}  `json:"-"`
	RecvIDs       []string       `json:"recvIds"`
	RecvErr       string         `json:"recvErr,omitempty"`
	RecvPanic     string         `json:"recvPanic,omitempty"`
	Fired         map[string]int `json:"fired"`
	Reads         int            `json:"reads"`
	WireDiff      string         `json:"wireDiff,omitempty"`
	Frames        int            `json:"frames"`
	Disruptive    bool           `json:"disruptive"`
	CutMid        bool           `json:"cutMid"`
	RecvTimeouts  int            `json:"recvTimeouts,omitempty"` // Receive calls that ended on their own context (and were followed by another one)
}

func c12Stream(n int, pad int) []EnvSpec {
	var out []EnvSpec
	for i := 0; i < n; i++ {
		id := fmt.Sprintf("e%d", i)
		switch i % 4 {
		case 0:
			out = append(out, EnvSpec{Kind: "message", ID: id, To: &NodeSpec{Name: "bob", Domain: "x.org"}, Doc: &DocSpec{Kind: "text", Text: "hello " + strings.Repeat("p", pad)}})
		case 1:
			out = append(out, EnvSpec{Kind: "notification", ID: id, Event: "received", From: &NodeSpec{Name: "a", Domain: "b"}})
		case 2:
			out = append(out, EnvSpec{Kind: "request", ID: id, Method: "get", HasURI: true, URI: "/ping"})
		default:
			out = append(out, EnvSpec{Kind: "response", ID: id, Method: "get", Status: "success", Doc: &DocSpec{Kind: "json", JSON: map[string]interface{}{"k": strings.Repeat("v", pad), "n": float64(i)}}})
		}
	}
	return out
}

// relayStream: messages and responses that carry generic JSON documents which look like envelopes themselves (a node that
// relays other nodes' commands): a receiver that loses its place inside one of them could take the inner object for an envelope.
func relayStream(n int) []EnvSpec {
	var out []EnvSpec
	for i := 0; i < n; i++ {
		id := fmt.Sprintf("e%d", i)
		inner := map[string]interface{}{"id": fmt.Sprintf("inner-%d", i), "method": "set", "uri": "/presence", "type": "text/plain", "resource": "stolen"}
		if i%2 == 1 {
			inner = map[string]interface{}{"id": fmt.Sprintf("inner-%d", i), "type": "text/plain", "content": "stolen", "to": "x@y.z"}
		}
		if i%3 == 2 {
			out = append(out, EnvSpec{Kind: "response", ID: id, Method: "get", Status: "success", Doc: &DocSpec{Kind: "json", JSON: inner}})
		} else {
			out = append(out, EnvSpec{Kind: "message", ID: id, Doc: &DocSpec{Kind: "json", JSON: inner}})
		}
	}
	return out
}

func runC12(c *c12Case) *c12Obs {
	obs := &c12Obs{Fired: map[string]int{}}
	capacity := c.PipeCap
	if capacity == 0 {
		capacity = 1 << 20
	}
	cl, sv := Pipe(PipeOpts{Capacity: capacity, Capture: true})
	sv.EOFWithData = c.EOFGlued
	var scfg, ccfg *lime.TCPConfig
	if c.TLS {
		if c.TLS12 {
			SetTLSMax(tls.VersionTLS12)
			defer SetTLSMax(0)
		}
		s, cc := TLSConfigs()
		scfg, ccfg = &lime.TCPConfig{TLSConfig: s}, &lime.TCPConfig{TLSConfig: cc}
	}
	if c.LimitSlack > 0 {
		maxFrame := 0
		for i := range c.Stream {
			if v, err := c.Stream[i].Build(); err == nil {
				if b, err := json.Marshal(v); err == nil && len(b)+1 > maxFrame {
					maxFrame = len(b) + 1
				}
			}
		}
		if scfg == nil {
			scfg = &lime.TCPConfig{}
		}
		if len(c.RefusedAt) > 0 {
			maxFrame += len(`,"id":7`) // the refused relatives are that much longer than the envelope they derive from
		}
		scfg.ReadLimit = int64(maxFrame + c.LimitSlack)
	}
	ts := lime.VerifNewTCPTransport(cl, ccfg, false) // sender
	tr := lime.VerifNewTCPTransport(sv, scfg, true)  // receiver
	if c.TLS {
		var wg sync.WaitGroup
		wg.Add(2)
		var e1, e2 error
		go func() { defer wg.Done(); e1 = ts.SetEncryption(context.Background(), lime.SessionEncryptionTLS) }()
		go func() { defer wg.Done(); e2 = tr.SetEncryption(context.Background(), lime.SessionEncryptionTLS) }()
		wg.Wait()
		if e1 != nil || e2 != nil {
			obs.RecvErr = fmt.Sprintf("harness: tls setup failed: %v %v", e1, e2)
			return obs
		}
	}
	cl.SetWriteFaults(c.WritePlan)
	sv.SetReadFaults(c.ReadPlan)
	sv.SetReadChunk(c.ReadChunk)
	var built []interface{}
	for i := range c.Stream {
		v, err := c.Stream[i].Build()
		if err != nil {
			panic(err)
		}
		built = append(built, v)
		obs.SendErr = append(obs.SendErr, "-")
	}
	obs.Frames = len(built)
	var wg sync.WaitGroup
	senderDone := make(chan struct{})
	wg.Add(2)
	go func() {
		defer wg.Done()
		defer close(senderDone)
		for i, v := range built {
			if !ts.Connected() {
				break
			}
			// (the harness writes these bytes itself: only on connections without scripted write faults, which would hit them too)
			if !c.TLS && len(c.WritePlan) == 0 && i > 0 && containsInt(c.RefusedAt, i) && obs.SendErr[i-1] == "" {
				if pb, err := json.Marshal(built[i-1]); err == nil && len(pb) > 2 {
					refused := append(append([]byte{}, pb[:len(pb)-1]...), []byte(`,"id":7}`+"\n")...)
					// the harness's own write: without the deadline the library's last write left on the connection, and complete
					_ = cl.SetWriteDeadline(time.Now().Add(30 * time.Second)) // (a receiver that has given up reads nothing any more)
					ok := true
					for off := 0; off < len(refused) && ok; {
						n, err := cl.Write(refused[off:])
						off += n
						if err != nil {
							ok = false
						}
					}
					if ok {
						obs.RefusedSent++
					} else {
						obs.RefusedBroken = true
					}
				}
			}
			ctx, cancel := context.WithTimeout(context.Background(), 20*time.Second)
			if i < len(c.SendCtx) && c.SendCtx[i] != "" {
				cancel()
				var ms int
				switch {
				case c.SendCtx[i] == "none":
					// a context that never ends (after a pause, so that whatever an earlier send left on the connection has run out)
					time.Sleep(time.Duration(c.GapMs) * time.Millisecond)
					ctx, cancel = context.WithCancel(context.Background())
				case c.SendCtx[i] == "dead":
					// over before the call: nothing of this envelope may ever reach the peer
					ctx, cancel = context.WithCancel(context.Background())
					cancel()
				case strings.HasPrefix(c.SendCtx[i], "deadline:"):
					_, _ = fmt.Sscanf(c.SendCtx[i], "deadline:%d", &ms)
					ctx, cancel = context.WithTimeout(context.Background(), time.Duration(ms)*time.Millisecond)
				default:
					_, _ = fmt.Sscanf(c.SendCtx[i], "cancel:%d", &ms)
					ctx, cancel = context.WithCancel(context.Background())
					tm := time.AfterFunc(time.Duration(ms)*time.Millisecond, cancel)
					defer tm.Stop()
				}
			}
			err := TSend(ctx, ts, v)
			cancel()
			if err != nil {
				obs.SendErr[i] = err.Error()
			} else {
				obs.SendErr[i] = ""
			}
		}
		if c.SenderEnd && ts.Connected() {
			_ = ts.Close()
		}
	}()
	go func() {
		defer wg.Done()
		if c.Coalesce {
			<-senderDone
		}
		obs.RecvPanic = Protect(func() {
			for len(obs.Recv) < len(built) {
				d := 40*time.Second + time.Duration(c.GapMs*len(built))*time.Millisecond // (a sender that pauses is waited for)
				if c.RecvCtxMs > 0 {
					d = time.Duration(c.RecvCtxMs) * time.Millisecond
				}
				ctx, cancel := context.WithTimeout(context.Background(), d)
				e, err := TReceive(ctx, tr)
				timedOut := ctx.Err() != nil
				cancel()
				if err != nil {
					if strings.Contains(err.Error(), "cannot unmarshal number") && obs.RefusedSeen < len(c.RefusedAt) && tr.Connected() {
						// the refused relative: answered with an error, as it must be; the receiver asks again
						obs.RefusedSeen++
						continue
					}
					if c.RecvCtxMs > 0 && timedOut && obs.RecvTimeouts < 60 && tr.Connected() {
						// the receiver's own deadline: it simply asks again (whatever it is handed then must still be genuine)
						obs.RecvTimeouts++
						continue
					}
					obs.RecvErr = err.Error()
					return
				}
				obs.Recv = append(obs.Recv, e)
			}
		})
	}()
	// when the sender is done and everything it wrote has been taken, a receiver still waiting will never get more
	<-senderDone
	synctest.Wait()
	_ = cl.Close()
	wg.Wait()
	for k, v := range cl.Fired {
		obs.Fired["w:"+string(k)] += v
	}
	for k, v := range sv.Fired {
		obs.Fired["r:"+string(k)] += v
	}
	obs.Reads = sv.ReadCalls
	obs.CutMid = cl.CutMid
	obs.Disruptive = cl.Fired[FCut] > 0 || cl.Fired[FReset] > 0 || sv.Fired[FCut] > 0 || sv.Fired[FReset] > 0
	// where did the wire diverge from the concatenation of the frames reported as sent?
	if !c.TLS {
		var want []byte
		for i, v := range built {
			if obs.SendErr[i] == "" {
				b, _ := json.Marshal(v)
				want = append(append(want, b...), '\n')
			}
		}
		got := cl.Captured()
		if string(got) != string(want) {
			n := 0
			for n < len(got) && n < len(want) && got[n] == want[n] {
				n++
			}
			obs.WireDiff = fmt.Sprintf("wire diverges from the frames reported sent at byte %d: wire %q…, expected %q…", n, truncate(string(got[n:]), 40), truncate(string(want[n:]), 40))
		}
	}
	_ = ts.Close()
	_ = tr.Close()
	_ = sv.Close()
	return obs
}

func envID(e interface{}) string {
	m, err := CanonOf(e)
	if err != nil {
		return ""
	}
	id, _ := m["id"].(string)
	return id
}

func faultClass(c *c12Case, obs *c12Obs) string {
	var parts []string
	for _, k := range []string{"w:short", "w:timeout", "w:cut", "w:reset", "w:stall", "r:timeout", "r:chunk", "r:stall", "r:cut", "r:reset"} {
		if obs.Fired[k] > 0 {
			parts = append(parts, k)
		}
	}
	if c.ReadChunk > 0 {
		parts = append(parts, "r:chunk-all")
	}
	if c.Coalesce {
		parts = append(parts, "coalesce")
	}
	if len(parts) == 0 {
		return "no-fault"
	}
	return strings.Join(parts, "+")
}

func judgeC12(c *c12Case, obs *c12Obs, o *Outcome) {
	fc := faultClass(c, obs)
	for _, part := range strings.Split(fc, "+") {
		o.Class("fault:" + part)
	}
	if c.TLS {
		o.Class("tls")
		if c.TLS12 {
			o.Class("tls-1.2")
		}
	}
	if c.SenderEnd {
		o.Class("sender-closes-after-its-last-send")
	}
	if c.EOFGlued {
		o.Class("end-of-stream-reported-with-the-last-bytes")
	}
	if c.LimitSlack > 0 {
		o.Class("read-limit-just-above-the-largest-frame")
	}
	if obs.RefusedSent > 0 {
		o.Class("refused-frames-interleaved")
	}
	o.NonTrivial = fc != "no-fault" || obs.Reads > obs.Frames+1
	if strings.HasPrefix(obs.RecvErr, "harness:") {
		o.Fail("C12/harness", "%s", obs.RecvErr)
		return
	}
	if obs.RefusedBroken {
		o.Class("harness-could-not-inject")
		return
	}
	if obs.RecvPanic != "" {
		o.Fail("C12/receive-panic/"+fc, "Receive panicked: %s", obs.RecvPanic)
		return
	}
	// everything received must be one of the attempted envelopes, intact, in order, without duplicates
	pos := -1
	for ri, e := range obs.Recv {
		id := envID(e)
		obs.RecvIDs = append(obs.RecvIDs, id)
		idx := -1
		for i := range c.Stream {
			if c.Stream[i].ID == id {
				idx = i
			}
		}
		if idx < 0 {
			o.Fail("C12/fabricated/"+fc, "received envelope #%d (id %q) was never sent", ri, id)
			return
		}
		want, _ := c.Stream[idx].Build()
		if d := EqualEnvelopes(want, e); d != "" {
			o.Fail("C12/corrupted/"+fc, "received envelope %q differs from the one sent: %s", id, d)
			return
		}
		if idx <= pos {
			o.Fail("C12/duplicated-or-reordered/"+fc, "received ids %v", obs.RecvIDs)
			return
		}
		pos = idx
	}
	// the sends reported successful before the first failed Send / disruptive fault must all have arrived
	firstBad := len(c.Stream)
	for i, e := range obs.SendErr {
		if e != "" {
			firstBad = i
			break
		}
	}
	// a receiver that gave up a Receive on its own deadline has failed an operation itself: what it misses afterwards is its
	// own doing (what it does get must still be genuine, which was judged above)
	receiverGaveUp := c.RecvCtxMs > 0 && (obs.RecvTimeouts > 0 || strings.Contains(obs.RecvErr, "context deadline exceeded"))
	if !obs.Disruptive && !receiverGaveUp {
		for i := 0; i < firstBad; i++ {
			if i >= len(obs.Recv) || envID(obs.Recv[i]) != c.Stream[i].ID {
				o.Fail("C12/lost/"+fc, "Send of %q returned nil and nothing was cut, but the receiver got ids %v (receive error: %q). %s", c.Stream[i].ID, obs.RecvIDs, obs.RecvErr, obs.WireDiff)
				return
			}
		}
		// the same for what was reported sent after a Send had failed (given up on its context, say): whatever the sender is
		// told went out must come out, a failed operation does not excuse a later one that claims success
		for i := firstBad; i < len(obs.SendErr); i++ {
			if obs.SendErr[i] != "" {
				continue
			}
			found := false
			for _, id := range obs.RecvIDs {
				if id == c.Stream[i].ID {
					found = true
				}
			}
			if !found {
				o.Class("send-after-failed-send")
				o.Fail("C12/lost-after-failed-send/"+fc, "Send of %q returned nil (after Send #%d had failed with %q) and nothing was cut, but the receiver got ids %v (receive error: %q). %s",
					c.Stream[i].ID, firstBad, obs.SendErr[firstBad], obs.RecvIDs, obs.RecvErr, obs.WireDiff)
				return
			}
		}
	}
	for i := range obs.SendErr {
		if i < len(c.SendCtx) && c.SendCtx[i] == "dead" && obs.SendErr[i] != "" && obs.SendErr[i] != "-" {
			for _, id := range obs.RecvIDs {
				if id == c.Stream[i].ID {
					o.Fail("C12/delivered-although-send-refused/"+fc, "Send of %q was called with a context that was already over and returned %q, yet the receiver was handed that envelope (received ids %v)", id, obs.SendErr[i], obs.RecvIDs)
				}
			}
		}
	}
	if obs.RecvTimeouts > 0 {
		o.Class("receive-timed-out-and-asked-again")
	}
	for i := range obs.SendErr {
		if i < len(c.SendCtx) && c.SendCtx[i] != "" {
			o.Class("send-ctx=" + strings.SplitN(c.SendCtx[i], ":", 2)[0])
		}
	}
	// a cut or reset on the write path must surface as a failed Send
	if obs.CutMid || obs.Fired["w:reset"] > 0 {
		failed := false
		for _, e := range obs.SendErr {
			if e != "" && e != "-" {
				failed = true
			}
		}
		if !failed {
			o.Fail("C12/cut-not-reported/"+fc, "the connection was cut in the middle of a write (or reset) but every Send returned nil")
		}
	}
}

func smallStream() []EnvSpec {
	return []EnvSpec{
		{Kind: "message", ID: "e0", Doc: &DocSpec{Kind: "text", Text: "hi"}},
		{Kind: "notification", ID: "e1", Event: "received"},
		{Kind: "request", ID: "e2", Method: "get", HasURI: true, URI: "/x"},
	}
}

func streamBytes(st []EnvSpec) int {
	n := 0
	for i := range st {
		v, _ := st[i].Build()
		b, _ := json.Marshal(v)
		n += len(b) + 1
	}
	return n
}

func TestC12Sweep(t *testing.T) {
	rec := NewRecorder("C12", "TestC12Sweep")
	defer rec.Finish(t)
	// a library goroutine that spins freezes the bubble's clock: the watchdog turns that into a verdict
	w := StartSpinWatchAfter("C12", 25)
	defer w.Stop()
	sh, nsh := Shard()
	idx := 0
	run := func(c *c12Case) {
		idx++
		if idx%nsh != sh {
			return
		}
		o := &Outcome{}
		var obs *c12Obs
		rec.Journal(c)
		w.Case(c)
		synctest.Test(t, func(t *testing.T) { obs = runC12(c) })
		judgeC12(c, obs, o)
		rec.Eval(c, o)
	}
	st := smallStream()
	total := streamBytes(st)
	// every single and every pair of split points of the byte stream (receiver side), sender finished first
	for i := 1; i < total; i++ {
		run(&c12Case{Stream: st, Coalesce: true, ReadPlan: []Fault{{Op: FChunk, N: i}}})
		for j := i + 1; j < total; j += Scale(3, 1) {
			run(&c12Case{Stream: st, Coalesce: true, ReadPlan: []Fault{{Op: FChunk, N: i}, {Op: FChunk, N: j - i}}})
		}
		// a transient read timeout between the two parts
		run(&c12Case{Stream: st, Coalesce: true, ReadPlan: []Fault{{Op: FChunk, N: i}, {Op: FTimeout}, {Op: FTimeout}}})
	}
	// byte-at-a-time and small fixed chunks, concurrent and coalesced
	for _, ch := range []int{1, 2, 3, 7, 16, 64} {
		run(&c12Case{Stream: st, ReadChunk: ch})
		run(&c12Case{Stream: st, ReadChunk: ch, Coalesce: true})
		run(&c12Case{Stream: c12Stream(8, 300), ReadChunk: ch, PipeCap: 128})
	}
	// one envelope: every short-write length followed by a transient timeout; every cut offset
	one := st[:1]
	n := streamBytes(one)
	for k := 0; k <= n; k++ {
		run(&c12Case{Stream: one, WritePlan: []Fault{{Op: FShort, N: k}}})
		run(&c12Case{Stream: st, WritePlan: []Fault{{Op: FPass}, {Op: FShort, N: k}}})
		run(&c12Case{Stream: one, WritePlan: []Fault{{Op: FShort, N: k}, {Op: FTimeout}, {Op: FShort, N: 1}}})
		run(&c12Case{Stream: st, WritePlan: []Fault{{Op: FCut, N: k}}})
		run(&c12Case{Stream: st, WritePlan: []Fault{{Op: FPass}, {Op: FCut, N: k}}})
	}
	// a send given up half way (its context cancelled, or its deadline passed, while the receiver is not reading), then
	// further sends once the receiver reads again: pipe smaller than a frame, the receiver's first read stalls for 7 s
	big := c12Stream(4, 300)
	for _, cap := range []int{16, 64, 200} {
		for _, ctx0 := range []string{"cancel:100", "cancel:5500", "deadline:100", "deadline:3000"} {
			run(&c12Case{Stream: big, PipeCap: cap, ReadPlan: []Fault{{Op: FStall, D: 7000}}, SendCtx: []string{ctx0}})
			run(&c12Case{Stream: big, PipeCap: cap, ReadPlan: []Fault{{Op: FStall, D: 7000}}, SendCtx: []string{"", ctx0}})
			run(&c12Case{Stream: big, PipeCap: cap, TLS: true, ReadPlan: []Fault{{Op: FStall, D: 7000}}, SendCtx: []string{ctx0}})
		}
	}
	// sends with a deadline, then (after the deadline has long passed) sends with a context that never ends, and the other way round
	for _, tls := range []bool{true, false} {
		for _, gap := range []int{0, 500, 40000} {
			run(&c12Case{Stream: big, TLS: tls, GapMs: gap, SendCtx: []string{"deadline:200", "none", "deadline:200", "none"}})
			run(&c12Case{Stream: big, TLS: tls, GapMs: gap, SendCtx: []string{"none", "deadline:200", "none", ""}})
			run(&c12Case{Stream: big, TLS: tls, GapMs: gap, PipeCap: 200, SendCtx: []string{"deadline:3000", "none", "none", "none"}})
		}
	}
	// refused relatives between the envelopes: what is refused leaves nothing behind in what follows
	mixed := c12Stream(8, 10)
	for _, chunk := range []int{0, 1, 7} {
		for _, coalesce := range []bool{false, true} {
			var all []int
			for i := 1; i < len(mixed); i++ {
				all = append(all, i)
				run(&c12Case{Stream: mixed, RefusedAt: []int{i}, ReadChunk: chunk, Coalesce: coalesce})
			}
			run(&c12Case{Stream: mixed, RefusedAt: all, ReadChunk: chunk, Coalesce: coalesce})
		}
	}
	// a read limit just above the largest frame bounds one envelope, not the connection: long streams under chunking
	long := c12Stream(40, 300)
	for _, slack := range []int{1, 64} {
		for _, chunk := range []int{0, 7, 100} {
			run(&c12Case{Stream: long, LimitSlack: slack, ReadChunk: chunk})
			run(&c12Case{Stream: long, LimitSlack: slack, ReadChunk: chunk, Coalesce: true})
			run(&c12Case{Stream: long, LimitSlack: slack, ReadChunk: chunk, TLS: true})
		}
	}
	// the sender says its last word and closes at once (under TLS 1.2 the receiver's connection then hands over the last
	// record together with the end of the stream), the receiver reads afterwards or alongside
	for _, tls12 := range []bool{false, true} {
		for _, coalesce := range []bool{true, false} {
			for _, chunk := range []int{0, 1, 7, 64} {
				run(&c12Case{Stream: st, TLS: true, TLS12: tls12, SenderEnd: true, Coalesce: coalesce, ReadChunk: chunk})
				run(&c12Case{Stream: one, TLS: true, TLS12: tls12, SenderEnd: true, Coalesce: coalesce, ReadChunk: chunk})
				run(&c12Case{Stream: big, TLS: true, TLS12: tls12, SenderEnd: true, Coalesce: coalesce, ReadChunk: chunk})
				if !tls12 {
					run(&c12Case{Stream: st, SenderEnd: true, Coalesce: coalesce, ReadChunk: chunk})
					// ... a plain connection that reports the end together with its last bytes: with everything in one read,
					// every envelope comes with the end
					run(&c12Case{Stream: st, SenderEnd: true, EOFGlued: true, Coalesce: coalesce, ReadChunk: chunk})
					run(&c12Case{Stream: long, SenderEnd: true, EOFGlued: true, Coalesce: coalesce, ReadChunk: chunk * 50})
				}
			}
		}
	}
	// ... and a transient read timeout at each of the last reads of that stream: under TLS 1.2 the connection can hand over
	// the last data together with the timeout that interrupts the reading of the close notification behind it
	for _, tls12 := range []bool{true, false} {
		for _, chunk := range []int{2, 3, 4, 5, 6, 7, 9, 13, 64} {
			var probe *c12Obs
			pc := &c12Case{Stream: st, TLS: true, TLS12: tls12, SenderEnd: true, Coalesce: true, ReadChunk: chunk}
			synctest.Test(t, func(t *testing.T) { probe = runC12(pc) })
			for i := max(0, probe.Reads-70); i <= probe.Reads+1; i++ {
				plan := make([]Fault, 0, i+1)
				for k := 0; k < i; k++ {
					plan = append(plan, Fault{Op: FPass})
				}
				plan = append(plan, Fault{Op: FTimeout})
				run(&c12Case{Stream: st, TLS: true, TLS12: tls12, SenderEnd: true, Coalesce: true, ReadChunk: chunk, ReadPlan: plan})
			}
		}
	}
	// a receiver that stays away for longer than one, two and three write polls while the sender (with a context that
	// lives on) sits in the middle of an envelope: the write resumes after each poll, nothing is lost or repeated
	for _, cap := range []int{16, 64, 200, 1024} {
		for _, d := range []int{5500, 7000, 12000, 17000} {
			for _, tls := range []bool{false, true} {
				run(&c12Case{Stream: big, PipeCap: cap, TLS: tls, ReadPlan: []Fault{{Op: FStall, D: d}}})
				run(&c12Case{Stream: big, PipeCap: cap, TLS: tls, ReadPlan: []Fault{{Op: FChunk, N: 150}, {Op: FStall, D: d}, {Op: FChunk, N: 333}, {Op: FStall, D: d}}})
			}
		}
	}
	// a receiver with short deadlines of its own and a stream that stalls at every offset inside envelopes whose documents
	// look like envelopes: the Receive that was cut short is followed by more Receives
	relay := relayStream(3)
	rn := streamBytes(relay)
	for k := 1; k < rn; k++ {
		// one byte per read; the read at offset k stalls past the receiver's deadline, so the next read finds the deadline
		// passed with the envelope half consumed; afterwards the stream flows normally and the receiver asks again
		plan := make([]Fault, 0, k+1)
		for j := 0; j < k; j++ {
			plan = append(plan, Fault{Op: FPass})
		}
		plan = append(plan, Fault{Op: FStall, D: 1500})
		run(&c12Case{Stream: relay, Coalesce: true, RecvCtxMs: 700, ReadChunk: 1, ReadPlan: plan})
	}
	// sends whose context is over before the call, at every position of a small stream, alone and in pairs
	for i := 0; i < len(st); i++ {
		ctxs := make([]string, len(st))
		ctxs[i] = "dead"
		run(&c12Case{Stream: st, SendCtx: ctxs})
		run(&c12Case{Stream: st, SendCtx: ctxs, TLS: true})
		for j := i + 1; j < len(st); j++ {
			c2 := append([]string(nil), ctxs...)
			c2[j] = "dead"
			run(&c12Case{Stream: st, SendCtx: c2, Coalesce: true})
		}
	}
	run(&c12Case{Stream: st, WritePlan: []Fault{{Op: FReset}}})
	run(&c12Case{Stream: st, WritePlan: []Fault{{Op: FPass}, {Op: FPass}, {Op: FReset}}})
	run(&c12Case{Stream: st, WritePlan: []Fault{{Op: FTimeout}, {Op: FTimeout}, {Op: FTimeout}}})
	// TLS: benign fragmentation of the raw stream, stalls, cuts
	for _, ch := range []int{1, 5, 17, 100} {
		run(&c12Case{Stream: st, TLS: true, ReadChunk: ch})
		run(&c12Case{Stream: c12Stream(6, 2000), TLS: true, ReadChunk: ch * 7, PipeCap: 256})
	}
	for k := 0; k < 60; k += Scale(3, 1) {
		run(&c12Case{Stream: st, TLS: true, WritePlan: []Fault{{Op: FCut, N: k}}})
		run(&c12Case{Stream: st, TLS: true, ReadPlan: []Fault{{Op: FChunk, N: k + 1}, {Op: FTimeout}, {Op: FStall, D: 1500}}})
	}
	rec.Note("small_stream_bytes", fmt.Sprint(total))
	rec.Note("exhaustive", "true")
}

func genFaults(rt *rapid.T, label string, write bool, maxN int) []Fault {
	n := rapid.IntRange(0, 6).Draw(rt, label+"N")
	var out []Fault
	for i := 0; i < n; i++ {
		var ops []FaultOp
		if write {
			ops = []FaultOp{FPass, FPass, FShort, FShort, FTimeout, FStall, FCut, FReset}
		} else {
			ops = []FaultOp{FPass, FChunk, FChunk, FTimeout, FStall}
		}
		f := Fault{Op: rapid.SampledFrom(ops).Draw(rt, label+"op")}
		switch f.Op {
		case FShort, FCut, FChunk:
			f.N = rapid.IntRange(0, maxN).Draw(rt, label+"n")
			if f.Op == FChunk && f.N == 0 {
				f.N = 1
			}
		case FStall:
			f.D = rapid.IntRange(1, 4000).Draw(rt, label+"d")
		}
		out = append(out, f)
	}
	return out
}

func TestC12(t *testing.T) {
	rec := NewRecorder("C12", "TestC12")
	w := StartSpinWatchAfter("C12", 25)
	defer w.Stop()
	rapid.Check(t, func(rt *rapid.T) {
		n := rapid.IntRange(1, 20).Draw(rt, "frames")
		pad := rapid.SampledFrom([]int{0, 10, 200, 5000, 65000}).Draw(rt, "pad")
		c := &c12Case{Stream: c12Stream(n, pad)}
		c.TLS = rapid.IntRange(0, 3).Draw(rt, "tls") == 0
		if c.TLS {
			c.TLS12 = rapid.Bool().Draw(rt, "tls12")
		}
		c.SenderEnd = rapid.IntRange(0, 2).Draw(rt, "senderCloses") == 0
		c.EOFGlued = c.SenderEnd && rapid.Bool().Draw(rt, "eofGlued")
		if !c.TLS && n > 1 && rapid.IntRange(0, 3).Draw(rt, "refused") == 0 {
			k := rapid.IntRange(1, 3).Draw(rt, "nrefused")
			for j := 0; j < k; j++ {
				c.RefusedAt = append(c.RefusedAt, rapid.IntRange(1, n-1).Draw(rt, "refusedAt"))
			}
		}
		if rapid.IntRange(0, 3).Draw(rt, "limit") == 0 {
			c.LimitSlack = rapid.SampledFrom([]int{1, 64, 600}).Draw(rt, "limitSlack")
		}
		c.Coalesce = rapid.Bool().Draw(rt, "coalesce")
		c.PipeCap = rapid.SampledFrom([]int{0, 64, 1024, 4096}).Draw(rt, "cap")
		if c.Coalesce {
			c.PipeCap = 0 // the whole stream must fit
		}
		if rapid.Bool().Draw(rt, "chunkAll") {
			c.ReadChunk = rapid.IntRange(1, 300).Draw(rt, "chunk")
		}
		c.ReadPlan = genFaults(rt, "r", false, 400)
		if rapid.IntRange(0, 3).Draw(rt, "rctx") == 0 {
			c.RecvCtxMs = rapid.IntRange(50, 3000).Draw(rt, "recvCtx")
			if rapid.Bool().Draw(rt, "relay") {
				c.Stream = relayStream(n)
			}
		}
		if !c.Coalesce && rapid.IntRange(0, 3).Draw(rt, "abandon") == 0 {
			// some sends are given up on their context while the receiver stalls (longer read stalls make it bite)
			c.ReadPlan = append([]Fault{{Op: FStall, D: rapid.IntRange(1000, 9000).Draw(rt, "rstall")}}, c.ReadPlan...)
			for i := 0; i < n; i++ {
				switch rapid.IntRange(0, 6).Draw(rt, "sctx") {
				case 6:
					c.SendCtx = append(c.SendCtx, "dead")
				case 0:
					c.SendCtx = append(c.SendCtx, fmt.Sprintf("cancel:%d", rapid.IntRange(1, 8000).Draw(rt, "sms")))
				case 1:
					c.SendCtx = append(c.SendCtx, fmt.Sprintf("deadline:%d", rapid.IntRange(1, 8000).Draw(rt, "sms")))
				default:
					c.SendCtx = append(c.SendCtx, "")
				}
			}
		}
		if !c.TLS {
			c.WritePlan = genFaults(rt, "w", true, 400)
		} else if rapid.Bool().Draw(rt, "tlscut") {
			c.WritePlan = []Fault{{Op: FPass}, {Op: FCut, N: rapid.IntRange(0, 300).Draw(rt, "cutAt")}}
		}
		for _, f := range c.WritePlan {
			if f.Op == FCut || f.Op == FReset {
				// the closing itself writes under TLS; a cut that hits it is no cut of a Send
				c.SenderEnd = false
			}
		}
		o := &Outcome{}
		var obs *c12Obs
		rec.Journal(c)
		w.Case(c)
		rapid.SyncTest(rt, func(rt *rapid.T) { obs = runC12(c) })
		judgeC12(c, obs, o)
		rec.Check(rt, c, o)
	})
}

func TestC12Replay(t *testing.T) {
	rec := NewRecorder("C12", "TestC12Replay")
	defer rec.Finish(t)
	for _, f := range ReplayFiles("C12") {
		var c c12Case
		if err := LoadCase(f, &c); err != nil || len(c.Stream) == 0 {
			continue
		}
		o := &Outcome{}
		var obs *c12Obs
		synctest.Test(t, func(t *testing.T) { obs = runC12(&c) })
		judgeC12(&c, obs, o)
		rec.Eval(&c, o)
	}
}

func containsInt(l []int, x int) bool {
	for _, v := range l {
		if v == x {
			return true
		}
	}
	return false
}
