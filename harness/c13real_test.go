//go:build go1.25

package harness

import (
	"context"
	"fmt"
	"net"
	"os"
	"strings"
	"testing"
	"time"

	lime "github.com/takenet/lime-go"
	"pgregory.net/rapid"
)

// Real sockets: a Server with one real listener (TCP, ws, wss) or the in-process listener, in real time.
func runC13Real(c *c13Case) *c13Obs {
	srv := newC13Server(c.ChanBuf, false)
	env := &c13Env{encSel: lime.NoneEncryptionSelector}
	env.wait = func() { time.Sleep(30 * time.Millisecond) }
	env.sleep = func(d time.Duration) { time.Sleep(d) }
	env.settle = func(bound time.Duration, cond func() bool) {
		deadline := time.Now().Add(bound + 1500*time.Millisecond)
		for time.Now().Before(deadline) {
			if cond() {
				return
			}
			time.Sleep(10 * time.Millisecond)
		}
	}
	env.serverTrans = func() []lime.Transport { return nil }
	env.connsOpen = func() int { return 0 }
	var bl lime.BoundListener
	switch c.Transport {
	case "inproc":
		inprocDialMu.Lock()
		c17Seq++
		addr := lime.InProcessAddr(fmt.Sprintf("c13-real-%d", c17Seq))
		inprocDialMu.Unlock()
		bl = lime.NewBoundListener(lime.NewInProcessTransportListener(addr), addr)
		env.dial = func(context.Context) (lime.Transport, error) {
			inprocDialMu.Lock()
			defer inprocDialMu.Unlock()
			return lime.DialInProcess(addr, c.InprocBuf)
		}
	default:
		port, err := FreePort()
		if err != nil {
			return &c13Obs{Note: "skip: " + err.Error()}
		}
		addr := &net.TCPAddr{IP: net.IPv4(127, 0, 0, 1), Port: port}
		scfg, _ := TLSConfigs()
		switch c.Transport {
		case "tcp":
			bl = lime.NewBoundListener(lime.NewTCPTransportListener(&lime.TCPConfig{TLSConfig: scfg, ConnBuffer: 8}), addr)
		case "ws":
			bl = lime.NewBoundListener(lime.NewWebsocketTransportListener(&lime.WebsocketConfig{ConnBuffer: 8}), addr)
		case "wss":
			bl = lime.NewBoundListener(lime.NewWebsocketTransportListener(&lime.WebsocketConfig{TLSConfig: scfg, ConnBuffer: 8}), addr)
		}
		kind := c.Transport
		env.dial = func(ctx context.Context) (lime.Transport, error) {
			var t lime.Transport
			var err error
			for i := 0; i < 40; i++ {
				if t, err = DialReal(ctx, kind, addr); err == nil {
					return t, nil
				}
				time.Sleep(15 * time.Millisecond)
			}
			return nil, err
		}
	}
	server := lime.NewServer(srv.cfg, srv.mux, bl)
	done := make(chan error, 1)
	inprocDialMu.Lock()
	go func() { done <- server.ListenAndServe() }()
	time.Sleep(20 * time.Millisecond)
	inprocDialMu.Unlock()
	resets := LibResets()
	obs := runC13With(c, srv, server, env)
	obs.ResetLogged = LibResets() != resets
	inprocDialMu.Lock()
	_ = server.Close()
	inprocDialMu.Unlock()
	select {
	case <-done:
	case <-time.After(10 * time.Second):
	}
	return obs
}

func TestC13Real(t *testing.T) {
	rec := NewRecorder("C13", "TestC13Real")
	rapid.Check(t, func(rt *rapid.T) {
		trs := []string{"tcp", "tcp", "ws", "wss", "inproc"}
		if v := os.Getenv("VERIF_C13_TRANSPORTS"); v != "" {
			trs = strings.Split(v, ",")
		}
		c := genC13(rt, trs)
		c.Real = true
		o := &Outcome{}
		rec.Journal(c)
		obs := runC13Real(c)
		judgeC13(c, obs, o)
		rec.Check(rt, c, o)
	})
}
