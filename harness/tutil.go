package harness

import (
	"context"
	"fmt"
	"io"
	"log"

	lime "github.com/takenet/lime-go"
)

func init() {
	// the library logs through the global logger
	log.SetOutput(io.Discard)
}

// TSend sends an envelope value of any kind on a transport.
func TSend(ctx context.Context, t lime.Transport, e interface{}) error {
	switch v := e.(type) {
	case *lime.Message:
		return t.Send(ctx, v)
	case *lime.Notification:
		return t.Send(ctx, v)
	case *lime.RequestCommand:
		return t.Send(ctx, v)
	case *lime.ResponseCommand:
		return t.Send(ctx, v)
	case *lime.Session:
		return t.Send(ctx, v)
	}
	return fmt.Errorf("TSend: not an envelope: %T", e)
}

// TReceive receives the next envelope as an untyped value (nil on error).
func TReceive(ctx context.Context, t lime.Transport) (interface{}, error) {
	env, err := t.Receive(ctx)
	if err != nil {
		return nil, err
	}
	return env, nil
}

// Protect runs f and converts a panic into an error string ("" if none).
func Protect(f func()) (panicked string) {
	defer func() {
		if r := recover(); r != nil {
			panicked = fmt.Sprint(r)
		}
	}()
	f()
	return ""
}
