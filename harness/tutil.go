package harness

import (
	"bytes"
	"context"
	"fmt"
	"io"
	"log"
	"os"
	"sync/atomic"

	lime "github.com/takenet/lime-go"
)

// logTap receives what the library writes to the global logger. It is not an oracle: it only lets a check say, next to a
// violation it has established otherwise, that the library reported a TCP reset while the case ran (used to key a known finding
// narrowly). With VERIF_LIBLOG set the lines are also passed on to stderr.
type logTapWriter struct{}

var libResets int64

func (logTapWriter) Write(p []byte) (int, error) {
	if bytes.Contains(p, []byte("connection reset by peer")) {
		atomic.AddInt64(&libResets, 1)
	}
	if os.Getenv("VERIF_LIBLOG") != "" {
		_, _ = os.Stderr.Write(p)
	}
	return len(p), nil
}

// LibResets returns how many log lines of the library have mentioned a connection reset so far.
func LibResets() int64 { return atomic.LoadInt64(&libResets) }

func init() {
	// the library logs through the global logger
	log.SetOutput(logTapWriter{})
	log.SetFlags(log.Lmicroseconds)
}

// TSend sends an envelope value of any kind on a transport.
func TSend(ctx context.Context, t lime.Transport, e interface{}) error {
	switch v := e.(type) {
	case *lime.Message:
		return t.Send(ctx, v)
	case *lime.Notification:
		return t.Send(ctx, v)
	case *lime.RequestCommand:
		return t.Send(ctx, v)
	case *lime.ResponseCommand:
		return t.Send(ctx, v)
	case *lime.Session:
		return t.Send(ctx, v)
	}
	return fmt.Errorf("TSend: not an envelope: %T", e)
}

// TReceive receives the next envelope as an untyped value (nil on error).
func TReceive(ctx context.Context, t lime.Transport) (interface{}, error) {
	env, err := t.Receive(ctx)
	if err != nil {
		return nil, err
	}
	return env, nil
}

// Protect runs f and converts a panic into an error string ("" if none).
func Protect(f func()) (panicked string) {
	defer func() {
		if r := recover(); r != nil {
			panicked = fmt.Sprint(r)
		}
	}()
	f()
	return ""
}

// CountingTrace is a lime.TraceWriter that swallows what is traced and counts the bytes of each direction.
type CountingTrace struct {
	s, r     io.Writer
	Sent     *int64
	Received *int64
}

type countWriter struct{ n *int64 }

func (w countWriter) Write(p []byte) (int, error) {
	atomic.AddInt64(w.n, int64(len(p)))
	return len(p), nil
}

func NewCountingTrace() *CountingTrace {
	t := &CountingTrace{Sent: new(int64), Received: new(int64)}
	t.s, t.r = countWriter{t.Sent}, countWriter{t.Received}
	return t
}

func (t *CountingTrace) SendWriter() *io.Writer    { return &t.s }
func (t *CountingTrace) ReceiveWriter() *io.Writer { return &t.r }
