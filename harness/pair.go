//go:build go1.25

package harness

// Both roles implemented by the library (ClientChannel against ServerChannel) over an in-memory connection with byte
// capture; used by C09, C10 and others. Runs inside a synctest bubble.

import (
	"bytes"
	"context"
	"encoding/json"
	"sync"
	"testing/synctest"
	"time"

	lime "github.com/takenet/lime-go"
)

type PairCase struct {
	Srv       SrvCfg `json:"srv"`
	CliEnc    string `json:"cliEnc"`  // none | tls | first | default (tls when offered, else first)
	CliComp   string `json:"cliComp"` // none | first
	CliScheme string `json:"cliScheme"`
	CliCred   string `json:"cliCred"`
	CliTLS    bool   `json:"cliTls"`          // the client transport has a TLS configuration
	Trace     string `json:"trace,omitempty"` // which TCP ends have a trace writer configured: "" | server | client | both
}

type CliAuthCall struct {
	Enc     string   `json:"enc"` // client transport encryption when the authenticator ran
	Comp    string   `json:"comp"`
	Schemes []string `json:"schemes"`
}

type PairObs struct {
	Log          []CBEntry     `json:"log"`
	CliAuthCalls []CliAuthCall `json:"cliAuthCalls"`
	CliErr       string        `json:"cliErr,omitempty"`
	SrvErr       string        `json:"srvErr,omitempty"`
	CliPanic     string        `json:"cliPanic,omitempty"`
	CliState     string        `json:"cliState"`
	SrvState     string        `json:"srvState"`
	CliSesState  string        `json:"cliSesState"`
	CliEncFinal  string        `json:"cliEncFinal"`
	SrvEncFinal  string        `json:"srvEncFinal"`
	CliCompFinal string        `json:"cliCompFinal"`
	SrvCompFinal string        `json:"srvCompFinal"`
	OfferedEnc   []string      `json:"offeredEnc,omitempty"` // options seen by the client's selector
	OfferedComp  []string      `json:"offeredComp,omitempty"`
	SelectorRan  bool          `json:"selectorRan"`
	S2C          []byte        `json:"-"`
	C2S          []byte        `json:"-"`
	S2CClear     []M           `json:"s2cClear"` // envelopes the server wrote in cleartext
	C2SClear     []M           `json:"c2sClear"`
	S2CRest      int           `json:"s2cRest"` // bytes after the cleartext prefix (TLS records)
	C2SRest      int           `json:"c2sRest"`
	S2CRestTLS   bool          `json:"s2cRestTls"` // the rest parses as TLS records
	C2SRestTLS   bool          `json:"c2sRestTls"`
}

// clearPrefix splits a captured byte stream into the JSON envelopes at its start and the remaining bytes.
func clearPrefix(b []byte) ([]M, []byte) {
	var out []M
	for {
		b = bytes.TrimLeft(b, " \r\n\t")
		if len(b) == 0 || b[0] != '{' {
			return out, b
		}
		dec := json.NewDecoder(bytes.NewReader(b))
		var m map[string]interface{}
		if err := dec.Decode(&m); err != nil {
			return out, b
		}
		out = append(out, m)
		b = b[dec.InputOffset():]
	}
}

// looksLikeTLS checks that b is a sequence of TLS records (content type 20-23, version 3.x, length) possibly ending in a partial one.
func looksLikeTLS(b []byte) bool {
	for len(b) > 0 {
		if len(b) < 5 {
			return b[0] >= 0x14 && b[0] <= 0x17
		}
		if b[0] < 0x14 || b[0] > 0x17 || b[1] != 3 {
			return false
		}
		n := int(b[3])<<8 | int(b[4])
		if n > 16384+2048 {
			return false
		}
		if len(b) < 5+n {
			return true
		}
		b = b[5+n:]
	}
	return true
}

func RunPair(c *PairCase) *PairObs {
	obs := &PairObs{}
	log := &cbLog{}
	_, ccfg := TLSConfigs()
	scfg := ServerTLSVia(c.Srv.TLSVia)
	var st, ct lime.Transport
	auth, reg := log.callbacks(&c.Srv, func() lime.Transport { return st })
	var srvTCP, cliTCP *lime.TCPConfig
	if c.Srv.Transport == "tcp-tls" {
		srvTCP = &lime.TCPConfig{TLSConfig: scfg}
	}
	if c.CliTLS {
		cliTCP = &lime.TCPConfig{TLSConfig: ccfg}
	}
	if c.Trace == "server" || c.Trace == "both" {
		if srvTCP == nil {
			srvTCP = &lime.TCPConfig{}
		}
		srvTCP.TraceWriter = NewCountingTrace()
	}
	if c.Trace == "client" || c.Trace == "both" {
		if cliTCP == nil {
			cliTCP = &lime.TCPConfig{}
		}
		cliTCP.TraceWriter = NewCountingTrace()
	}
	var cl, sv *FConn
	if c.Srv.Transport == "inproc" {
		ct, st = lime.VerifNewInProcessTransportPair("pair", 4)
	} else {
		cl, sv = Pipe(PipeOpts{Capture: true})
		st = lime.VerifNewTCPTransport(sv, srvTCP, true)
		ct = lime.VerifNewTCPTransport(cl, cliTCP, false)
	}
	sc := lime.NewServerChannel(st, 1, srvNode, fixedSid)
	cc := lime.NewClientChannel(ct, 1)
	ctx, cancel := context.WithTimeout(context.Background(), handshakeTimeout)
	defer cancel()
	var wg sync.WaitGroup
	wg.Add(2)
	go func() {
		defer wg.Done()
		if err := sc.EstablishSession(ctx, toComp(c.Srv.Comp), toEnc(c.Srv.Enc), toSchemes(c.Srv.Schemes), auth, reg); err != nil {
			obs.SrvErr = err.Error()
		}
	}()
	var mu sync.Mutex
	compSel := func(opts []lime.SessionCompression) lime.SessionCompression {
		mu.Lock()
		defer mu.Unlock()
		obs.SelectorRan = true
		for _, o := range opts {
			obs.OfferedComp = append(obs.OfferedComp, string(o))
		}
		if c.CliComp == "first" && len(opts) > 0 {
			return opts[0]
		}
		return lime.SessionCompressionNone
	}
	encSel := func(opts []lime.SessionEncryption) lime.SessionEncryption {
		mu.Lock()
		defer mu.Unlock()
		for _, o := range opts {
			obs.OfferedEnc = append(obs.OfferedEnc, string(o))
		}
		switch c.CliEnc {
		case "tls":
			return lime.SessionEncryptionTLS
		case "first":
			if len(opts) > 0 {
				return opts[0]
			}
		case "default":
			for _, o := range opts {
				if o == lime.SessionEncryptionTLS {
					return o
				}
			}
			if len(opts) > 0 {
				return opts[0]
			}
		}
		return lime.SessionEncryptionNone
	}
	authr := func(schemes []lime.AuthenticationScheme, _ lime.Authentication) lime.Authentication {
		call := CliAuthCall{Enc: string(ct.Encryption()), Comp: string(ct.Compression())}
		for _, s := range schemes {
			call.Schemes = append(call.Schemes, string(s))
		}
		mu.Lock()
		obs.CliAuthCalls = append(obs.CliAuthCalls, call)
		mu.Unlock()
		return (&AuthSpec{Scheme: c.CliScheme, A: c.CliCred, B: "issuer.example"}).Auth()
	}
	go func() {
		defer wg.Done()
		obs.CliPanic = Protect(func() {
			ses, err := cc.EstablishSession(ctx, compSel, encSel, peerFrom.Node().Identity, authr, peerFrom.Instance)
			if err != nil {
				obs.CliErr = err.Error()
			} else if ses != nil {
				obs.CliSesState = string(ses.State)
			}
		})
	}()
	wg.Wait()
	synctest.Wait()
	obs.CliState, obs.SrvState = string(cc.State()), string(sc.State())
	obs.CliEncFinal, obs.SrvEncFinal = string(ct.Encryption()), string(st.Encryption())
	obs.CliCompFinal, obs.SrvCompFinal = string(ct.Compression()), string(st.Compression())
	if cl != nil {
		obs.C2S, obs.S2C = cl.Captured(), sv.Captured()
		var rest []byte
		obs.S2CClear, rest = clearPrefix(obs.S2C)
		obs.S2CRest, obs.S2CRestTLS = len(rest), looksLikeTLS(rest)
		obs.C2SClear, rest = clearPrefix(obs.C2S)
		obs.C2SRest, obs.C2SRestTLS = len(rest), looksLikeTLS(rest)
	}
	log.mu.Lock()
	obs.Log = append([]CBEntry(nil), log.Log...)
	log.mu.Unlock()
	// teardown
	cancel()
	_ = cc.Close()
	_ = sc.Close()
	if cl != nil {
		_ = cl.Close()
		_ = sv.Close()
	}
	time.Sleep(6 * time.Second)
	synctest.Wait()
	return obs
}
