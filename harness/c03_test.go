//go:build go1.25

package harness

import (
	"testing"
	"testing/synctest"

	"pgregory.net/rapid"
)

func c03Judge(c *SrvCase, obs *SrvObs, o *Outcome) {
	m := RunServerModel(c, observedNegotiation(obs))
	classifySrvCase(c, m, o)
	if obs.PanicMsg != "" {
		o.Fail("C03/panic", "EstablishSession panicked: %s", obs.PanicMsg)
	}
	judgeC03(c, obs, o)
	o.NonTrivial = m.ReachedAuth
}

func TestC03Enum(t *testing.T) {
	rec := NewRecorder("C03", "TestC03Enum")
	defer rec.Finish(t)
	runSrvEnum(t, rec, "direct", Scale(5, 6), c03Judge)
}

func TestC03EnumServer(t *testing.T) {
	rec := NewRecorder("C03", "TestC03EnumServer")
	defer rec.Finish(t)
	// also with a peer that vanishes right after its last envelope: what the server does with a connection that is gone
	runSrvEnumEnds(t, rec, "server", Scale(4, 5), []string{"eof", "close-now"}, c03Judge)
}

func TestC03(t *testing.T) {
	rec := NewRecorder("C03", "TestC03")
	rapid.Check(t, func(rt *rapid.T) {
		c := genSrvCase(rt, []string{"direct", "server"})
		c.End = rapid.SampledFrom([]string{"eof", "eof", "silence", "close-now", "close-now", "cut"}).Draw(rt, "end03")
		o := &Outcome{}
		rec.Journal(c)
		var obs *SrvObs
		rapid.SyncTest(rt, func(rt *rapid.T) { obs = RunServerScript(c) })
		c03Judge(c, obs, o)
		rec.Check(rt, c, o)
	})
}

func TestC03Replay(t *testing.T) {
	rec := NewRecorder("C03", "TestC03Replay")
	defer rec.Finish(t)
	for _, f := range ReplayFiles("C03") {
		var c SrvCase
		if err := LoadCase(f, &c); err != nil || len(c.Script) == 0 {
			continue
		}
		o := &Outcome{}
		var obs *SrvObs
		synctest.Test(t, func(t *testing.T) { obs = RunServerScript(&c) })
		c03Judge(&c, obs, o)
		rec.Eval(&c, o)
	}
}
