//go:build go1.25

package harness

// Shared executor for client scripts against the server side of the handshake (C03, C07, C10, C14, C06 injections),
// and the executable reference model of the server handshake (DESIGN.md appendix A). Runs inside a synctest bubble.

import (
	"context"
	"encoding/json"
	"errors"
	"fmt"
	"sort"
	"strings"
	"sync"
	"sync/atomic"
	"testing/synctest"
	"time"

	lime "github.com/takenet/lime-go"
)

type SrvCfg struct {
	CutInAuth bool                `json:"cutInAuth,omitempty"` // the peer's connection is reset while the authentication callback runs (the envelope with the credentials has been read; the reply cannot be written)
	CtxErr    bool                `json:"ctxErr,omitempty"`    // callback errors wrap a context error (a backend call of the application that ran out of time), although the server's own context is alive
	Transport string              `json:"transport"`           // tcp (no TLS config) | tcp-tls (TLS config present) | inproc
	Comp      []string            `json:"comp"`
	Enc       []string            `json:"enc"`
	Schemes   []string            `json:"schemes"`
	Auth      map[string][]string `json:"auth"`             // "scheme:cred" -> outcome per round (last repeats)
	Register  string              `json:"register"`         // echo | assign | error
	Mode      string              `json:"mode"`             // direct (ServerChannel.EstablishSession) | server (lime.Server)
	TLSVia    string              `json:"tlsVia,omitempty"` // tcp-tls: how the TLS configuration supplies its certificate: "" static | getcertificate | getconfig
}

type CSym struct {
	Kind      string    `json:"kind"` // session message request response notification garbage malformed
	State     string    `json:"state,omitempty"`
	ID        string    `json:"id,omitempty"` // none | sid | other
	Enc       string    `json:"enc,omitempty"`
	Comp      string    `json:"comp,omitempty"`
	Scheme    string    `json:"scheme,omitempty"`
	Cred      string    `json:"cred,omitempty"` // credential token; "-" = no authentication member
	WrongType bool      `json:"wrongType,omitempty"`
	From      *NodeSpec `json:"from,omitempty"`
	To        *NodeSpec `json:"to,omitempty"`        // a destination on a session envelope (anything but the server's full node is just what the peer wrote)
	PP        *NodeSpec `json:"pp,omitempty"`        // a delegation node on a session envelope: it has no say in who is being authenticated
	DoTLS     bool      `json:"doTls,omitempty"`     // perform the TLS handshake if the server confirms tls
	ForceAuth bool      `json:"forceAuth,omitempty"` // carry scheme and authentication data although the state is not authenticating
	Glued     bool      `json:"glued,omitempty"`     // written in the same write as the previous symbol (a peer that pipelines cleartext behind its choice)
}

type SrvCase struct {
	Cfg    SrvCfg `json:"cfg"`
	Script []CSym `json:"script"`
	End    string `json:"end"` // eof (half-close) | wait | silence | close-now (vanish before the answer) | cut (reset)
	// WarmUp (C10): before the case, another server channel of the same process negotiates with an offer that contains none
	WarmUp bool `json:"warmUp,omitempty"`
}

type CBEntry struct {
	Call      string `json:"call"` // auth | register | established | finished
	Identity  string `json:"identity,omitempty"`
	Scheme    string `json:"scheme,omitempty"`
	Cred      string `json:"cred,omitempty"`
	Enc       string `json:"enc,omitempty"` // server transport encryption when the callback ran
	Result    string `json:"result,omitempty"`
	Candidate string `json:"candidate,omitempty"`
	Node      string `json:"node,omitempty"`
	State     string `json:"state,omitempty"` // channel state at callback time (established/finished callbacks)
	SessionID string `json:"sessionId,omitempty"`
}

type SrvObs struct {
	Got          []GotEnv  `json:"got"`
	Sent         []M       `json:"sent"`
	Log          []CBEntry `json:"log"`
	States       []string  `json:"states"`
	EstReturned  bool      `json:"estReturned"`
	EstErr       string    `json:"estErr,omitempty"`
	FinalState   string    `json:"finalState"`
	Established  bool      `json:"established"`
	RemoteNode   string    `json:"remoteNode,omitempty"`
	ServerClosed bool      `json:"serverClosed"` // the server end of the connection was closed by the server
	Sid          string    `json:"sid"`
	PeerTLS      bool      `json:"peerTls"`
	PeerErr      string    `json:"peerErr,omitempty"`
	PeerSawEOF   bool      `json:"peerSawEof"`
	Cleartext    string    `json:"-"` // server->client bytes captured on the raw pipe
	PanicMsg     string    `json:"panic,omitempty"`
	DataHandled  int       `json:"dataHandled"` // non-session envelopes that reached server handlers / streams
	Serving      int       `json:"serving"`     // goroutines still serving the connection after the release bound
	ServingStack string    `json:"servingStack,omitempty"`
}

var srvNode = lime.Node{Identity: lime.Identity{Name: "postmaster", Domain: "srv.example"}, Instance: "s1"}

const fixedSid = "sid-4f1c"
const handshakeTimeout = 30 * time.Second

func toComp(l []string) []lime.SessionCompression {
	out := make([]lime.SessionCompression, 0, len(l))
	for _, s := range l {
		out = append(out, lime.SessionCompression(s))
	}
	return out
}
func toEnc(l []string) []lime.SessionEncryption {
	out := make([]lime.SessionEncryption, 0, len(l))
	for _, s := range l {
		out = append(out, lime.SessionEncryption(s))
	}
	return out
}
func toSchemes(l []string) []lime.AuthenticationScheme {
	out := make([]lime.AuthenticationScheme, 0, len(l))
	for _, s := range l {
		out = append(out, lime.AuthenticationScheme(s))
	}
	return out
}

func credOf(a lime.Authentication) (scheme, cred string) {
	switch v := a.(type) {
	case *lime.GuestAuthentication:
		return "guest", ""
	case *lime.TransportAuthentication:
		return "transport", ""
	case *lime.PlainAuthentication:
		return "plain", v.Password
	case *lime.KeyAuthentication:
		return "key", v.Key
	case *lime.ExternalAuthentication:
		return "external", v.Token
	case nil:
		return "", ""
	}
	return fmt.Sprintf("%T", a), ""
}

var assignedNode = lime.Node{Identity: lime.Identity{Name: "assigned", Domain: "reg.example"}, Instance: "r7"}

// authOutcome looks an outcome up in the table: key "scheme:cred", per-round list, last repeats; default unknown.
func authOutcome(cfg *SrvCfg, scheme, cred string, round int) string {
	if !containsStr(cfg.Schemes, scheme) {
		// The application's authenticator trusts the server to hand it offered schemes only: whatever else reaches it is
		// accepted, so that a missing check in the server shows as an established session (the model never asks for this).
		return "member"
	}
	l := cfg.Auth[scheme+":"+cred]
	if len(l) == 0 {
		return "unknown"
	}
	if round >= len(l) {
		round = len(l) - 1
	}
	return l[round]
}

type cbLog struct {
	mu     sync.Mutex
	Log    []CBEntry
	rounds map[string]int
	onAuth func() // runs inside the authentication callback (a fault injected at that moment)
}

func (l *cbLog) add(e CBEntry) {
	l.mu.Lock()
	l.Log = append(l.Log, e)
	l.mu.Unlock()
}

// callbacks builds the authenticate / register callbacks for a configuration; they log every invocation.
func (l *cbLog) callbacks(cfg *SrvCfg, transportOf func() lime.Transport) (
	func(context.Context, lime.Identity, lime.Authentication) (*lime.AuthenticationResult, error),
	func(context.Context, lime.Node, *lime.ServerChannel) (lime.Node, error)) {
	l.rounds = map[string]int{}
	auth := func(_ context.Context, id lime.Identity, a lime.Authentication) (*lime.AuthenticationResult, error) {
		scheme, cred := credOf(a)
		l.mu.Lock()
		round := l.rounds["r"]
		l.rounds["r"]++
		l.mu.Unlock()
		out := authOutcome(cfg, scheme, cred, round)
		if l.onAuth != nil {
			l.onAuth()
		}
		enc := ""
		if t := transportOf(); t != nil {
			enc = string(t.Encryption())
		} else if cfg.Transport == "inproc" {
			enc = "none" // the server-side end of an in-process pair under a Server is not visible to the harness; it has no encryption
		}
		l.add(CBEntry{Call: "auth", Identity: IdentityText(id), Scheme: scheme, Cred: cred, Enc: enc, Result: out})
		switch out {
		case "member":
			return lime.MemberAuthenticationResult(), nil
		case "authority":
			return lime.AuthorityAuthenticationResult(), nil
		case "root":
			return lime.RootAuthorityAuthenticationResult(), nil
		case "empty":
			return &lime.AuthenticationResult{}, nil
		case "roundtrip":
			return &lime.AuthenticationResult{Role: lime.DomainRoleUnknown, RoundTrip: &lime.PlainAuthentication{Password: fmt.Sprintf("challenge-%d", round)}}, nil
		case "error":
			if cfg.CtxErr {
				return nil, fmt.Errorf("authentication backend: %w", context.DeadlineExceeded)
			}
			return nil, errors.New("authentication backend unavailable")
		}
		return lime.UnknownAuthenticationResult(), nil
	}
	reg := func(_ context.Context, cand lime.Node, _ *lime.ServerChannel) (lime.Node, error) {
		switch cfg.Register {
		case "assign":
			l.add(CBEntry{Call: "register", Candidate: NodeText(cand), Node: NodeText(assignedNode)})
			return assignedNode, nil
		case "error":
			l.add(CBEntry{Call: "register", Candidate: NodeText(cand), Result: "error"})
			if cfg.CtxErr {
				return lime.Node{}, fmt.Errorf("registry lookup: %w", context.Canceled)
			}
			return lime.Node{}, errors.New("registration refused")
		}
		l.add(CBEntry{Call: "register", Candidate: NodeText(cand), Node: NodeText(cand)})
		return cand, nil
	}
	return auth, reg
}

func authMember(scheme, cred string, wrongType bool) interface{} {
	if wrongType {
		return M{"unrelated": cred}
	}
	switch scheme {
	case "plain":
		return M{"password": cred}
	case "key":
		return M{"key": cred}
	case "external":
		return M{"token": cred, "issuer": "issuer.example"}
	}
	return M{}
}

// symToEnv renders a client symbol as a generic envelope (nil for garbage).
func symToEnv(s *CSym, sid string) M {
	m := M{}
	idv := ""
	switch s.ID {
	case "sid":
		idv = sid
		if idv == "" {
			idv = "not-yet-announced"
		}
	case "other":
		idv = "bogus-session-id"
	}
	if idv != "" {
		m["id"] = idv
	}
	if s.From != nil {
		m["from"] = NodeText(s.From.Node())
	}
	if s.To != nil {
		m["to"] = NodeText(s.To.Node())
	}
	if s.PP != nil {
		m["pp"] = NodeText(s.PP.Node())
	}
	switch s.Kind {
	case "session":
		m["state"] = s.State
		if s.Comp != "" {
			m["compression"] = s.Comp
		}
		if s.Enc != "" {
			m["encryption"] = s.Enc
		}
		if s.Scheme != "" {
			m["scheme"] = s.Scheme
		}
		if (s.State == "authenticating" || s.ForceAuth) && s.Cred != "-" && s.Scheme != "" {
			m["authentication"] = authMember(s.Scheme, s.Cred, s.WrongType)
		}
	case "message":
		m["type"] = "text/plain"
		m["content"] = "premature"
	case "request":
		m["method"] = "get"
		m["uri"] = "/ping"
		if idv == "" {
			m["id"] = "cmd-1"
		}
	case "response":
		m["method"] = "get"
		m["status"] = "success"
	case "notification":
		m["event"] = "received"
	case "malformed":
		// a session envelope the codec must reject: authentication without scheme
		m["state"] = "authenticating"
		m["authentication"] = M{"password": "x"}
	default:
		return nil
	}
	return m
}

var srvScriptSeq int64

// inprocScriptPeer is the scripted peer on an in-process transport: generic envelopes are turned into library values with the
// library's typed decoders (what cannot be decoded cannot be sent on this transport at all).
type inprocScriptPeer struct {
	InprocPeer
	step   int
	closed bool
}

func (p *inprocScriptPeer) SendGeneric(m M) error {
	if m == nil {
		return errors.New("inproc: not expressible")
	}
	b, err := json.Marshal(m)
	if err != nil {
		return fmt.Errorf("inproc: %w", err)
	}
	var v interface{}
	switch {
	case m["state"] != nil:
		v = &lime.Session{}
	case m["method"] != nil && m["status"] != nil:
		v = &lime.ResponseCommand{}
	case m["method"] != nil:
		v = &lime.RequestCommand{}
	case m["event"] != nil:
		v = &lime.Notification{}
	default:
		v = &lime.Message{}
	}
	if err := json.Unmarshal(b, v); err != nil {
		return fmt.Errorf("inproc: not expressible: %w", err)
	}
	return p.SendEnvelope(v)
}

func (p *inprocScriptPeer) Drain() {
	n := len(p.Got)
	p.InprocPeer.Drain()
	for i := n; i < len(p.Got); i++ {
		p.Got[i].Step = p.step
	}
}

func (p *inprocScriptPeer) closeSelf() {
	if !p.closed {
		p.closed = true
		_ = p.T.Close()
	}
}

// InprocExpressible reports whether a script symbol can be sent on the in-process transport.
func InprocExpressible(s *CSym) bool {
	if s.Kind == "garbage" || s.Kind == "malformed" || !decodableSym(s) {
		return false
	}
	m := symToEnv(s, "x")
	if m == nil {
		return false
	}
	p := &inprocScriptPeer{}
	b, _ := json.Marshal(m)
	var v interface{} = &lime.Message{}
	switch {
	case m["state"] != nil:
		v = &lime.Session{}
	case m["method"] != nil && m["status"] != nil:
		v = &lime.ResponseCommand{}
	case m["method"] != nil:
		v = &lime.RequestCommand{}
	case m["event"] != nil:
		v = &lime.Notification{}
	}
	_ = p
	return json.Unmarshal(b, v) == nil
}

// RunServerScript executes one case inside the current synctest bubble.
func RunServerScript(c *SrvCase) *SrvObs {
	obs := &SrvObs{}
	log := &cbLog{}
	var st lime.Transport
	auth, reg := log.callbacks(&c.Cfg, func() lime.Transport { return st })

	scfg := ServerTLSVia(c.Cfg.TLSVia)
	var tcpCfg *lime.TCPConfig
	if c.Cfg.Transport == "tcp-tls" {
		tcpCfg = &lime.TCPConfig{TLSConfig: scfg}
	}
	ctx, cancel := context.WithTimeout(context.Background(), handshakeTimeout)
	defer cancel()

	var peer *RawPeer
	var ip *inprocScriptPeer // in-process transport: the peer sends library envelope values, there is no byte stream
	inproc := c.Cfg.Transport == "inproc"
	var serverEnd *FConn
	var sc *lime.ServerChannel
	var scMu sync.Mutex
	estDone := make(chan struct{})
	var srv *lime.Server
	srvDone := make(chan error, 1)
	dataHandled := 0
	var dhMu sync.Mutex

	switch c.Cfg.Mode {
	case "server":
		fl := NewFListener(tcpCfg, PipeOpts{Capture: true})
		cfg := lime.NewServerConfig()
		cfg.Node = srvNode
		cfg.CompOpts, cfg.EncryptOpts, cfg.SchemeOpts = toComp(c.Cfg.Comp), toEnc(c.Cfg.Enc), toSchemes(c.Cfg.Schemes)
		cfg.ChannelBufferSize = 1
		cfg.Backlog = 4
		cfg.Authenticate = auth
		cfg.Register = func(ctx context.Context, n lime.Node, ch *lime.ServerChannel) (lime.Node, error) {
			scMu.Lock()
			sc = ch
			scMu.Unlock()
			return reg(ctx, n, ch)
		}
		cfg.Established = func(id string, ch *lime.ServerChannel) {
			scMu.Lock()
			sc = ch
			scMu.Unlock()
			log.add(CBEntry{Call: "established", SessionID: id, State: string(ch.State())})
		}
		cfg.Finished = func(id string) { log.add(CBEntry{Call: "finished", SessionID: id}) }
		mux := &lime.EnvelopeMux{}
		count := func() { dhMu.Lock(); dataHandled++; dhMu.Unlock() }
		mux.MessageHandlerFunc(nil, func(context.Context, *lime.Message, lime.Sender) error { count(); return nil })
		mux.NotificationHandlerFunc(nil, func(context.Context, *lime.Notification) error { count(); return nil })
		mux.RequestCommandHandlerFunc(nil, func(context.Context, *lime.RequestCommand, lime.Sender) error { count(); return nil })
		mux.ResponseCommandHandlerFunc(nil, func(context.Context, *lime.ResponseCommand, lime.Sender) error { count(); return nil })
		if inproc {
			addr := lime.InProcessAddr(fmt.Sprintf("srvscript-%d", atomic.AddInt64(&srvScriptSeq, 1)))
			srv = lime.NewServer(cfg, mux, lime.NewBoundListener(lime.NewInProcessTransportListener(addr), addr))
			go func() { srvDone <- srv.ListenAndServe() }()
			synctest.Wait()
			ct, err := lime.DialInProcess(addr, 64)
			if err != nil {
				obs.PeerErr = "dial: " + err.Error()
				_ = srv.Close()
				<-srvDone
				return obs
			}
			ip = &inprocScriptPeer{InprocPeer: InprocPeer{T: ct}}
			close(estDone)
			break
		}
		srv = lime.NewServer(cfg, mux, lime.NewBoundListener(fl, FAddr))
		go func() { srvDone <- srv.ListenAndServe() }()
		synctest.Wait()
		conn, err := fl.Dial()
		if err != nil {
			obs.PeerErr = "dial: " + err.Error()
			_ = srv.Close()
			<-srvDone
			return obs
		}
		serverEnd = conn.Server
		st = conn.Transport
		peer = NewRawPeer(conn.Client)
		close(estDone) // not observable in this mode
	default:
		if inproc {
			ct, svt := lime.VerifNewInProcessTransportPair(lime.InProcessAddr("srvscript-direct"), 64)
			ip = &inprocScriptPeer{InprocPeer: InprocPeer{T: ct}}
			st = svt
		} else {
			cl, sv := Pipe(PipeOpts{Capture: true})
			serverEnd = sv
			peer = NewRawPeer(cl)
			st = lime.VerifNewTCPTransport(sv, tcpCfg, true)
		}
		sc = lime.NewServerChannel(st, 1, srvNode, fixedSid)
		go func() {
			defer close(estDone)
			if p := Protect(func() {
				err := sc.EstablishSession(ctx, toComp(c.Cfg.Comp), toEnc(c.Cfg.Enc), toSchemes(c.Cfg.Schemes), auth, reg)
				obs.EstReturned = true
				if err != nil {
					obs.EstErr = err.Error()
				}
			}); p != "" {
				obs.PanicMsg = p
			}
		}()
	}

	sample := func() {
		scMu.Lock()
		ch := sc
		scMu.Unlock()
		if ch != nil {
			obs.States = append(obs.States, string(ch.State()))
		}
	}
	gotEnvs := func() []GotEnv {
		if inproc {
			return ip.Got
		}
		return peer.Got
	}
	drain := func() {
		if inproc {
			ip.Drain()
		} else {
			peer.Drain()
		}
	}
	learnSid := func() {
		got := gotEnvs()
		for i := len(got) - 1; i >= 0; i-- {
			if id, ok := got[i].Env["id"].(string); ok && id != "" {
				obs.Sid = id
				return
			}
		}
	}
	if c.Cfg.CutInAuth && !inproc && peer != nil {
		var once sync.Once
		log.onAuth = func() { once.Do(func() { peer.Raw.Cut() }) }
	}
	for i := range c.Script {
		sym := &c.Script[i]
		if !(c.End == "close-now" && i == len(c.Script)-1 && i > 0) {
			synctest.Wait()
		}
		drain()
		sample()
		learnSid()
		if inproc {
			ip.step = i + 1
			env := symToEnv(sym, obs.Sid)
			obs.Sent = append(obs.Sent, env)
			if err := ip.SendGeneric(env); err != nil && obs.PeerErr == "" && strings.HasPrefix(err.Error(), "inproc:") {
				obs.PeerErr = err.Error()
			}
			continue
		}
		if sym.Glued && i > 0 {
			continue // went out together with the previous symbol
		}
		peer.Step = i + 1
		if sym.Kind == "garbage" {
			obs.Sent = append(obs.Sent, M{"garbage": true})
			_ = peer.SendBytes([]byte("{\"state\": nope}]\n"))
		} else if i+1 < len(c.Script) && c.Script[i+1].Glued {
			// one write: this envelope and, right behind it, the next one
			env, next := symToEnv(sym, obs.Sid), symToEnv(&c.Script[i+1], obs.Sid)
			obs.Sent = append(obs.Sent, env, next)
			b1, _ := json.Marshal(env)
			b2, _ := json.Marshal(next)
			peer.Step = i + 2
			_ = peer.SendBytes(append(append(append(b1, '\n'), b2...), '\n'))
		} else {
			env := symToEnv(sym, obs.Sid)
			obs.Sent = append(obs.Sent, env)
			_ = peer.SendEnv(env)
		}
		if sym.Kind == "session" && sym.State == "negotiating" && sym.Enc == "tls" && sym.DoTLS {
			synctest.Wait()
			peer.Drain()
			if n := len(peer.Got); n > 0 {
				last := peer.Got[n-1].Env
				if last["state"] == "negotiating" && last["encryption"] == "tls" && !peer.Raw.PeerClosed() {
					if err := peer.StartTLS(); err != nil {
						obs.PeerErr = "tls: " + err.Error()
					} else {
						obs.PeerTLS = true
					}
				}
			}
		}
	}
	if c.End == "close-now" {
		// the peer vanishes right after its last envelope, before the server can answer it
		if inproc {
			ip.closeSelf()
		} else {
			_ = peer.Raw.Close()
		}
	}
	synctest.Wait()
	drain()
	sample()
	learnSid()
	switch c.End {
	case "close-now":
	case "cut":
		if inproc {
			ip.closeSelf() // no reset on this transport: the same as vanishing
		} else {
			peer.Raw.Cut() // abrupt: the server's read fails with a reset, not an orderly end of stream
		}
	case "silence":
		time.Sleep(handshakeTimeout + time.Second)
	case "wait":
		// the peer stays connected and silent
	default:
		if inproc {
			ip.closeSelf() // what the server had queued before is still delivered
		} else {
			peer.Raw.CloseWrite() // the peer vanishes (half-close first so that buffered server output can still be read)
		}
	}
	synctest.Wait()
	drain()
	// release bound: TCP paths may need one poll interval (5 s) to notice
	time.Sleep(6 * time.Second)
	synctest.Wait()
	drain()
	sample()
	if inproc {
		// both ends of an in-process pair close together: "closed by the server" is observable only while the peer has not closed
		obs.ServerClosed = !ip.T.Connected()
	} else {
		obs.ServerClosed = serverEnd.Closed()
	}
	obs.Serving, obs.ServingStack = servingGoroutines()
	obs.Got = gotEnvs()
	if inproc {
		obs.PeerSawEOF = ip.SawEOF || !ip.T.Connected()
	} else {
		obs.PeerSawEOF = peer.SawEOF
		obs.Cleartext = string(peer.Raw.peer.Captured())
	}
	scMu.Lock()
	ch := sc
	scMu.Unlock()
	if ch != nil {
		obs.FinalState = string(ch.State())
		obs.Established = ch.Established()
		obs.RemoteNode = NodeText(ch.RemoteNode())
	}
	// cleanup
	cancel()
	if inproc {
		ip.closeSelf()
	} else {
		peer.Close()
	}
	if srv != nil {
		_ = srv.Close()
		<-srvDone
	}
	<-estDone
	synctest.Wait()
	if ch != nil && c.Cfg.Mode != "server" {
		_ = ch.Close()
	}
	if serverEnd != nil && !serverEnd.Closed() {
		_ = serverEnd.Close()
	}
	log.mu.Lock()
	obs.Log = append([]CBEntry(nil), log.Log...)
	log.mu.Unlock()
	dhMu.Lock()
	obs.DataHandled = dataHandled
	dhMu.Unlock()
	return obs
}

// ---------------- reference model of the server handshake ----------------

type ExpEnv struct {
	State      string
	Options    bool
	CompOpts   []string
	EncOpts    []string
	Confirm    bool
	Comp, Enc  string
	Schemes    []string
	RoundTrip  bool
	To         string
	NeedReason bool
}

type ModelResult struct {
	Exp          []ExpEnv
	Status       string // established | failed | aborted | pending
	Violation    string // which clause the client violated, if Status == failed because of a client violation
	ReachedAuth  bool
	Negotiated   bool
	TLSOn        bool
	GluedDropped []int // script indexes of cleartext envelopes that arrived glued to the choice that switched to TLS
}

func capEnc(transport string) []string {
	if transport == "inproc" {
		return []string{"none"}
	}
	return []string{"none", "tls"}
}

func intersectStr(a, b []string) []string {
	var out []string
	for _, x := range a {
		for _, y := range b {
			if x == y {
				out = append(out, x)
				break
			}
		}
	}
	return out
}

func containsStr(l []string, s string) bool {
	for _, x := range l {
		if x == s {
			return true
		}
	}
	return false
}

// NegotiationRequired: "required" | "either". requiredC10 reports the additional C10 clause.
func NegotiationRequired(cfg *SrvCfg) (required bool, requiredC10 bool) {
	offerC := intersectStr(cfg.Comp, []string{"none"})
	offerE := intersectStr(cfg.Enc, capEnc(cfg.Transport))
	required = len(offerC) > 1 || len(offerE) > 1
	requiredC10 = len(offerE) > 0 && !containsStr(cfg.Enc, "none") && !containsStr(offerE, "none")
	return
}

// RunServerModel steps the reference model through the script. negotiates tells which branch an "either"
// configuration took (decided by the implementation's first reply, or by the generator's expectation).
func RunServerModel(c *SrvCase, negotiates bool) *ModelResult {
	cfg := &c.Cfg
	r := &ModelResult{Status: "pending"}
	offerC := intersectStr(cfg.Comp, []string{"none"})
	offerE := intersectStr(cfg.Enc, capEnc(cfg.Transport))
	required, switchNeeded := NegotiationRequired(cfg)
	if required || switchNeeded {
		// a choice to make, or the one configured encryption is not the one in force: the stage is not optional
		negotiates = true
	}
	if len(offerC) == 0 || len(offerE) == 0 {
		negotiates = false // nothing to offer
	}
	fail := func(v string) {
		r.Exp = append(r.Exp, ExpEnv{State: "failed", NeedReason: true})
		r.Status, r.Violation = "failed", v
	}
	state := "new"
	round := 0
	switchedAt := -1 // index of the symbol that made the server switch to TLS
	for i := range c.Script {
		s := &c.Script[i]
		if r.Status != "pending" {
			break
		}
		if s.Glued && i > 0 && switchedAt == i-1 {
			// cleartext that arrived glued to the choice that switched the connection to TLS: it must not be acted upon (the
			// implementation discards what it had read ahead)
			r.GluedDropped = append(r.GluedDropped, i)
			continue
		}
		if s.Kind != "session" || !decodableSym(s) {
			r.Status = "aborted"
			break
		}
		switch state {
		case "new":
			if s.ID != "none" && s.ID != "" {
				fail("first-envelope-has-id")
				continue
			}
			if s.State != "new" {
				fail("first-envelope-not-new")
				continue
			}
			if negotiates {
				r.Exp = append(r.Exp, ExpEnv{State: "negotiating", Options: true, CompOpts: offerC, EncOpts: offerE})
				state = "choice"
				r.Negotiated = true
			} else {
				r.Exp = append(r.Exp, ExpEnv{State: "authenticating", Schemes: cfg.Schemes})
				state = "auth"
				r.ReachedAuth = true
			}
		case "choice":
			if s.ID != "sid" {
				fail("wrong-id")
				continue
			}
			if s.State != "negotiating" {
				fail("out-of-order-state")
				continue
			}
			if !containsStr(offerC, s.Comp) || !containsStr(offerE, s.Enc) {
				fail("option-not-offered")
				continue
			}
			r.Exp = append(r.Exp, ExpEnv{State: "negotiating", Confirm: true, Comp: s.Comp, Enc: s.Enc})
			if s.Enc == "tls" {
				if cfg.Transport != "tcp-tls" || !s.DoTLS {
					r.Status = "aborted" // the upgrade cannot complete
					continue
				}
				r.TLSOn = true
				switchedAt = i
			}
			r.Exp = append(r.Exp, ExpEnv{State: "authenticating", Schemes: cfg.Schemes})
			state = "auth"
			r.ReachedAuth = true
		case "auth":
			if s.State != "authenticating" {
				fail("out-of-order-state")
				continue
			}
			if s.ID != "sid" {
				fail("wrong-id")
				continue
			}
			if !containsStr(cfg.Schemes, s.Scheme) {
				fail("scheme-not-offered")
				continue
			}
			ps, pc := presented(s) // what the authentication callback is handed
			switch authOutcome(cfg, ps, pc, round) {
			case "member", "authority", "root":
				switch cfg.Register {
				case "error":
					r.Status = "aborted"
				case "assign":
					r.Exp = append(r.Exp, ExpEnv{State: "established", To: NodeText(assignedNode)})
					r.Status = "established"
				default:
					r.Exp = append(r.Exp, ExpEnv{State: "established", To: NodeText(s.From.Node())})
					r.Status = "established"
				}
			case "roundtrip":
				r.Exp = append(r.Exp, ExpEnv{State: "authenticating", RoundTrip: true})
			case "error":
				r.Status = "aborted"
			default:
				fail("")
				r.Violation = "" // rejected credentials: a refusal, not a protocol violation
			}
			round++
		}
	}
	return r
}

// decodableSym: a session symbol the codec accepts (authentication data needs a known scheme to be decoded).
func decodableSym(s *CSym) bool {
	if s.Kind == "session" && (s.State == "authenticating" || s.ForceAuth) && s.Cred != "-" && s.Scheme != "" {
		return containsStr(Schemes, s.Scheme)
	}
	return true
}

func setEq(a []string, b []interface{}) bool {
	if len(a) != len(b) {
		return false
	}
	x := append([]string(nil), a...)
	var y []string
	for _, v := range b {
		s, _ := v.(string)
		y = append(y, s)
	}
	sort.Strings(x)
	sort.Strings(y)
	return strings.Join(x, ",") == strings.Join(y, ",")
}

func listOf(v interface{}) []interface{} {
	l, _ := v.([]interface{})
	return l
}

// matchExp compares one observed envelope with the model's expectation; "" if it matches.
func matchExp(e ExpEnv, got M, sid string) string {
	if got["state"] != e.State {
		return fmt.Sprintf("state %v, expected %s", got["state"], e.State)
	}
	if got["id"] != sid {
		return fmt.Sprintf("id %v, expected the session id %s", got["id"], sid)
	}
	if got["from"] != NodeText(srvNode) {
		return fmt.Sprintf("from %v, expected the server node", got["from"])
	}
	switch {
	case e.Options:
		if !setEq(e.CompOpts, listOf(got["compressionOptions"])) || !setEq(e.EncOpts, listOf(got["encryptionOptions"])) {
			return fmt.Sprintf("options %v/%v, expected %v/%v", got["compressionOptions"], got["encryptionOptions"], e.CompOpts, e.EncOpts)
		}
	case e.Confirm:
		if got["compression"] != e.Comp || got["encryption"] != e.Enc {
			return fmt.Sprintf("confirmation %v/%v, expected %s/%s", got["compression"], got["encryption"], e.Comp, e.Enc)
		}
	case e.RoundTrip:
		if got["authentication"] == nil {
			return "round-trip envelope without authentication data"
		}
	case e.State == "authenticating":
		if !setEq(e.Schemes, listOf(got["schemeOptions"])) {
			return fmt.Sprintf("schemeOptions %v, expected %v", got["schemeOptions"], e.Schemes)
		}
		if got["authentication"] != nil {
			return "authentication data on a plain authentication request"
		}
	case e.State == "established":
		to, _ := got["to"].(string)
		if to != e.To {
			return fmt.Sprintf("established to %q, expected %q", to, e.To)
		}
	case e.State == "failed":
		if r, ok := got["reason"].(map[string]interface{}); !ok || len(r) == 0 {
			return "failed session without a reason"
		}
	}
	return ""
}
