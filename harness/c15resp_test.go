package harness

// C15, command processing with an unconsumed response stream (real time): more responses that nobody waits for have arrived
// than the channel buffers hold and the application does not drain RespCmdChan (it only uses ProcessCommand). A ProcessCommand
// issued then - and one that was already waiting - still returns when its context is over.

import (
	"context"
	"fmt"
	"testing"
	"time"

	lime "github.com/takenet/lime-go"
)

type c15RespCase struct {
	Transport string `json:"transport"` // inproc | tcp
	ChanBuf   int    `json:"chanBuf"`
	Waiting   bool   `json:"waiting"` // the judged call is already waiting when the unsolicited responses arrive
	End       string `json:"end"`     // deadline | cancel
}

func TestC15UnconsumedResponses(t *testing.T) {
	rec := NewRecorder("C15", "TestC15UnconsumedResponses")
	defer rec.Finish(t)
	sh, nsh := Shard()
	idx := 0
	for _, tr := range []string{"inproc", "tcp"} {
		for _, buf := range []int{0, 1, 4} {
			for _, waiting := range []bool{false, true} {
				for _, end := range []string{"deadline", "cancel"} {
					idx++
					if idx%nsh != sh {
						continue
					}
					c := &c15RespCase{Transport: tr, ChanBuf: buf, Waiting: waiting, End: end}
					rec.Journal(c)
					o := &Outcome{NonTrivial: true}
					o.Class("process-command/unconsumed-response-stream")
					cc, sc, release, note := establishedChannelsCfg(tr, 0, buf, 8, 0, false)
					if note != "" {
						o.Class("skipped")
						release()
						rec.Eval(c, o)
						continue
					}
					unsolicited := func() {
						for k := 0; k < buf+3; k++ {
							r := &lime.ResponseCommand{Status: lime.CommandStatusSuccess}
							r.ID, r.Method = fmt.Sprintf("nobody-%d", k), lime.CommandMethodGet
							ctx, cancel := context.WithTimeout(context.Background(), 500*time.Millisecond)
							_ = sc.SendResponseCommand(ctx, r)
							cancel()
						}
						time.Sleep(50 * time.Millisecond)
					}
					if !waiting {
						unsolicited()
					}
					at := 400 * time.Millisecond
					var ctx context.Context
					var cancel context.CancelFunc
					start := time.Now()
					if end == "deadline" {
						ctx, cancel = context.WithTimeout(context.Background(), at)
					} else {
						ctx, cancel = context.WithCancel(context.Background())
						time.AfterFunc(at, cancel)
					}
					done := make(chan error, 1)
					go func() {
						req := &lime.RequestCommand{}
						req.ID, req.Method = "judged", lime.CommandMethodGet
						req.SetURIString("/never-answered")
						_, err := cc.ProcessCommand(ctx, req)
						done <- err
					}()
					if waiting {
						time.Sleep(100 * time.Millisecond)
						unsolicited()
					}
					select {
					case err := <-done:
						if late := time.Since(start.Add(at)); late > 1500*time.Millisecond {
							o.Fail("C15/late/channel.process-command/unconsumed-responses/"+tr, "returned %v after its context was over: %v", late, err)
						} else if err == nil {
							o.Fail("C15/returned-nil/channel.process-command/unconsumed-responses/"+tr, "returned nil although nobody answered")
						}
					case <-time.After(at + 4*time.Second):
						o.Fail("C15/never-returned/channel.process-command/unconsumed-responses/"+tr+"/"+end, "ProcessCommand did not return within 4 s after its context was over (buffer %d, %d unsolicited responses unconsumed)", buf, buf+3)
					}
					cancel()
					rel := make(chan struct{})
					go func() { release(); close(rel) }()
					select {
					case <-rel:
					case <-time.After(8 * time.Second):
					}
					rec.Eval(c, o)
				}
			}
		}
	}
	rec.Note("exhaustive", "true")
}
