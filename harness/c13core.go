package harness

// C13: sessions end cleanly in both directions and release what waits on them. Core shared by virtual and real runners.

import (
	"context"
	"fmt"
	"runtime"
	"strings"
	"sync"
	"sync/atomic"
	"time"

	lime "github.com/takenet/lime-go"
)

type c13Case struct {
	Transport     string `json:"transport"`               // virtual: inproc | fconn | fconn-tls ; real: tcp | ws | wss | inproc
	TLS12         bool   `json:"tls12,omitempty"`         // fconn-tls: TLS capped at version 1.2 (the close notification is visible as such; crypto/tls then hands over the last record together with io.EOF)
	InitiatorBusy bool   `json:"initiatorBusy,omitempty"` // server initiators, channel wiring: the server's dispatch loop sits in a handler and more notifications than its buffers hold have arrived when it ends the session (its receiver is parked handing one over)
	Wiring        string `json:"wiring"`                  // channel (bare ClientChannel) | client (lime.Client)
	Initiator     string `json:"initiator"`               // client-finish | server-finish | server-fail | client-close | server-close
	ChanBuf       int    `json:"chanBuf"`
	InprocBuf     int    `json:"inprocBuf,omitempty"`
	C2S           int    `json:"c2s"`        // envelopes the client side sends
	S2C           int    `json:"s2c"`        // envelopes the server side sends
	AfterSends    int    `json:"afterSends"` // terminate once this many sends (both directions together) have completed; 0 = at once
	Real          bool   `json:"real,omitempty"`
	PeerStuck     bool   `json:"peerStuck,omitempty"` // client-close only: the server's dispatch loop is stuck in a handler, so the client's finishing envelope is not answered in time
}

type c13Obs struct {
	Note               string `json:"note,omitempty"`
	TermErr            string `json:"termErr,omitempty"`
	TermSesState       string `json:"termSesState,omitempty"`
	InitiatorConnAtRet bool   `json:"initiatorConnectedAtReturn"`
	InitiatorConnLater bool   `json:"initiatorConnectedLater"`
	ClientKeptLost     bool   `json:"clientKeptLostConnection,omitempty"` // wiring client, the server ended the session: the Client still held the connection of that session after the release bound (it had not closed the channel on its own)
	CliState           string `json:"cliState"`
	SrvState           string `json:"srvState"`
	CliRcvDone         bool   `json:"cliRcvDone"`
	SrvRcvDone         bool   `json:"srvRcvDone"`
	CliStreamsClosed   bool   `json:"cliStreamsClosed"`
	SrvStreamsClosed   bool   `json:"srvStreamsClosed"`
	ConsumersReturned  bool   `json:"consumersReturned"`
	EstCb              int    `json:"estCb"`
	FinCb              int    `json:"finCb"`
	Serving            int    `json:"serving"`
	ServingStack       string `json:"servingStack,omitempty"`
	ConnsOpen          int    `json:"connsOpen"`
	SessionsSeen       int    `json:"sessionsSeen"`
	ClientSawTerminal  bool   `json:"clientSawTerminal"`
	ResetLogged        bool   `json:"resetLogged,omitempty"` // the library logged "connection reset by peer" while the case ran (real sockets)
}

// sessionGoroutines counts goroutines that belong to a session (receiver, dispatch loops, serving goroutine, client listener).
func sessionGoroutines() (int, string) {
	n := runtime.Stack(stackBuf, true)
	cnt := 0
	which := ""
	for _, g := range strings.Split(string(stackBuf[:n]), "\n\n") {
		if strings.Contains(g, "lime-go.receiveFromTransport") || strings.Contains(g, "lime-go.(*Server).handleChannel") ||
			strings.Contains(g, "lime-go.(*EnvelopeMux).listen") || strings.Contains(g, "lime-go.(*Client).startListener") ||
			strings.Contains(g, "lime-go.(*websocketTransport)") || strings.Contains(g, "lime-go.(*ctxConn)") {
			cnt++
			if which == "" {
				which = truncate(g, 900)
			} else if len(which) < 6000 {
				which += "\n--\n" + truncate(g, 700)
			}
		}
	}
	return cnt, which
}

type c13Server struct {
	mu       sync.Mutex
	channels []*lime.ServerChannel
	est, fin int
	cfg      *lime.ServerConfig
	mux      *lime.EnvelopeMux
	handled  int
	estCh    chan *lime.ServerChannel
	stuck    atomic.Value // chan struct{}: while set, the message handler does not return
}

func newC13Server(chanBuf int, tlsOnly bool) *c13Server {
	s := &c13Server{mux: &lime.EnvelopeMux{}, estCh: make(chan *lime.ServerChannel, 16)}
	count := func() { s.mu.Lock(); s.handled++; s.mu.Unlock() }
	s.mux.MessageHandlerFunc(nil, func(context.Context, *lime.Message, lime.Sender) error {
		count()
		if g, _ := s.stuck.Load().(chan struct{}); g != nil {
			<-g
		}
		return nil
	})
	s.mux.NotificationHandlerFunc(nil, func(context.Context, *lime.Notification) error { count(); return nil })
	s.mux.RequestCommandHandlerFunc(nil, func(context.Context, *lime.RequestCommand, lime.Sender) error { count(); return nil })
	s.mux.ResponseCommandHandlerFunc(nil, func(context.Context, *lime.ResponseCommand, lime.Sender) error { count(); return nil })
	cfg := lime.NewServerConfig()
	cfg.Node = srvNode
	cfg.SchemeOpts = []lime.AuthenticationScheme{lime.AuthenticationSchemeGuest}
	cfg.EncryptOpts = []lime.SessionEncryption{lime.SessionEncryptionNone, lime.SessionEncryptionTLS}
	if tlsOnly {
		cfg.EncryptOpts = []lime.SessionEncryption{lime.SessionEncryptionTLS}
	}
	cfg.ChannelBufferSize = chanBuf
	cfg.Backlog = 16
	cfg.Authenticate = func(context.Context, lime.Identity, lime.Authentication) (*lime.AuthenticationResult, error) {
		return lime.MemberAuthenticationResult(), nil
	}
	cfg.Register = func(_ context.Context, n lime.Node, _ *lime.ServerChannel) (lime.Node, error) { return n, nil }
	cfg.Established = func(id string, ch *lime.ServerChannel) {
		s.mu.Lock()
		s.est++
		s.channels = append(s.channels, ch)
		s.mu.Unlock()
		select {
		case s.estCh <- ch:
		default:
		}
	}
	cfg.Finished = func(id string) { s.mu.Lock(); s.fin++; s.mu.Unlock() }
	s.cfg = cfg
	return s
}

func chanClosedMsg(ch <-chan *lime.Message) bool {
	for {
		select {
		case _, ok := <-ch:
			if !ok {
				return true
			}
		default:
			return false
		}
	}
}
func chanClosedNot(ch <-chan *lime.Notification) bool {
	for {
		select {
		case _, ok := <-ch:
			if !ok {
				return true
			}
		default:
			return false
		}
	}
}
func chanClosedReq(ch <-chan *lime.RequestCommand) bool {
	for {
		select {
		case _, ok := <-ch:
			if !ok {
				return true
			}
		default:
			return false
		}
	}
}
func chanClosedResp(ch <-chan *lime.ResponseCommand) bool {
	for {
		select {
		case _, ok := <-ch:
			if !ok {
				return true
			}
		default:
			return false
		}
	}
}
func doneClosed(ch <-chan struct{}) bool {
	select {
	case <-ch:
		return true
	default:
		return false
	}
}

type c13Streams interface {
	MsgChan() <-chan *lime.Message
	NotChan() <-chan *lime.Notification
	ReqCmdChan() <-chan *lime.RequestCommand
	RespCmdChan() <-chan *lime.ResponseCommand
	RcvDone() <-chan struct{}
}

func streamsClosed(s c13Streams) bool {
	return chanClosedMsg(s.MsgChan()) && chanClosedNot(s.NotChan()) && chanClosedReq(s.ReqCmdChan()) && chanClosedResp(s.RespCmdChan())
}

func c13Message(id string) *lime.Message {
	m := &lime.Message{}
	m.ID = id
	m.SetContent(lime.TextDocument("traffic " + id))
	return m
}

func boundFor(transport string) time.Duration {
	switch transport {
	case "fconn", "fconn-tls", "tcp", "tcp-tls":
		return 5 * time.Second
	}
	return time.Second
}

func judgeC13(c *c13Case, obs *c13Obs, o *Outcome) {
	o.Class("transport=" + c.Transport)
	if c.TLS12 {
		o.Class("tls-1.2")
	}
	o.Class("wiring=" + c.Wiring)
	o.Class("initiator=" + c.Initiator)
	if c.PeerStuck {
		o.Class("peer-stuck-in-handler")
	}
	if c.InitiatorBusy {
		o.Class("initiator-busy-with-unconsumed-notifications")
	}
	if c.Real {
		o.Class("real-sockets")
	}
	if strings.HasPrefix(obs.Note, "skip:") {
		o.Class("skipped")
		return
	}
	if strings.HasPrefix(obs.Note, "harness:") {
		o.Fail("C13/harness/"+c.Transport+"/"+c.Initiator, "%s", obs.Note)
		return
	}
	o.NonTrivial = (c.C2S+c.S2C > 0 && c.AfterSends < c.C2S+c.S2C) || strings.HasPrefix(c.Initiator, "server") || c.ChanBuf == 0
	key := c.Initiator + "/" + c.Transport
	wantCli := "finished"
	if c.Initiator == "server-fail" {
		wantCli = "failed"
	}
	if c.Wiring == "channel" {
		// (1) the peer observes the terminal session and reaches the terminal state
		// The statement does not promise that the terminating call returns nil (under TLS, closing after the peer has
		// already closed reports a close_notify write error although the session finished and the connection is closed);
		// what it promises is judged below: terminal states, closed streams, closed connection.
		if obs.TermErr != "" {
			o.Class("terminating-call-error=" + errClassStr(obs.TermErr))
		}
		if strings.Contains(obs.TermErr, "the terminating call did not return") {
			o.Fail("C13/terminating-call-never-returns/"+key, "%s: %s", c.Initiator, obs.TermErr)
		}
		// a reset reported by the library while the case ran keys the (open) finding about resets narrowly; it decides nothing
		pre, rnote := "C13/", ""
		if obs.ResetLogged && c.Real && strings.HasPrefix(c.Initiator, "server") {
			pre, rnote = "C13/reset-by-peer/", " (the client's receiver ended with \"connection reset by peer\")"
		}
		if obs.CliState != wantCli {
			o.Fail(pre+"client-state/"+key, "client channel state is %q after %s, expected %q%s", obs.CliState, c.Initiator, wantCli, rnote)
		}
		if c.Initiator != "client-finish" && !obs.ClientSawTerminal {
			o.Fail(pre+"client-did-not-observe-terminal/"+key, "the client never observed the %s session%s", wantCli, rnote)
		}
		// (2) streams and receiver-done closed on both sides, consumers return
		if !obs.CliRcvDone || !obs.CliStreamsClosed {
			o.Fail("C13/client-streams-open/"+key, "client RcvDone closed=%v, streams closed=%v", obs.CliRcvDone, obs.CliStreamsClosed)
		}
		if !obs.SrvRcvDone || !obs.SrvStreamsClosed {
			o.Fail("C13/server-streams-open/"+key, "server RcvDone closed=%v, streams closed=%v", obs.SrvRcvDone, obs.SrvStreamsClosed)
		}
		if !obs.ConsumersReturned {
			o.Fail("C13/consumers-stuck/"+key, "a stream consumer of the client did not return")
		}
	}
	// (3) the initiator's connection is closed by the terminating call
	if c.Initiator == "client-close" {
		// Client.Close is the last the application can do with this client: its connection is released whether or not the
		// session could be finished in an orderly way
		if obs.InitiatorConnAtRet {
			o.Fail("C13/initiator-still-connected/"+key, "a connection dialled by the Client was still connected when Client.Close returned (%q)", obs.TermErr)
		}
	} else if c.Initiator == "client-finish" && obs.InitiatorConnAtRet && obs.TermErr != "" {
		// the peer was consuming and answering all along: a FinishSession that fails here and leaves its connection open has
		// neither finished the session in an orderly way nor released it
		o.Fail("C13/initiator-still-connected-after-failed-finish/"+key, "ClientChannel.FinishSession returned %q and the client's transport was still connected", obs.TermErr)
	} else if c.Initiator != "server-close" {
		if obs.InitiatorConnAtRet && obs.TermErr == "" {
			o.Fail("C13/initiator-still-connected/"+key, "Transport.Connected() of the initiator was still true when %s returned", c.Initiator)
		}
	} else if obs.InitiatorConnLater {
		o.Fail("C13/initiator-still-connected/"+key, "a server-side transport was still connected after Server.Close and the release bound")
	}
	// the high-level client closes the channel of a session the server has ended on its own, whether or not it gets a new one
	if obs.ClientKeptLost {
		o.Fail("C13/client-keeps-the-ended-session-connection/"+key, "the server ended the session (%s); the Client still held that session's connection open after the release bound, before the application closed the Client", c.Initiator)
	}
	// callbacks pair up
	if obs.EstCb != obs.FinCb {
		o.Fail("C13/finished-callback/"+key, "Established fired %d times, Finished %d times", obs.EstCb, obs.FinCb)
	}
	// (4) nothing left behind
	if obs.Serving > 0 {
		o.Fail("C13/goroutine-left/"+key, "%d session goroutine(s) left after the release bound: %s", obs.Serving, obs.ServingStack)
	}
	if obs.ConnsOpen > 0 {
		o.Fail("C13/connection-left-open/"+key, "%d connection end(s) still open", obs.ConnsOpen)
	}
}

func errClassStr(e string) string {
	if i := strings.LastIndex(e, ": "); i >= 0 {
		e = e[i+2:]
	}
	e = quotedReC13.ReplaceAllString(e, "_")
	if len(e) > 50 {
		e = e[:50]
	}
	return e
}

var _ = fmt.Sprint

var quotedReC13 = regexpMustCompile(`'[^']*'|"[^"]*"|\d+`)
