//go:build go1.25

package harness

import (
	"context"
	"fmt"
	"strings"
	"sync"
	"testing"
	"testing/synctest"
	"time"

	lime "github.com/takenet/lime-go"
	"pgregory.net/rapid"
)

// establishedChannelsOpt: library client and server channels, established, over the given transport.
func establishedChannelsOpt(tr string, pipeCap, chanBuf, inprocBuf int) (*lime.ClientChannel, *lime.ServerChannel, func(), string) {
	return establishedChannelsCfg(tr, pipeCap, chanBuf, inprocBuf, 0, false)
}

// establishedChannelsCfg: the same with a configured read limit (0 = default) and optionally a trace writer on both TCP ends.
func establishedChannelsCfg(tr string, pipeCap, chanBuf, inprocBuf int, readLimit int64, trace bool) (*lime.ClientChannel, *lime.ServerChannel, func(), string) {
	var ct, st lime.Transport
	var cl, sv *FConn
	switch tr {
	case "inproc":
		ct, st = lime.VerifNewInProcessTransportPair("c04", inprocBuf)
	default:
		if pipeCap == 0 {
			pipeCap = 64 << 10
		}
		cl, sv = Pipe(PipeOpts{Capacity: pipeCap})
		var scfg, ccfg *lime.TCPConfig
		if tr == "tcp-tls" {
			s, c := TLSConfigs()
			scfg, ccfg = &lime.TCPConfig{TLSConfig: s}, &lime.TCPConfig{TLSConfig: c}
		}
		if readLimit != 0 || trace {
			if scfg == nil {
				scfg, ccfg = &lime.TCPConfig{}, &lime.TCPConfig{}
			}
			scfg.ReadLimit, ccfg.ReadLimit = readLimit, readLimit
			if trace {
				scfg.TraceWriter, ccfg.TraceWriter = NewCountingTrace(), NewCountingTrace()
			}
		}
		ct = lime.VerifNewTCPTransport(cl, ccfg, false)
		st = lime.VerifNewTCPTransport(sv, scfg, true)
	}
	cc := lime.NewClientChannel(ct, chanBuf)
	sc := lime.NewServerChannel(st, chanBuf, srvNode, fixedSid)
	enc := []lime.SessionEncryption{lime.SessionEncryptionNone}
	encSel := lime.NoneEncryptionSelector
	if tr == "tcp-tls" {
		enc = []lime.SessionEncryption{lime.SessionEncryptionTLS}
		encSel = lime.TLSEncryptionSelector
	}
	ctx, cancel := context.WithTimeout(context.Background(), 20*time.Second)
	defer cancel()
	var wg sync.WaitGroup
	wg.Add(1)
	var serr error
	go func() {
		defer wg.Done()
		serr = sc.EstablishSession(ctx, []lime.SessionCompression{lime.SessionCompressionNone}, enc, []lime.AuthenticationScheme{lime.AuthenticationSchemeGuest},
			func(context.Context, lime.Identity, lime.Authentication) (*lime.AuthenticationResult, error) {
				return lime.MemberAuthenticationResult(), nil
			}, func(_ context.Context, n lime.Node, _ *lime.ServerChannel) (lime.Node, error) { return n, nil })
	}()
	_, cerr := cc.EstablishSession(ctx, lime.NoneCompressionSelector, encSel, lime.Identity{Name: "alice", Domain: "cli.example"}, lime.GuestAuthenticator, "home")
	wg.Wait()
	release := func() {
		_ = cc.Close()
		_ = sc.Close()
		if cl != nil {
			_ = cl.Close()
			_ = sv.Close()
		}
	}
	if cerr != nil || serr != nil || !cc.Established() || !sc.Established() {
		return cc, sc, release, fmt.Sprintf("harness: establish failed: %v / %v", cerr, serr)
	}
	return cc, sc, release, ""
}

func runC04Virtual(c *c04Case) *c04Obs {
	obs := &c04Obs{}
	tr := c.Transport
	pipeCap := c.PipeCap
	if tr == "tcp-small" {
		tr = "tcp"
	}
	cc, sc, release, note := establishedChannelsCfg(tr, pipeCap, c.ChanBuf, c.InprocBuf, c.ReadLimit, c.Trace)
	if note != "" {
		obs.Note = note
		release()
		return obs
	}
	col := &c04Collector{recv: map[string][]string{}, want: map[string]interface{}{}, delay: c.Delay, slowEvery: c.SlowEvery, slowMs: c.SlowMs}
	ctx, cancel := context.WithCancel(context.Background())
	var cwg sync.WaitGroup
	col.consume(ctx, "c2s", sc, c.Consumer, func(ctx context.Context, mux *lime.EnvelopeMux) error { return mux.ListenServer(ctx, sc) }, &cwg)
	col.consume(ctx, "s2c", cc, c.Consumer, func(ctx context.Context, mux *lime.EnvelopeMux) error { return mux.ListenClient(ctx, cc) }, &cwg)
	if c.IdleMs > 0 {
		time.Sleep(time.Duration(c.IdleMs) * time.Millisecond)
	}
	sendTimeout := 10 * time.Minute
	if c.SlowEvery > 0 {
		// a send may have to wait for every envelope in front of it to be consumed, each after a pause: its context must live that long
		n := 0
		for _, l := range append(append([][]c04Op{}, c.C2S...), c.S2C...) {
			n += len(l)
		}
		sendTimeout += time.Duration(n+1) * time.Duration(c.SlowMs) * time.Millisecond * 2
	}
	c04Drive(c, cc, sc, col, obs, sendTimeout)
	synctest.Wait() // everything that can be delivered has been ...
	if c.SlowEvery > 0 {
		// ... unless the consumer is pausing: then wait for as long as it keeps making progress
		for last, idle := -1, 0; idle < 2; {
			time.Sleep(time.Duration(c.SlowMs+1000) * time.Millisecond)
			synctest.Wait()
			col.mu.Lock()
			n := col.n
			col.mu.Unlock()
			if n == last {
				idle++
			} else {
				last, idle = n, 0
			}
		}
	}
	col.mu.Lock()
	obs.Recv = col.recv
	obs.Corrupt = col.corrupt
	obs.NRecv = col.n
	col.mu.Unlock()
	obs.NSent = len(obs.SentOK["c2s"]) + len(obs.SentOK["s2c"])
	cancel()
	release()
	cwg.Wait()
	time.Sleep(6 * time.Second)
	synctest.Wait()
	return obs
}

func genC04Ops(rt *rapid.T, maxOps int, big bool) []c04Op {
	n := rapid.IntRange(1, maxOps).Draw(rt, "nops")
	out := make([]c04Op, n)
	for i := range out {
		out[i].Kind = rapid.SampledFrom([]string{"m", "n", "q", "r"}).Draw(rt, "kind")
		switch rapid.IntRange(0, 9).Draw(rt, "sizeClass") {
		case 0, 1, 2, 3, 4, 5:
			out[i].Size = rapid.IntRange(0, 64).Draw(rt, "small")
		case 6, 7, 8:
			out[i].Size = rapid.IntRange(64, 4096).Draw(rt, "medium")
		default:
			if big {
				out[i].Size = rapid.IntRange(4096, 65536).Draw(rt, "large")
			}
		}
	}
	return out
}

func genC04(rt *rapid.T, transports []string) *c04Case {
	c := &c04Case{
		Transport: rapid.SampledFrom(transports).Draw(rt, "transport"),
		ChanBuf:   rapid.SampledFrom([]int{0, 1, 2, 8, 64}).Draw(rt, "chanBuf"),
		InprocBuf: rapid.SampledFrom([]int{0, 1, 4}).Draw(rt, "inprocBuf"),
		Consumer:  rapid.SampledFrom([]string{"streams", "mux"}).Draw(rt, "consumer"),
	}
	if c.Transport == "tcp-small" {
		c.PipeCap = rapid.SampledFrom([]int{1024, 2048, 4096}).Draw(rt, "pipeCap")
	}
	if c.Transport != "inproc" && !strings.HasPrefix(c.Transport, "ws") {
		// a read limit just above the largest envelope of the workload (it bounds one envelope, not the session), and
		// sometimes a traced transport
		c.ReadLimit = rapid.SampledFrom([]int64{0, 0, 160 << 10}).Draw(rt, "readLimit")
		c.Trace = rapid.IntRange(0, 4).Draw(rt, "trace") == 0
	}
	dirs := rapid.IntRange(1, 3).Draw(rt, "dirs") // 1: c2s, 2: s2c, 3: both
	budget := 300
	mk := func(label string) [][]c04Op {
		g := rapid.IntRange(1, 8).Draw(rt, label+"G")
		var out [][]c04Op
		for i := 0; i < g; i++ {
			ops := genC04Ops(rt, 1+budget/(g*2), true)
			out = append(out, ops)
		}
		return out
	}
	if dirs&1 != 0 {
		c.C2S = mk("c2s")
	}
	if dirs&2 != 0 {
		c.S2C = mk("s2c")
	}
	if strings.HasPrefix(c.Transport, "tcp") && rapid.IntRange(0, 2).Draw(rt, "slow") == 0 {
		// a consumer that pauses for longer than one or two write polls: senders block half way through an envelope, time out and resume
		c.SlowEvery = rapid.IntRange(1, 6).Draw(rt, "slowEvery")
		c.SlowMs = rapid.SampledFrom([]int{5500, 11000, 16000}).Draw(rt, "slowMs")
		// one sender per direction: a second one would wait for the first on the channel's send lock, and a goroutine
		// waiting for a lock stops the virtual clock the pause depends on
		if len(c.C2S) > 1 {
			c.C2S = c.C2S[:1]
		}
		if len(c.S2C) > 1 {
			c.S2C = c.S2C[:1]
		}
	}
	if !c.Real && rapid.IntRange(0, 2).Draw(rt, "idle") == 0 {
		c.IdleMs = rapid.SampledFrom([]int{6000, 21000, 31000, 120000}).Draw(rt, "idleMs")
	}
	c.NoDeadline = rapid.IntRange(0, 2).Draw(rt, "noDeadline") == 0
	// (not under TLS: the noise cancels the contexts of its calls, and a TLS write that is given up ends the connection -
	// the session would not "stay established", which is what this property presupposes)
	if c.SlowEvery == 0 && c.Transport != "tcp-tls" && len(c.C2S) > 0 && rapid.IntRange(0, 2).Draw(rt, "pcNoise") == 0 {
		n := rapid.IntRange(1, 40).Draw(rt, "pcN")
		for i := 0; i < n; i++ {
			c.PC = append(c.PC, rapid.IntRange(0, 30).Draw(rt, "pcYields"))
		}
		c.PCDup = rapid.Bool().Draw(rt, "pcDup")
	}
	nd := rapid.IntRange(0, 5).Draw(rt, "ndelay")
	for i := 0; i < nd; i++ {
		c.Delay = append(c.Delay, rapid.IntRange(0, 20).Draw(rt, "delay"))
	}
	return c
}

func TestC04(t *testing.T) {
	rec := NewRecorder("C04", "TestC04")
	w := StartSpinWatchAfter("C04", 25)
	defer w.Stop()
	rapid.Check(t, func(rt *rapid.T) {
		c := genC04(rt, []string{"inproc", "inproc", "tcp", "tcp-small", "tcp-small", "tcp-tls"})
		o := &Outcome{}
		var obs *c04Obs
		rec.Journal(c)
		w.Case(c)
		rapid.SyncTest(rt, func(rt *rapid.T) { obs = runC04Virtual(c) })
		judgeC04(c, obs, o)
		rec.Check(rt, c, o)
	})
}

func TestC04Replay(t *testing.T) {
	rec := NewRecorder("C04", "TestC04Replay")
	defer rec.Finish(t)
	for _, f := range ReplayFiles("C04") {
		var c c04Case
		if err := LoadCase(f, &c); err != nil || c.Transport == "" {
			continue
		}
		o := &Outcome{}
		var obs *c04Obs
		if c.Real {
			obs = runC04Real(&c)
		} else {
			synctest.Test(t, func(t *testing.T) { obs = runC04Virtual(&c) })
		}
		judgeC04(&c, obs, o)
		rec.Eval(&c, o)
	}
}
