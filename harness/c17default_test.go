package harness

// C17 with the default registration callback (no Register configured: the server assigns the candidate node): bursts of
// clients reach registration at the same instant on different processors. Every client must be established under its own
// name, all announced addresses are distinct, and the handler of each session is told that session's own remote node.

import (
	"context"
	"fmt"
	"sync"
	"sync/atomic"
	"testing"
	"time"

	lime "github.com/takenet/lime-go"
)

type c17DefaultCase struct {
	Burst  int  `json:"burst"`
	Rounds int  `json:"rounds"`
	Build  bool `json:"builder"` // ServerBuilder (true) or NewServerConfig + NewServer
}

var c17DefSeq int64

func TestC17DefaultRegistration(t *testing.T) {
	rec := NewRecorder("C17", "TestC17DefaultRegistration")
	defer rec.Finish(t)
	for _, build := range []bool{true, false} {
		for _, burst := range []int{2, 8, 32} {
			c := &c17DefaultCase{Burst: burst, Rounds: Scale(40, 600), Build: build}
			rec.Journal(c)
			o := &Outcome{NonTrivial: true}
			o.Class(fmt.Sprintf("default-registration/burst=%d", burst))
			addr := lime.InProcessAddr(fmt.Sprintf("c17def-%d", atomic.AddInt64(&c17DefSeq, 1)))
			var mu sync.Mutex
			fails := map[string]string{}
			fail := func(k, d string) { mu.Lock(); fails[k] = d; mu.Unlock() }
			handler := func(ctx context.Context, m *lime.Message, _ lime.Sender) error {
				want := ""
				if td, ok := m.Content.(*lime.TextDocument); ok {
					want = string(*td)
				} else if td, ok := m.Content.(lime.TextDocument); ok {
					want = string(td)
				}
				if n, ok := lime.ContextSessionRemoteNode(ctx); !ok || n.Name != want {
					fail("handler-told-another-node", fmt.Sprintf("a message of the session of %s was handled with remote node %v in its context", want, n))
				}
				return nil
			}
			var srv *lime.Server
			if build {
				srv = lime.NewServerBuilder().Name("postmaster").Domain("example.org").Instance("s1").EnableGuestAuthentication().
					MessagesHandlerFunc(handler).ListenInProcess(addr).Build()
			} else {
				cfg := lime.NewServerConfig()
				cfg.SchemeOpts = []lime.AuthenticationScheme{lime.AuthenticationSchemeGuest}
				cfg.Authenticate = func(context.Context, lime.Identity, lime.Authentication) (*lime.AuthenticationResult, error) {
					return lime.MemberAuthenticationResult(), nil
				}
				mux := &lime.EnvelopeMux{}
				mux.MessageHandlerFunc(nil, handler)
				srv = lime.NewServer(cfg, mux, lime.NewBoundListener(lime.NewInProcessTransportListener(addr), addr))
			}
			done := make(chan error, 1)
			go func() { done <- srv.ListenAndServe() }()
			time.Sleep(20 * time.Millisecond)
			for r := 0; r < c.Rounds && len(fails) == 0; r++ {
				gate := make(chan struct{})
				var wg sync.WaitGroup
				names := make([]string, burst)
				got := make([]lime.Node, burst)
				chans := make([]*lime.ClientChannel, burst)
				for i := 0; i < burst; i++ {
					names[i] = lime.NewEnvelopeID()
					wg.Add(1)
					go func(i int) {
						defer wg.Done()
						tr, err := lime.DialInProcess(addr, 4)
						if err != nil {
							return
						}
						cc := lime.NewClientChannel(tr, 4)
						chans[i] = cc
						<-gate
						ctx, cancel := context.WithTimeout(context.Background(), 10*time.Second)
						defer cancel()
						ses, err := cc.EstablishSession(ctx, lime.NoneCompressionSelector, lime.NoneEncryptionSelector, lime.Identity{Name: names[i], Domain: "example.org"}, lime.GuestAuthenticator, "home")
						if err != nil || ses == nil || ses.State != lime.SessionStateEstablished {
							return
						}
						got[i] = cc.LocalNode()
						m := &lime.Message{}
						m.SetContent(lime.TextDocument(names[i]))
						_ = cc.SendMessage(ctx, m)
					}(i)
				}
				close(gate)
				wg.Wait()
				seen := map[string]int{}
				for i := 0; i < burst; i++ {
					if got[i].Name == "" {
						continue
					}
					if got[i].Name != names[i] {
						fail("established-under-another-name", fmt.Sprintf("round %d: the client that presented %s was established as %s", r, names[i], got[i]))
					}
					seen[got[i].String()]++
					if seen[got[i].String()] > 1 {
						fail("address-assigned-twice", fmt.Sprintf("round %d: %s was announced to two sessions", r, got[i]))
					}
				}
				time.Sleep(2 * time.Millisecond) // the messages are handled
				var cw sync.WaitGroup
				for _, cc := range chans {
					if cc != nil {
						cw.Add(1)
						go func(cc *lime.ClientChannel) { defer cw.Done(); _ = cc.Close() }(cc)
					}
				}
				cw.Wait()
			}
			_ = srv.Close()
			select {
			case <-done:
			case <-time.After(10 * time.Second):
			}
			for k, d := range fails {
				o.Fail("C17/default-registration/"+k, "%s", d)
			}
			rec.Eval(c, o)
		}
	}
}
