//go:build go1.25

package harness

import (
	"fmt"
	"strings"
	"testing"
	"testing/synctest"

	"pgregory.net/rapid"
)

// C10 applies when the configured encryption list excludes none and the connection can provide a configured option.
func c10Applies(cfg *SrvCfg) bool {
	_, c10 := NegotiationRequired(cfg)
	return c10 && cfg.Transport == "tcp-tls"
}

func judgeC10Script(c *SrvCase, obs *SrvObs, o *Outcome) {
	// credentials the peer pipelined in cleartext behind its choice of tls were never sent under TLS: accepting them is
	// accepting credentials over cleartext, whatever the transport reports by the time the callback runs
	judgeGluedCleartext(c, obs, o, "C10/cleartext-credentials-accepted")
	for _, e := range obs.Log {
		if e.Call == "auth" && e.Enc != "tls" {
			o.Fail("C10/auth-callback-in-cleartext", "Authenticate ran for scheme %q while the server transport encryption was %q (configured %v)", e.Scheme, e.Enc, c.Cfg.Enc)
		}
	}
	for _, g := range obs.Got {
		st, _ := g.Env["state"].(string)
		if !g.TLS && (st == "authenticating" || st == "established") {
			o.Fail("C10/"+st+"-in-cleartext", "the server emitted a %s session over the unencrypted connection (configured %v): %s", st, c.Cfg.Enc, short(g.Env))
		}
	}
	// independent of the peer's parser: the raw server->client capture
	clear, _ := clearPrefix([]byte(obs.Cleartext))
	for _, m := range clear {
		if st, _ := m["state"].(string); st == "authenticating" || st == "established" {
			o.Fail("C10/"+st+"-in-cleartext", "cleartext capture contains a %s session", st)
		}
	}
}

// c10WarmUp: an ordinary negotiation on another server channel of the same process, whose offer contains none and whose
// client chooses it. A server that does not offer cleartext stands next to servers that do; whatever one negotiation leaves
// behind in the process must not count for the next.
func c10WarmUpCase() *SrvCase {
	cfg := SrvCfg{Transport: "tcp-tls", Comp: []string{"none"}, Enc: []string{"none", "tls"}, Schemes: []string{"guest"}, Auth: standardAuth([]string{"guest"}), Register: "echo", Mode: "direct"}
	c := &SrvCase{Cfg: cfg, End: "eof", Script: []CSym{
		{Kind: "session", State: "new", ID: "none", From: peerFrom},
		{Kind: "session", State: "negotiating", ID: "sid", Comp: "none", Enc: "none", From: peerFrom},
	}}
	return c
}

func c10WarmUp(t *testing.T) {
	c := c10WarmUpCase()
	for i := 0; i < 3; i++ {
		synctest.Test(t, func(t *testing.T) { _ = RunServerScript(c) })
	}
}

func TestC10Enum(t *testing.T) {
	rec := NewRecorder("C10", "TestC10Enum")
	defer rec.Finish(t)
	sh, nsh := Shard()
	idx := 0
	for _, mode := range []string{"direct", "server"} {
		for si, schemes := range cfgLattice.Schemes {
			for ri, reg := range []string{"echo", "assign"} {
				// the three ways a TLS configuration can supply its certificate, spread over the configurations
				via := []string{"", "getcertificate", "getconfig"}[(si+ri)%3]
				// ... and the compression lists: the usual one, one with an option the transport lacks, one that shares nothing with the transport
				comp := [][]string{{"none"}, {"none", "gzip"}, {"gzip"}}[(si+2*ri)%3]
				// "every server option list without none": also the lists that name tls more than once
				enc := [][]string{{"tls"}, {"tls", "tls"}, {"tls"}, {"tls", "tls", "tls"}}[(2*si+ri)%4]
				cfg := SrvCfg{Transport: "tcp-tls", Comp: comp, Enc: enc, Schemes: schemes, Auth: standardAuth(schemes), Register: reg, Mode: mode, TLSVia: via}
				alpha := srvAlphabet(&cfg, false)
				// both branches: a client that expects negotiation and one that skips it
				for _, neg := range []bool{true, false} {
					enumScripts(cfg, alpha, Scale(3, 4), neg, func(c *SrvCase) {
						idx++
						if idx%nsh != sh {
							return
						}
						o := &Outcome{NonTrivial: true}
						o.Class("mode=" + mode)
						o.Class(fmt.Sprintf("enc-list-len=%d", len(enc)))
						if idx%3 == 0 {
							c.WarmUp = true
							c10WarmUp(t)
							o.Class("after-a-negotiation-of-none-elsewhere-in-the-process")
						}
						var obs *SrvObs
						rec.Journal(c)
						synctest.Test(t, func(t *testing.T) { obs = RunServerScript(c) })
						judgeC10Script(c, obs, o)
						if obs.PeerTLS {
							o.Class("peer-upgraded-to-tls")
						}
						for _, e := range obs.Log {
							if e.Call == "auth" {
								o.Class("auth-ran-under=" + e.Enc)
							}
						}
						rec.Eval(c, o)
					})
				}
				// a pipelining peer: each authenticating symbol in cleartext in the same write as the choice of tls
				first := CSym{Kind: "session", State: "new", ID: "none", From: peerFrom}
				choice := CSym{Kind: "session", State: "negotiating", ID: "sid", Comp: "none", Enc: "tls", DoTLS: true, From: peerFrom}
				for _, x := range alpha {
					if !(x.Kind == "session" && x.State == "authenticating" && x.ID == "sid" && decodableSym(&x)) {
						continue
					}
					idx++
					if idx%nsh != sh {
						continue
					}
					x.Glued = true
					c := &SrvCase{Cfg: cfg, Script: []CSym{first, choice, x}, End: "eof"}
					o := &Outcome{NonTrivial: true}
					o.Class("mode=" + mode)
					var obs *SrvObs
					rec.Journal(c)
					synctest.Test(t, func(t *testing.T) { obs = RunServerScript(c) })
					judgeC10Script(c, obs, o)
					rec.Eval(c, o)
				}
			}
		}
	}
	rec.Note("exhaustive", "true")
}

func judgeC10Pair(c *PairCase, obs *PairObs, o *Outcome) {
	for _, e := range obs.Log {
		if e.Call == "auth" && e.Enc != "tls" {
			o.Fail("C10/auth-callback-in-cleartext", "Authenticate ran while the server transport encryption was %q (configured %v, client selector %s)", e.Enc, c.Srv.Enc, c.CliEnc)
		}
	}
	for _, m := range obs.S2CClear {
		if st, _ := m["state"].(string); st == "authenticating" || st == "established" {
			o.Fail("C10/"+st+"-in-cleartext", "the server wrote a %s session in cleartext (client selector %s)", st, c.CliEnc)
		}
	}
	for _, m := range obs.C2SClear {
		if m["authentication"] != nil {
			o.Fail("C10/credentials-in-cleartext", "the client's credentials travelled in cleartext: %s", short(m))
		}
	}
	if obs.SrvState == "established" && obs.SrvEncFinal != "tls" {
		o.Fail("C10/established-in-cleartext", "session established with server transport encryption %q", obs.SrvEncFinal)
	}
}

func TestC10Pair(t *testing.T) {
	rec := NewRecorder("C10", "TestC10Pair")
	defer rec.Finish(t)
	for _, schemes := range cfgLattice.Schemes {
		for _, cliEnc := range []string{"none", "tls", "first", "default"} {
			for _, cliTLS := range []bool{true, false} {
				for si, sch := range schemes {
					for _, cred := range []string{"c1", "c2", "c3"} {
						if (sch == "guest" || sch == "transport") && cred != "c1" {
							continue
						}
						cr := cred
						if sch == "guest" || sch == "transport" {
							cr = ""
						}
						c := &PairCase{Srv: SrvCfg{Transport: "tcp-tls", Comp: []string{"none"}, Enc: [][]string{{"tls"}, {"tls", "tls"}}[(si+len(cred)/2)%2], Schemes: schemes,
							Auth: standardAuth(schemes), Register: []string{"echo", "assign"}[si%2], TLSVia: []string{"", "getcertificate", "getconfig"}[(si+len(cred))%3]},
							CliEnc: cliEnc, CliComp: "first", CliScheme: sch, CliCred: cr, CliTLS: cliTLS}
						o := &Outcome{NonTrivial: true}
						o.Class("client-selector=" + cliEnc)
						var obs *PairObs
						rec.Journal(c)
						synctest.Test(t, func(t *testing.T) { obs = RunPair(c) })
						judgeC10Pair(c, obs, o)
						o.Class("outcome=" + obs.SrvState + "/" + obs.SrvEncFinal)
						rec.Eval(c, o)
					}
				}
			}
		}
	}
	rec.Note("exhaustive", "true")
}

func TestC10(t *testing.T) {
	rec := NewRecorder("C10", "TestC10")
	rapid.Check(t, func(rt *rapid.T) {
		c := genSrvCase(rt, []string{"direct", "server"})
		c.Cfg.Transport = "tcp-tls"
		c.Cfg.Enc = rapid.SampledFrom([][]string{{"tls"}, {"tls"}, {"tls", "tls"}, {"tls", "tls", "tls"}}).Draw(rt, "encList")
		if rapid.IntRange(0, 3).Draw(rt, "compNothingShared") == 0 {
			c.Cfg.Comp = []string{"gzip"} // shares nothing with what the transport supports
		}
		o := &Outcome{NonTrivial: true}
		o.Class("comp=" + strings.Join(c.Cfg.Comp, "+"))
		o.Class("enc=" + strings.Join(c.Cfg.Enc, "+"))
		c.WarmUp = rapid.IntRange(0, 2).Draw(rt, "warmUp") == 0
		rec.Journal(c)
		if c.WarmUp {
			o.Class("after-a-negotiation-of-none-elsewhere-in-the-process")
			w := c10WarmUpCase()
			for i := 0; i < 3; i++ {
				rapid.SyncTest(rt, func(rt *rapid.T) { _ = RunServerScript(w) })
			}
		}
		var obs *SrvObs
		rapid.SyncTest(rt, func(rt *rapid.T) { obs = RunServerScript(c) })
		judgeC10Script(c, obs, o)
		o.Class(fmt.Sprintf("peer-tls=%v", obs.PeerTLS))
		o.Class("schemes=" + strings.Join(c.Cfg.Schemes, "+"))
		rec.Check(rt, c, o)
	})
}

func TestC10Replay(t *testing.T) {
	rec := NewRecorder("C10", "TestC10Replay")
	defer rec.Finish(t)
	for _, f := range ReplayFiles("C10") {
		var c SrvCase
		if err := LoadCase(f, &c); err == nil && len(c.Script) > 0 {
			o := &Outcome{NonTrivial: true}
			var obs *SrvObs
			synctest.Test(t, func(t *testing.T) { obs = RunServerScript(&c) })
			judgeC10Script(&c, obs, o)
			rec.Eval(&c, o)
			continue
		}
		var p PairCase
		if err := LoadCase(f, &p); err == nil && p.CliEnc != "" {
			o := &Outcome{NonTrivial: true}
			var obs *PairObs
			synctest.Test(t, func(t *testing.T) { obs = RunPair(&p) })
			judgeC10Pair(&p, obs, o)
			rec.Eval(&p, o)
		}
	}
}
