//go:build go1.25

package harness

// C08 through the high-level Client: the same server scripts, answered by Client.Establish (which builds the channel, runs
// the handshake and re-checks the returned state before it publishes the channel). No panic whatever the server says - also
// not on the Client's own goroutines: a crash of the process is attributed to the journalled case - and Establish reports
// success only when the server's last word was an established session.

import (
	"context"
	"errors"
	"strings"
	"sync"
	"testing"
	"testing/synctest"
	"time"

	lime "github.com/takenet/lime-go"
	"pgregory.net/rapid"
)

func runClientScriptViaClient(c *CliCase) *CliObs {
	obs := &CliObs{LastHS: -1}
	_, ccfg := TLSConfigs()
	var tcpCfg *lime.TCPConfig
	if c.CliTLS {
		tcpCfg = &lime.TCPConfig{TLSConfig: ccfg}
	}
	cl, sv := Pipe(PipeOpts{Capture: true})
	ct := lime.VerifNewTCPTransport(cl, tcpCfg, false)
	peer := NewRawPeer(sv)
	ctx, cancel := context.WithTimeout(context.Background(), handshakeTimeout)
	defer cancel()
	cfg := lime.NewClientConfig()
	cfg.Node = lime.Node{Identity: lime.Identity{Name: "alice", Domain: "cli.example"}, Instance: "home"}
	cfg.ChannelBufferSize = c.chanBuf()
	var dmu sync.Mutex
	dials := 0
	cfg.NewTransport = func(context.Context) (lime.Transport, error) {
		dmu.Lock()
		defer dmu.Unlock()
		dials++
		if dials == 1 {
			return ct, nil
		}
		if obs.AttemptOverAt == 0 {
			obs.AttemptOverAt = obs.SentN + 1 // the first attempt was given up after this many symbols had been sent (+1)
		}
		return nil, errors.New("connection refused") // one connection per case: the scripted server is gone afterwards
	}
	cfg.CompSelector = func(o []lime.SessionCompression) lime.SessionCompression {
		if c.CompSel == "first" && len(o) > 0 {
			return o[0]
		}
		return lime.SessionCompressionNone
	}
	cfg.EncryptSelector = func(o []lime.SessionEncryption) lime.SessionEncryption {
		switch c.EncSel {
		case "tls":
			return lime.SessionEncryptionTLS
		case "first":
			if len(o) > 0 {
				return o[0]
			}
		}
		return lime.SessionEncryptionNone
	}
	cfg.Authenticator = func(_ []lime.AuthenticationScheme, rt lime.Authentication) lime.Authentication {
		switch c.Auth {
		case "echo":
			if rt != nil {
				return rt
			}
			return &lime.PlainAuthentication{Password: "cw=="}
		case "plain", "key", "external", "transport", "guest":
			return (&AuthSpec{Scheme: c.Auth, A: "c2VjcmV0", B: "issuer"}).Auth()
		}
		return &lime.GuestAuthentication{}
	}
	client := lime.NewClient(cfg, &lime.EnvelopeMux{})
	done := make(chan struct{})
	go func() {
		defer close(done)
		obs.Panic = Protect(func() {
			if err := client.Establish(ctx); err != nil {
				obs.Err = err.Error()
			} else {
				obs.SesState = "established" // what a nil error claims
			}
		})
		obs.Returned = true
	}()
	returned := func() bool {
		select {
		case <-done:
			return true
		default:
			return false
		}
	}
	for i := range c.Script {
		synctest.Wait()
		peer.Drain()
		if returned() {
			if obs.LastHS < 0 {
				obs.LastHS = i - 1
			}
			if obs.Err != "" || obs.Panic != "" {
				break
			}
		}
		s := &c.Script[i]
		peer.Step = i + 1
		obs.SentN = i + 1
		if s.Kind == "garbage" {
			_ = peer.SendBytes([]byte("{\"state\":: }\n"))
		} else {
			_ = peer.SendEnv(s.env())
		}
		if s.DoTLS {
			_ = peer.StartTLSServer()
		}
	}
	synctest.Wait()
	peer.Drain()
	if returned() && obs.LastHS < 0 {
		obs.LastHS = obs.SentN - 1
	}
	peer.Raw.CloseWrite()
	synctest.Wait()
	time.Sleep(6 * time.Second)
	synctest.Wait()
	peer.Drain()
	<-done
	obs.Got = peer.Got
	cancel()
	closed := make(chan struct{})
	go func() { _ = Protect(func() { _ = client.Close() }); close(closed) }()
	select {
	case <-closed:
	case <-time.After(30 * time.Second):
		obs.CloseHangs = true
	}
	time.Sleep(6 * time.Second)
	synctest.Wait()
	// what the Client left behind after its Close: its end of the connection, and library goroutines
	obs.CliClosed = cl.Closed()
	if lib, _ := bubbleLeftovers(); len(lib) > 0 {
		obs.Leftover = truncate(strings.Join(lib, "\n--\n"), 4000)
	}
	peer.Close()
	if !cl.Closed() {
		_ = cl.Close()
	}
	time.Sleep(6 * time.Second)
	synctest.Wait()
	return obs
}

// clientViaClientInBubble runs one case in a bubble; library goroutines that never end keep the bubble from ending ("blocked
// goroutines remain"): that panic is absorbed when the observation already says so.
func clientViaClientInBubble(t *testing.T, c *CliCase) *CliObs {
	var obs *CliObs
	if p := Protect(func() { synctest.Test(t, func(t *testing.T) { obs = runClientScriptViaClient(c) }) }); p != "" {
		if obs == nil || obs.Leftover == "" || !strings.Contains(p, "blocked goroutines remain") {
			panic(p)
		}
	}
	return obs
}

func clientViaClientInBubbleRapid(rt *rapid.T, c *CliCase) *CliObs {
	var obs *CliObs
	if p := Protect(func() { rapid.SyncTest(rt, func(rt *rapid.T) { obs = runClientScriptViaClient(c) }) }); p != "" {
		if obs == nil || obs.Leftover == "" || !strings.Contains(p, "blocked goroutines remain") {
			panic(p)
		}
	}
	return obs
}

func judgeC08Client(c *CliCase, obs *CliObs, o *Outcome) {
	o.Class("via=Client")
	if obs.Panic != "" {
		o.Fail("C08/panic/client/"+panicClass(regressionClass(obs.Panic)), "Client.Establish panicked: %s", obs.Panic)
		return
	}
	if !obs.Returned {
		o.Fail("C08/never-returned/client", "Client.Establish did not return (context deadline %v)", handshakeTimeout)
		return
	}
	if obs.CloseHangs {
		o.Fail("C08/close-never-returns/client", "Client.Close did not return within 30 s after this handshake")
	}
	var last *SSym
	if obs.LastHS >= 0 && obs.LastHS < len(c.Script) {
		last = &c.Script[obs.LastHS]
	}
	if obs.Err == "" {
		o.Class("client-establish=ok")
		if last == nil || last.Kind != "session" || last.State != "established" {
			o.Fail("C08/established-not-last-word/client", "Client.Establish returned nil but the server's last word was %s", symText(last))
		}
	} else {
		o.Class("client-establish=error")
	}
	o.NonTrivial = len(c.Script) > 1
}

func TestC08Client(t *testing.T) {
	rec := NewRecorder("C08", "TestC08Client")
	alpha := cliAlphabet()
	rapid.Check(t, func(rt *rapid.T) {
		c := &CliCase{
			EncSel:  rapid.SampledFrom([]string{"none", "tls", "first"}).Draw(rt, "encSel"),
			CompSel: rapid.SampledFrom([]string{"none", "first"}).Draw(rt, "compSel"),
			Auth:    rapid.SampledFrom([]string{"guest", "plain", "key", "external", "transport", "echo"}).Draw(rt, "auth"),
			CliTLS:  rapid.Bool().Draw(rt, "cliTls"),
			End:     "eof",
			ChanBuf: rapid.SampledFrom([]int{0, 0, -1, 1}).Draw(rt, "chanBuf"),
		}
		n := rapid.IntRange(1, 6).Draw(rt, "len")
		for i := 0; i < n; i++ {
			s := rapid.SampledFrom(alpha).Draw(rt, "sym")
			if rapid.IntRange(0, 99).Draw(rt, "progress") < 50 {
				prog := typicalProgression(alpha)
				if i < len(prog) {
					s = alpha[prog[i]]
				}
			}
			c.Script = append(c.Script, s)
		}
		o := &Outcome{}
		rec.Journal(c)
		var obs *CliObs
		if p := Protect(func() { rapid.SyncTest(rt, func(rt *rapid.T) { obs = runClientScriptViaClient(c) }) }); p != "" {
			if obs == nil || obs.Leftover == "" || !strings.Contains(p, "blocked goroutines remain") {
				panic(p)
			}
		}
		judgeC08Client(c, obs, o)
		rec.Check(rt, c, o)
	})
}

// every script of up to two symbols (thorough: three) through the Client
func TestC08ClientEnum(t *testing.T) {
	rec := NewRecorder("C08", "TestC08ClientEnum")
	defer rec.Finish(t)
	sh, nsh := Shard()
	alpha := cliAlphabet()
	depth := Scale(2, 3)
	idx := 0
	var walk func(prefix []SSym)
	walk = func(prefix []SSym) {
		if len(prefix) > 0 {
			idx++
			if idx%nsh == sh {
				c := &CliCase{EncSel: "first", CompSel: "none", Auth: "guest", CliTLS: true, End: "eof", Script: append([]SSym(nil), prefix...)}
				o := &Outcome{}
				rec.Journal(c)
				var obs *CliObs
				obs = clientViaClientInBubble(t, c)
				judgeC08Client(c, obs, o)
				rec.Eval(c, o)
			}
		}
		if len(prefix) >= depth {
			return
		}
		for _, s := range alpha {
			walk(append(append([]SSym(nil), prefix...), s))
		}
	}
	walk(nil)
	rec.Note("exhaustive", "true")
}
