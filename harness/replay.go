package harness

import (
	"encoding/json"
	"os"
	"path/filepath"
	"sort"
	"strings"
)

// ReplayFiles lists the case files to replay for a property: VERIF_REPLAY (one file) if set, else
// the saved regression cases under regress/<property>/.
func ReplayFiles(property string) []string {
	if p := os.Getenv("VERIF_REPLAY"); p != "" {
		return []string{p}
	}
	dir := os.Getenv("VERIF_REGRESS")
	if dir == "" {
		dir = "regress"
	}
	m, _ := filepath.Glob(filepath.Join(dir, property, "*.json"))
	sort.Strings(m)
	return m
}

// LoadCase reads a replay file. Replay files are either the bare case or {"case": ..., ...}.
func LoadCase(path string, into interface{}) error {
	b, err := os.ReadFile(path)
	if err != nil {
		return err
	}
	var wrap struct {
		Case json.RawMessage `json:"case"`
	}
	if json.Unmarshal(b, &wrap) == nil && len(wrap.Case) > 0 && !strings.HasPrefix(strings.TrimSpace(string(wrap.Case)), "\"") {
		b = wrap.Case
	}
	return json.Unmarshal(b, into)
}

// CaseTest returns the "test" field of a replay file (which check function produced it), "" if absent.
func CaseTest(path string) string {
	b, err := os.ReadFile(path)
	if err != nil {
		return ""
	}
	var wrap struct {
		Test string `json:"test"`
	}
	_ = json.Unmarshal(b, &wrap)
	return wrap.Test
}
