package harness

// C02 on TCP transports that trace through the library's own stdout trace writer (what the examples configure): "decoding
// terminates with either an envelope or an error" - for every text a peer can put on the wire, also the ones that are valid
// JSON but no object, and the ones that are no JSON at all; and for every connection that shares the trace writer with the
// one that received such a text (a listener hands its one trace writer to every connection it accepts). Real time: the trace
// writer's goroutines live as long as the process. A Receive that has not returned 8 s after a context of 300 ms is one that
// does not terminate.

import (
	"context"
	"fmt"
	"os"
	"strings"
	"testing"
	"time"

	lime "github.com/takenet/lime-go"
	"pgregory.net/rapid"
)

type c02TraceStep struct {
	Conn int    `json:"conn"` // which of the connections that share the trace writer
	Text string `json:"text"` // one line put on the wire before the Receive
}

type c02TraceCase struct {
	Conns int            `json:"conns"`
	Steps []c02TraceStep `json:"steps"`
}

type c02TraceObs struct {
	Hung    int      `json:"hung"` // index of the first step whose Receive did not return (-1: none)
	Results []string `json:"results"`
	Note    string   `json:"note,omitempty"`
}

var c02TraceTexts = []string{
	`{"id":"m1","to":"bob@example.org","type":"text/plain","content":"hello"}`,
	`{"id":"n1","event":"received"}`,
	`{"id":"c1","method":"get","uri":"/ping"}`,
	`{"state":"new"}`,
	`{}`,
	`7`, `"x"`, `[]`, `[1,2]`, `true`, `null`, `-0.5e3`,
	`{"id":5}`,
	`{"id":"e1","event":"nope"}`,
	`{]`, `}{`, `{"id":`, `nul`, `{"id":"a" "to":"b"}`, "\x00\x01", `<html>`,
}

func c02TraceValidEnvelope(s string) bool {
	return strings.HasPrefix(s, `{"id":"m1"`) || strings.HasPrefix(s, `{"id":"n1"`) || strings.HasPrefix(s, `{"id":"c1"`) || s == `{"state":"new"}`
}

func c02TraceIsJSON(s string) bool {
	for _, bad := range []string{`{]`, `}{`, `{"id":`, `nul`, `{"id":"a" "to":"b"}`, "\x00\x01", `<html>`} {
		if s == bad {
			return false
		}
	}
	return true
}

func runC02Trace(c *c02TraceCase) *c02TraceObs {
	obs := &c02TraceObs{Hung: -1}
	tw := lime.NewStdoutTraceWriter()
	var trs []lime.Transport
	var peers []*FConn
	for i := 0; i < c.Conns; i++ {
		a, b := Pipe(PipeOpts{})
		trs = append(trs, lime.VerifNewTCPTransport(b, &lime.TCPConfig{TraceWriter: tw}, true))
		peers = append(peers, a)
	}
	defer func() {
		for i := range trs {
			_ = peers[i].Close()
			done := make(chan struct{})
			go func(t lime.Transport) { _ = t.Close(); close(done) }(trs[i])
			select {
			case <-done:
			case <-time.After(2 * time.Second):
			}
		}
	}()
	for i, st := range c.Steps {
		_, _ = peers[st.Conn].Write([]byte(st.Text + "\n"))
		type res struct {
			e   interface{}
			err error
		}
		ch := make(chan res, 1)
		go func(t lime.Transport) {
			ctx, cancel := context.WithTimeout(context.Background(), 300*time.Millisecond)
			defer cancel()
			var r res
			if p := Protect(func() { r.e, r.err = TReceive(ctx, t) }); p != "" {
				r.err = fmt.Errorf("panic: %s", p)
			}
			ch <- r
		}(trs[st.Conn])
		select {
		case r := <-ch:
			switch {
			case r.err != nil:
				obs.Results = append(obs.Results, "error")
			default:
				obs.Results = append(obs.Results, "envelope")
			}
		case <-time.After(8 * time.Second):
			obs.Hung = i
			return obs
		}
	}
	return obs
}

// muteStdout: what the stdout trace writer traces goes to the process's standard output, not to the check's. The trace
// goroutines print on their own time, so the whole test function runs with the output diverted.
func muteStdout() func() {
	devnull, err := os.OpenFile(os.DevNull, os.O_WRONLY, 0)
	if err != nil {
		return func() {}
	}
	saved := os.Stdout
	os.Stdout = devnull
	return func() {
		time.Sleep(100 * time.Millisecond)
		os.Stdout = saved
		_ = devnull.Close()
	}
}

func judgeC02Trace(c *c02TraceCase, obs *c02TraceObs, o *Outcome) {
	o.Class(fmt.Sprintf("connections-sharing-the-trace-writer=%d", c.Conns))
	if strings.HasPrefix(obs.Note, "skip:") {
		o.Class("skipped")
		return
	}
	nonObject, notJSON := false, false
	broken := map[int]bool{} // connections whose stream has held something that is no JSON: their decoder cannot go on
	for i, st := range c.Steps {
		if obs.Hung == i {
			what := "an envelope"
			switch {
			case !c02TraceIsJSON(st.Text):
				what = "a text that is no JSON"
			case !c02TraceValidEnvelope(st.Text):
				what = "a JSON value that is no envelope"
			}
			where := "own-stream-clean"
			if broken[st.Conn] {
				where = "own-stream-broken"
			}
			o.Fail("C02/traced/receive-does-not-terminate/"+where, "step %d: Receive on connection %d (handed %s: %q) had not returned 8 s after it was called with a context of 300 ms; before it: non-object JSON seen %v, non-JSON seen %v", i, st.Conn, what, st.Text, nonObject, notJSON)
			return
		}
		if i < len(obs.Results) && c02TraceValidEnvelope(st.Text) && !broken[st.Conn] && obs.Results[i] != "envelope" {
			o.Fail("C02/traced/envelope-refused-on-a-clean-stream", "step %d: connection %d was handed the envelope %q on a stream that had held nothing but JSON values, and Receive answered with an error", i, st.Conn, st.Text)
		}
		if !c02TraceIsJSON(st.Text) {
			notJSON = true
			broken[st.Conn] = true
		} else if !c02TraceValidEnvelope(st.Text) {
			nonObject = true
		}
	}
	o.NonTrivial = nonObject || notJSON
	if nonObject {
		o.Class("json-that-is-no-envelope-traced")
	}
	if notJSON {
		o.Class("non-json-traced")
	}
}

func TestC02TracedEnum(t *testing.T) {
	rec := NewRecorder("C02", "TestC02TracedEnum")
	defer rec.Finish(t)
	defer muteStdout()()
	env := c02TraceTexts[0]
	for _, x := range c02TraceTexts {
		// the text, then an envelope: on the same connection, and on one that shares the trace writer
		for _, other := range []int{0, 1} {
			c := &c02TraceCase{Conns: 2, Steps: []c02TraceStep{{0, env}, {1, env}, {0, x}, {other, env}, {1, c02TraceTexts[1]}}}
			o := &Outcome{}
			rec.Journal(c)
			judgeC02Trace(c, runC02Trace(c), o)
			rec.Eval(c, o)
		}
	}
	rec.Note("exhaustive", "true")
}

func TestC02Traced(t *testing.T) {
	rec := NewRecorder("C02", "TestC02Traced")
	defer muteStdout()()
	rapid.Check(t, func(rt *rapid.T) {
		c := &c02TraceCase{Conns: rapid.IntRange(1, 3).Draw(rt, "conns")}
		n := rapid.IntRange(1, 10).Draw(rt, "steps")
		for i := 0; i < n; i++ {
			c.Steps = append(c.Steps, c02TraceStep{Conn: rapid.IntRange(0, c.Conns-1).Draw(rt, "conn"), Text: rapid.SampledFrom(c02TraceTexts).Draw(rt, "text")})
		}
		o := &Outcome{}
		rec.Journal(c)
		judgeC02Trace(c, runC02Trace(c), o)
		rec.Check(rt, c, o)
	})
}
