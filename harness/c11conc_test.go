package harness

// C11 under concurrency: a server answers several sessions at once. Replies are built from requests and encoded by many
// goroutines at the same time, each with its own resource of the same size; every reply comes back from the wire with its own
// id, addressing, status and resource.

import (
	"encoding/json"
	"fmt"
	"strings"
	"sync"
	"testing"

	lime "github.com/takenet/lime-go"
)

func TestC11Concurrent(t *testing.T) {
	rec := NewRecorder("C11", "TestC11Concurrent")
	defer rec.Finish(t)
	workers, rounds := 16, Scale(1500, 20000)
	c := map[string]int{"workers": workers, "rounds": rounds}
	rec.Journal(c)
	o := &Outcome{NonTrivial: true}
	o.Class("concurrent-reply-encoding")
	var mu sync.Mutex
	fails := map[string]string{}
	var wg sync.WaitGroup
	for w := 0; w < workers; w++ {
		wg.Add(1)
		go func(w int) {
			defer wg.Done()
			for r := 0; r < rounds; r++ {
				req := &lime.RequestCommand{}
				req.ID = fmt.Sprintf("q-%02d-%06d", w, r)
				req.Method = lime.CommandMethodGet
				req.From = lime.Node{Identity: lime.Identity{Name: fmt.Sprintf("user%02d", w), Domain: "cli.example"}, Instance: "home"}
				req.To = srvNode
				req.SetURIString("/things")
				want := fmt.Sprintf("%02d-%06d-%s", w, r, strings.Repeat(string(rune('a'+w%26)), 40))
				var resp *lime.ResponseCommand
				switch r % 3 {
				case 0:
					resp = req.SuccessResponseWithResource(lime.TextDocument(want))
				case 1:
					j := lime.JsonDocument{"v": want}
					resp = req.SuccessResponseWithResource(&j)
				default:
					resp = req.FailureResponse(&lime.Reason{Code: 7, Description: want})
				}
				b, err := json.Marshal(resp)
				if err != nil {
					mu.Lock()
					fails["encode-error"] = fmt.Sprintf("reply to %s: %v", req.ID, err)
					mu.Unlock()
					continue
				}
				var back lime.ResponseCommand
				if err := json.Unmarshal(b, &back); err != nil {
					mu.Lock()
					fails["decode-error"] = fmt.Sprintf("reply to %s: %v | wire=%s", req.ID, err, truncate(string(b), 300))
					mu.Unlock()
					continue
				}
				got := ""
				switch x := back.Resource.(type) {
				case *lime.TextDocument:
					got = string(*x)
				case lime.TextDocument:
					got = string(x)
				case *lime.JsonDocument:
					got, _ = (*x)["v"].(string)
				}
				if back.Reason != nil {
					got = back.Reason.Description
				}
				if back.ID != req.ID || got != want || back.To != req.From {
					mu.Lock()
					fails["reply-carries-another-content"] = fmt.Sprintf("reply to %s (to %s) came back as id=%s to=%s content=%q, built with %q", req.ID, req.From, back.ID, back.To, got, want)
					mu.Unlock()
				}
			}
		}(w)
	}
	wg.Wait()
	for k, d := range fails {
		o.Fail("C11/concurrent/"+k, "%s", d)
	}
	rec.Eval(c, o)
}
