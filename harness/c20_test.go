//go:build go1.25

package harness

import (
	"context"
	"errors"
	"fmt"
	"strings"
	"sync"
	"testing"
	"testing/synctest"
	"time"

	lime "github.com/takenet/lime-go"
	"pgregory.net/rapid"
)

type c20Handler struct {
	Pred  string `json:"pred"`            // nil | true | false | table
	Table []bool `json:"table,omitempty"` // by envelope class 0..3
	Via   string `json:"via"`             // handler (interface value) | func (HandlerFunc) | catchall
	ErrAt int    `json:"errAt,omitempty"` // return an error at this invocation (1-based); 0 = never
	ErrIs string `json:"errIs,omitempty"` // what the error is: "" plain | ctx-deadline | ctx-canceled (from a context the handler derived itself)
}

type c20Env struct {
	Kind  string `json:"kind"` // message notification request response
	Class int    `json:"class"`
}

type c20Case struct {
	Tables    map[string][]c20Handler `json:"tables"`
	Inbound   []c20Env                `json:"inbound"`
	Mode      string                  `json:"mode"` // listen-server | listen-client | server
	Transport string                  `json:"transport"`
	// GaveUp: indexes of inbound response commands whose id the listening side had asked for before, with a ProcessCommand it
	// gave up on (its context ran out unanswered). The answer that comes later is an inbound response command like any other.
	GaveUp []int `json:"gaveUp,omitempty"`
}

type c20Inv struct {
	Kind    string `json:"kind"`
	Handler int    `json:"handler"`
	ID      string `json:"id"`
	Intact  bool   `json:"intact"`
	Err     bool   `json:"err,omitempty"`
}

type c20Obs struct {
	GivenUp    int      `json:"givenUp,omitempty"`
	Log        []c20Inv `json:"log"`
	ListenErr  string   `json:"listenErr,omitempty"`
	Returned   bool     `json:"returned"`
	PeerFinish string   `json:"peerFinish,omitempty"` // server mode: terminal session state seen by the client
	SendErrs   int      `json:"sendErrs"`
	Note       string   `json:"note,omitempty"`
}

var c20Kinds = []string{"message", "notification", "request", "response"}

func c20EnvID(i int, e c20Env) string { return fmt.Sprintf("%s-%d-c%d", e.Kind[:3], i, e.Class) }

func classOfID(id string) int {
	if i := strings.LastIndex(id, "-c"); i >= 0 {
		var c int
		fmt.Sscanf(id[i+2:], "%d", &c)
		return c
	}
	return 0
}

func (h *c20Handler) accepts(class int) bool {
	switch h.Pred {
	case "nil", "true":
		return true
	case "false":
		return false
	}
	if class < len(h.Table) {
		return h.Table[class]
	}
	return false
}

func c20Build(i int, e c20Env) interface{} {
	id := c20EnvID(i, e)
	switch e.Kind {
	case "message":
		m := &lime.Message{}
		m.ID = id
		m.SetContent(lime.TextDocument("payload " + id))
		return m
	case "notification":
		n := &lime.Notification{Event: lime.NotificationEventReceived}
		n.ID = id
		return n
	case "request":
		r := &lime.RequestCommand{}
		r.ID, r.Method = id, lime.CommandMethodGet
		r.SetURIString("/thing/" + id)
		return r
	default:
		r := &lime.ResponseCommand{Status: lime.CommandStatusSuccess}
		r.ID, r.Method = id, lime.CommandMethodGet
		return r
	}
}

type c20Recorder struct {
	mu    sync.Mutex
	log   []c20Inv
	calls map[string]int
	c     *c20Case
	sent  map[string]interface{}
}

func (r *c20Recorder) invoke(kind string, idx int, got interface{}) error {
	id := envID(got)
	r.mu.Lock()
	defer r.mu.Unlock()
	key := fmt.Sprintf("%s/%d", kind, idx)
	r.calls[key]++
	inv := c20Inv{Kind: kind, Handler: idx, ID: id}
	if want, ok := r.sent[id]; ok {
		inv.Intact = EqualEnvelopes(want, got) == ""
	}
	h := r.c.Tables[kind][idx]
	var err error
	if h.ErrAt > 0 && r.calls[key] == h.ErrAt {
		inv.Err = true
		switch h.ErrIs {
		case "ctx-deadline":
			// e.g. the handler called a backend under its own context.WithTimeout and that timed out
			err = fmt.Errorf("handler failure injected: backend call: %w", context.DeadlineExceeded)
		case "ctx-canceled":
			err = fmt.Errorf("handler failure injected: %w", context.Canceled)
		default:
			err = errors.New("handler failure injected")
		}
	}
	r.log = append(r.log, inv)
	return err
}

// explicit handler values (registered through the *Handler methods)
type msgH struct {
	r   *c20Recorder
	idx int
	h   *c20Handler
}

func (m *msgH) Match(e *lime.Message) bool { return m.h.accepts(classOfID(e.ID)) }
func (m *msgH) Handle(_ context.Context, e *lime.Message, _ lime.Sender) error {
	return m.r.invoke("message", m.idx, e)
}

type notH struct {
	r   *c20Recorder
	idx int
	h   *c20Handler
}

func (m *notH) Match(e *lime.Notification) bool { return m.h.accepts(classOfID(e.ID)) }
func (m *notH) Handle(_ context.Context, e *lime.Notification) error {
	return m.r.invoke("notification", m.idx, e)
}

type reqH struct {
	r   *c20Recorder
	idx int
	h   *c20Handler
}

func (m *reqH) Match(e *lime.RequestCommand) bool { return m.h.accepts(classOfID(e.ID)) }
func (m *reqH) Handle(_ context.Context, e *lime.RequestCommand, _ lime.Sender) error {
	return m.r.invoke("request", m.idx, e)
}

type respH struct {
	r   *c20Recorder
	idx int
	h   *c20Handler
}

func (m *respH) Match(e *lime.ResponseCommand) bool { return m.h.accepts(classOfID(e.ID)) }
func (m *respH) Handle(_ context.Context, e *lime.ResponseCommand, _ lime.Sender) error {
	return m.r.invoke("response", m.idx, e)
}

func c20Mux(c *c20Case, r *c20Recorder) *lime.EnvelopeMux {
	mux := &lime.EnvelopeMux{}
	for idx := range c.Tables["message"] {
		h, i := &c.Tables["message"][idx], idx
		if h.Via == "handler" {
			mux.MessageHandler(&msgH{r, i, h})
			continue
		}
		var p lime.MessagePredicate
		if h.Pred != "nil" {
			p = func(e *lime.Message) bool { return h.accepts(classOfID(e.ID)) }
		}
		mux.MessageHandlerFunc(p, func(_ context.Context, e *lime.Message, _ lime.Sender) error { return r.invoke("message", i, e) })
	}
	for idx := range c.Tables["notification"] {
		h, i := &c.Tables["notification"][idx], idx
		if h.Via == "handler" {
			mux.NotificationHandler(&notH{r, i, h})
			continue
		}
		var p lime.NotificationPredicate
		if h.Pred != "nil" {
			p = func(e *lime.Notification) bool { return h.accepts(classOfID(e.ID)) }
		}
		mux.NotificationHandlerFunc(p, func(_ context.Context, e *lime.Notification) error { return r.invoke("notification", i, e) })
	}
	for idx := range c.Tables["request"] {
		h, i := &c.Tables["request"][idx], idx
		if h.Via == "handler" {
			mux.RequestCommandHandler(&reqH{r, i, h})
			continue
		}
		var p lime.RequestCommandPredicate
		if h.Pred != "nil" {
			p = func(e *lime.RequestCommand) bool { return h.accepts(classOfID(e.ID)) }
		}
		mux.RequestCommandHandlerFunc(p, func(_ context.Context, e *lime.RequestCommand, _ lime.Sender) error { return r.invoke("request", i, e) })
	}
	for idx := range c.Tables["response"] {
		h, i := &c.Tables["response"][idx], idx
		if h.Via == "handler" {
			mux.ResponseCommandHandler(&respH{r, i, h})
			continue
		}
		var p lime.ResponseCommandPredicate
		if h.Pred != "nil" {
			p = func(e *lime.ResponseCommand) bool { return h.accepts(classOfID(e.ID)) }
		}
		mux.ResponseCommandHandlerFunc(p, func(_ context.Context, e *lime.ResponseCommand, _ lime.Sender) error {
			return r.invoke("response", i, e)
		})
	}
	return mux
}

func sendOn(ctx context.Context, s sender, e interface{}) error {
	switch v := e.(type) {
	case *lime.Message:
		return s.SendMessage(ctx, v)
	case *lime.Notification:
		return s.SendNotification(ctx, v)
	case *lime.RequestCommand:
		return s.SendRequestCommand(ctx, v)
	case *lime.ResponseCommand:
		return s.SendResponseCommand(ctx, v)
	}
	return errors.New("not a data envelope")
}

func runC20(c *c20Case) *c20Obs {
	obs := &c20Obs{}
	rec := &c20Recorder{calls: map[string]int{}, c: c, sent: map[string]interface{}{}}
	var built []interface{}
	for i, e := range c.Inbound {
		v := c20Build(i, e)
		built = append(built, v)
		rec.sent[c20EnvID(i, e)] = v
	}
	mux := c20Mux(c, rec)
	ctx, cancel := context.WithCancel(context.Background())
	defer cancel()
	listenDone := make(chan struct{})
	var from sender
	var cleanup func()
	var cc *lime.ClientChannel
	switch c.Mode {
	case "server":
		fl := NewFListener(nil, PipeOpts{})
		cfg := lime.NewServerConfig()
		cfg.Node = srvNode
		cfg.SchemeOpts = []lime.AuthenticationScheme{lime.AuthenticationSchemeGuest}
		cfg.EncryptOpts = []lime.SessionEncryption{lime.SessionEncryptionNone}
		cfg.ChannelBufferSize = 1
		srv := lime.NewServer(cfg, mux, lime.NewBoundListener(fl, FAddr))
		srvDone := make(chan error, 1)
		go func() { srvDone <- srv.ListenAndServe() }()
		synctest.Wait()
		tr, _, err := fl.DialTransport(nil)
		if err != nil {
			obs.Note = "harness: dial: " + err.Error()
			return obs
		}
		cc = lime.NewClientChannel(tr, 64)
		ectx, ec := context.WithTimeout(context.Background(), 20*time.Second)
		_, err = cc.EstablishSession(ectx, lime.NoneCompressionSelector, lime.NoneEncryptionSelector, lime.Identity{Name: "alice", Domain: "cli.example"}, lime.GuestAuthenticator, "home")
		ec()
		if err != nil || !cc.Established() {
			obs.Note = fmt.Sprintf("harness: establish: %v", err)
			_ = srv.Close()
			<-srvDone
			return obs
		}
		from = cc
		close(listenDone)
		cleanup = func() {
			_ = cc.Close()
			_ = srv.Close()
			<-srvDone
		}
	default:
		cch, sch, release := establishedChannels(c.Transport, 65536)
		if !cch.Established() || !sch.Established() {
			release()
			obs.Note = "harness: could not establish"
			return obs
		}
		cleanup = release
		go func() {
			defer close(listenDone)
			var err error
			if c.Mode == "listen-client" {
				err = mux.ListenClient(ctx, cch)
			} else {
				err = mux.ListenServer(ctx, sch)
			}
			obs.Returned = true
			if err != nil {
				obs.ListenErr = err.Error()
			}
		}()
		if c.Mode == "listen-client" {
			from = sch
		} else {
			from = cch
		}
		if len(c.GaveUp) > 0 {
			var asker sender = sch
			var asked <-chan *lime.RequestCommand = cch.ReqCmdChan()
			if c.Mode == "listen-client" {
				asker, asked = cch, sch.ReqCmdChan()
			}
			stop := make(chan struct{})
			drained := make(chan struct{})
			go func() {
				// the peer takes the requests and leaves them unanswered
				defer close(drained)
				for {
					select {
					case _, ok := <-asked:
						if !ok {
							return
						}
					case <-stop:
						return
					}
				}
			}()
			for _, g := range c.GaveUp {
				if g < 0 || g >= len(c.Inbound) || c.Inbound[g].Kind != "response" {
					continue
				}
				req := &lime.RequestCommand{}
				req.ID, req.Method = c20EnvID(g, c.Inbound[g]), lime.CommandMethodGet
				req.SetURIString("/late")
				pctx, pc := context.WithTimeout(context.Background(), 200*time.Millisecond)
				if resp, err := asker.ProcessCommand(pctx, req); err == nil {
					obs.Note = fmt.Sprintf("harness: a request nobody answers got the response %v", resp)
				} else {
					obs.GivenUp++
				}
				pc()
			}
			synctest.Wait()
			close(stop)
			<-drained
		}
	}
	for _, v := range built {
		sctx, sc := context.WithTimeout(context.Background(), 2*time.Second)
		if err := sendOn(sctx, from, v); err != nil {
			obs.SendErrs++
		}
		sc()
	}
	synctest.Wait()
	if c.Mode == "server" {
		// after a handler error the server finishes the session: the client sees the terminal session envelope
		rctx, rc := context.WithTimeout(context.Background(), 3*time.Second)
		select {
		case <-cc.RcvDone():
		case <-rctx.Done():
		}
		rc()
		obs.PeerFinish = string(cc.State())
	} else {
		select {
		case <-listenDone:
		default:
			cancel()
			<-listenDone
		}
	}
	rec.mu.Lock()
	obs.Log = append([]c20Inv(nil), rec.log...)
	rec.mu.Unlock()
	cleanup()
	time.Sleep(6 * time.Second)
	synctest.Wait()
	return obs
}

// model: expected invocations per kind, in order
func c20Model(c *c20Case) (map[string][]c20Inv, bool) {
	exp := map[string][]c20Inv{}
	calls := map[string]int{}
	errInjected := false
	for i, e := range c.Inbound {
		for idx := range c.Tables[e.Kind] {
			h := &c.Tables[e.Kind][idx]
			if !h.accepts(e.Class) {
				continue
			}
			key := fmt.Sprintf("%s/%d", e.Kind, idx)
			calls[key]++
			inv := c20Inv{Kind: e.Kind, Handler: idx, ID: c20EnvID(i, e)}
			if h.ErrAt > 0 && calls[key] == h.ErrAt {
				inv.Err = true
				errInjected = true
			}
			exp[e.Kind] = append(exp[e.Kind], inv)
			break
		}
	}
	return exp, errInjected
}

func judgeC20(c *c20Case, obs *c20Obs, o *Outcome) {
	o.Class("mode=" + c.Mode)
	if strings.HasPrefix(obs.Note, "harness:") {
		o.Fail("C20/harness", "%s", obs.Note)
		return
	}
	if obs.GivenUp > 0 {
		o.Class("responses-to-requests-given-up-on")
	}
	exp, _ := c20Model(c)
	// observed per kind
	got := map[string][]c20Inv{}
	errPos := -1
	for i, inv := range obs.Log {
		got[inv.Kind] = append(got[inv.Kind], inv)
		if inv.Err && errPos < 0 {
			errPos = i
		}
		if !inv.Intact {
			o.Fail("C20/envelope-not-as-received/"+inv.Kind, "handler %d of kind %s got envelope %q which differs from the one sent", inv.Handler, inv.Kind, inv.ID)
		}
	}
	skipFirst := false
	for _, k := range c20Kinds {
		if len(c.Tables[k]) >= 2 {
			for _, inv := range exp[k] {
				if inv.Handler > 0 {
					skipFirst = true
				}
			}
		}
	}
	o.NonTrivial = skipFirst
	if errPos >= 0 {
		o.Class("handler-error")
		if errPos != len(obs.Log)-1 {
			o.Fail("C20/dispatch-continued-after-handler-error", "%d invocation(s) after a handler returned an error: %v", len(obs.Log)-1-errPos, obs.Log[errPos+1:])
		}
		if c.Mode != "server" && !strings.Contains(obs.ListenErr, "handler failure injected") {
			o.Fail("C20/listen-did-not-return-handler-error", "Listen returned %q", obs.ListenErr)
		}
		if c.Mode == "server" && obs.PeerFinish != "finished" {
			o.Fail("C20/server-did-not-finish-after-handler-error", "client session state after the handler error: %s", obs.PeerFinish)
		}
	}
	for _, k := range c20Kinds {
		e, g := exp[k], got[k]
		// the observed log of a kind must be a prefix of the model's; complete unless an error stopped the loop
		for i := range g {
			if i >= len(e) {
				o.Fail("C20/unexpected-invocation/"+k, "kind %s: handler %d invoked for %q, the model expects no further invocation", k, g[i].Handler, g[i].ID)
				break
			}
			if g[i].ID != e[i].ID {
				which := "wrong-envelope-or-order"
				for _, x := range g[:i] {
					if x.ID == g[i].ID {
						which = "invoked-twice"
					}
				}
				o.Fail("C20/"+which+"/"+k, "kind %s invocation #%d: got envelope %q at handler %d, model expects %q at handler %d", k, i, g[i].ID, g[i].Handler, e[i].ID, e[i].Handler)
				break
			}
			if g[i].Handler != e[i].Handler {
				o.Fail("C20/not-first-matching-handler/"+k, "envelope %q went to handler %d, the earliest matching handler is %d", g[i].ID, g[i].Handler, e[i].Handler)
				break
			}
		}
		if errPos < 0 && len(g) < len(e) && obs.SendErrs == 0 {
			o.Fail("C20/missing-invocation/"+k, "kind %s: %d invocations, model expects %d (first missing: %q at handler %d); no handler failed", k, len(g), len(e), e[len(g)].ID, e[len(g)].Handler)
		}
	}
}

func genC20Handler(rt *rapid.T, allowErr bool) c20Handler {
	h := c20Handler{
		Pred: rapid.SampledFrom([]string{"nil", "true", "false", "table", "table", "table"}).Draw(rt, "pred"),
		Via:  rapid.SampledFrom([]string{"handler", "func", "func"}).Draw(rt, "via"),
	}
	if h.Pred == "table" {
		h.Table = rapid.SliceOfN(rapid.Bool(), 4, 4).Draw(rt, "table")
	}
	if h.Pred == "nil" {
		h.Via = "func"
	}
	if allowErr && rapid.IntRange(0, 9).Draw(rt, "err?") == 0 {
		h.ErrAt = rapid.IntRange(1, 4).Draw(rt, "errAt")
		h.ErrIs = rapid.SampledFrom([]string{"", "", "ctx-deadline", "ctx-canceled"}).Draw(rt, "errIs")
	}
	return h
}

func genC20(rt *rapid.T) *c20Case {
	c := &c20Case{Tables: map[string][]c20Handler{},
		Mode:      rapid.SampledFrom([]string{"listen-server", "listen-server", "listen-client", "server"}).Draw(rt, "mode"),
		Transport: rapid.SampledFrom([]string{"inproc", "tcp"}).Draw(rt, "transport")}
	allowErr := rapid.IntRange(0, 2).Draw(rt, "errs") == 0
	for _, k := range c20Kinds {
		n := rapid.IntRange(0, 6).Draw(rt, "n"+k)
		for i := 0; i < n; i++ {
			c.Tables[k] = append(c.Tables[k], genC20Handler(rt, allowErr))
		}
		// a catch-all at a drawn position
		if n > 0 && rapid.IntRange(0, 3).Draw(rt, "catchall?") == 0 {
			pos := rapid.IntRange(0, n-1).Draw(rt, "pos")
			c.Tables[k][pos] = c20Handler{Pred: "true", Via: "func"}
		}
	}
	n := rapid.IntRange(1, 60).Draw(rt, "inbound")
	for i := 0; i < n; i++ {
		c.Inbound = append(c.Inbound, c20Env{Kind: rapid.SampledFrom(c20Kinds).Draw(rt, "kind"), Class: rapid.IntRange(0, 3).Draw(rt, "class")})
	}
	if c.Mode != "server" && rapid.IntRange(0, 2).Draw(rt, "gaveUp?") == 0 {
		for i, e := range c.Inbound {
			if e.Kind == "response" && len(c.GaveUp) < 3 && rapid.Bool().Draw(rt, "gaveUp") {
				c.GaveUp = append(c.GaveUp, i)
			}
		}
	}
	return c
}

func TestC20(t *testing.T) {
	rec := NewRecorder("C20", "TestC20")
	rapid.Check(t, func(rt *rapid.T) {
		c := genC20(rt)
		o := &Outcome{}
		var obs *c20Obs
		rec.Journal(c)
		rapid.SyncTest(rt, func(rt *rapid.T) { obs = runC20(c) })
		judgeC20(c, obs, o)
		rec.Check(rt, c, o)
	})
}

// TestC20Tables: all tables of up to 3 handlers over a 2-class alphabet for one kind, every inbound sequence of length 2.
func TestC20Tables(t *testing.T) {
	rec := NewRecorder("C20", "TestC20Tables")
	defer rec.Finish(t)
	sh, nsh := Shard()
	preds := []c20Handler{
		{Pred: "nil", Via: "func"}, {Pred: "true", Via: "handler"}, {Pred: "false", Via: "func"},
		{Pred: "table", Table: []bool{true, false}, Via: "handler"}, {Pred: "table", Table: []bool{false, true}, Via: "func"},
	}
	idx := 0
	var tables [][]c20Handler
	tables = append(tables, nil)
	for _, a := range preds {
		tables = append(tables, []c20Handler{a})
		for _, b := range preds {
			tables = append(tables, []c20Handler{a, b})
			for _, c3 := range preds {
				tables = append(tables, []c20Handler{a, b, c3})
			}
		}
	}
	for ki, kind := range c20Kinds {
		for ti, tb := range tables {
			for _, errAt := range []int{0, 1, 2, 3} {
				if errAt >= 1 && len(tb) == 0 {
					continue
				}
				idx++
				if idx%nsh != sh {
					continue
				}
				tbl := append([]c20Handler(nil), tb...)
				if errAt >= 1 {
					tbl[len(tbl)-1].ErrAt = 1
					tbl[len(tbl)-1].ErrIs = []string{"", "", "ctx-deadline", "ctx-canceled"}[errAt]
				}
				c := &c20Case{Tables: map[string][]c20Handler{kind: tbl}, Mode: []string{"listen-server", "listen-client", "server"}[(ti+ki)%3], Transport: []string{"inproc", "tcp"}[ti%2]}
				for _, s := range [][2]int{{0, 1}, {1, 0}, {0, 0}, {1, 1}} {
					c.Inbound = append(c.Inbound, c20Env{Kind: kind, Class: s[0]}, c20Env{Kind: c20Kinds[(ki+1)%4], Class: s[1]}, c20Env{Kind: kind, Class: s[1]})
				}
				if c.Mode != "server" && ti%3 == 0 {
					// some of the response commands answer requests the listening side gave up on
					for i, e := range c.Inbound {
						if e.Kind == "response" && i%2 == 0 && len(c.GaveUp) < 3 {
							c.GaveUp = append(c.GaveUp, i)
						}
					}
				}
				o := &Outcome{}
				var obs *c20Obs
				rec.Journal(c)
				synctest.Test(t, func(t *testing.T) { obs = runC20(c) })
				judgeC20(c, obs, o)
				rec.Eval(c, o)
			}
		}
	}
	rec.Note("exhaustive", "true")
}

func TestC20Replay(t *testing.T) {
	rec := NewRecorder("C20", "TestC20Replay")
	defer rec.Finish(t)
	for _, f := range ReplayFiles("C20") {
		var c c20Case
		if err := LoadCase(f, &c); err != nil || len(c.Inbound) == 0 {
			continue
		}
		o := &Outcome{}
		var obs *c20Obs
		synctest.Test(t, func(t *testing.T) { obs = runC20(&c) })
		judgeC20(&c, obs, o)
		rec.Eval(&c, o)
	}
}
