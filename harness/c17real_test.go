package harness

import (
	"context"
	"fmt"
	"net"
	"sync"
	"testing"
	"time"

	lime "github.com/takenet/lime-go"
	"pgregory.net/rapid"
)

var inprocDialMu sync.Mutex

// dialSerialised protects the library's unsynchronised in-process listener registry (no listed property is about it).
func dialSerialised(dial func(kind string, idx int) (lime.Transport, error)) func(kind string, idx int) (lime.Transport, error) {
	return func(kind string, idx int) (lime.Transport, error) {
		if kind == "inproc" {
			inprocDialMu.Lock()
			defer inprocDialMu.Unlock()
		}
		return dial(kind, idx)
	}
}

var c17Seq int

func runC17Real(c *c17Case) *c17Obs {
	obs := &c17Obs{}
	srv := newC17Server(c.ChanBuf)
	tcpPort, err1 := FreePort()
	wsPort, err2 := FreePort()
	if err1 != nil || err2 != nil {
		obs.Note = "skip: no loopback ports"
		return obs
	}
	inprocDialMu.Lock()
	c17Seq++
	addr := lime.InProcessAddr(fmt.Sprintf("c17-real-%d", c17Seq))
	inprocDialMu.Unlock()
	tcpAddr := &net.TCPAddr{IP: net.IPv4(127, 0, 0, 1), Port: tcpPort}
	wsAddr := &net.TCPAddr{IP: net.IPv4(127, 0, 0, 1), Port: wsPort}
	server := lime.NewServer(srv.cfg, srv.mux,
		lime.NewBoundListener(lime.NewTCPTransportListener(&lime.TCPConfig{ConnBuffer: 32}), tcpAddr),
		lime.NewBoundListener(lime.NewWebsocketTransportListener(&lime.WebsocketConfig{ConnBuffer: 32}), wsAddr),
		lime.NewBoundListener(lime.NewInProcessTransportListener(addr), addr))
	done := make(chan error, 1)
	inprocDialMu.Lock() // Listen writes the registry
	go func() { done <- server.ListenAndServe() }()
	time.Sleep(30 * time.Millisecond)
	inprocDialMu.Unlock()
	dial := func(kind string, idx int) (lime.Transport, error) {
		var t lime.Transport
		var err error
		for i := 0; i < 50; i++ {
			ctx, cancel := context.WithTimeout(context.Background(), 2*time.Second)
			switch kind {
			case "inproc":
				t, err = lime.DialInProcess(addr, 2)
			case "tcp":
				t, err = lime.DialTcp(ctx, tcpAddr, nil)
			default:
				t, err = lime.DialWebsocket(ctx, fmt.Sprintf("ws://127.0.0.1:%d", wsPort), nil, nil)
			}
			cancel()
			if err == nil {
				return t, nil
			}
			time.Sleep(20 * time.Millisecond)
		}
		return nil, err
	}
	runs := c17RunClients(c, dialSerialised(dial), obs)
	if obs.Note == "" {
		wantHandled, wantReplies := c17Expected(c)
		deadline := time.Now().Add(20 * time.Second)
		for time.Now().Before(deadline) {
			srv.mu.Lock()
			h := len(srv.handled)
			srv.mu.Unlock()
			r := 0
			for _, run := range runs {
				run.mu.Lock()
				r += len(run.replies)
				run.mu.Unlock()
			}
			if h >= wantHandled && r >= wantReplies {
				break
			}
			time.Sleep(5 * time.Millisecond)
		}
		time.Sleep(100 * time.Millisecond)
		if c.Broadcast {
			c17Broadcast(srv)
			deadline = time.Now().Add(10 * time.Second)
			for time.Now().Before(deadline) {
				got := 0
				for _, run := range runs {
					run.mu.Lock()
					got += len(run.pushed)
					run.mu.Unlock()
				}
				if got >= 2*len(runs) {
					break
				}
				time.Sleep(5 * time.Millisecond)
			}
		}
	}
	c17Collect(c, srv, runs, obs)
	// the server finishes every session first (the clients' receivers then end at once), clients close concurrently
	inprocDialMu.Lock()
	_ = server.Close()
	inprocDialMu.Unlock()
	select {
	case <-done:
	case <-time.After(10 * time.Second):
	}
	var wg sync.WaitGroup
	for _, r := range runs {
		if r != nil && r.ch != nil {
			wg.Add(1)
			go func(ch *lime.ClientChannel) { defer wg.Done(); _ = ch.Close() }(r.ch)
		}
	}
	wg.Wait()
	return obs
}

func TestC17Real(t *testing.T) {
	rec := NewRecorder("C17", "TestC17Real")
	rapid.Check(t, func(rt *rapid.T) {
		c := &c17Case{Real: true, ChanBuf: rapid.SampledFrom([]int{1, 4, 32}).Draw(rt, "chanBuf")}
		n := rapid.IntRange(2, 12).Draw(rt, "clients")
		for i := 0; i < n; i++ {
			cl := c17Client{Transport: rapid.SampledFrom([]string{"inproc", "tcp", "ws"}).Draw(rt, "transport")}
			k := rapid.IntRange(1, 15).Draw(rt, "nops")
			for j := 0; j < k; j++ {
				cl.Ops = append(cl.Ops, rapid.SampledFrom([]string{"m", "m", "q", "n", "M", "Q", "N"}).Draw(rt, "op"))
			}
			c.Clients = append(c.Clients, cl)
		}
		o := &Outcome{}
		rec.Journal(c)
		obs := runC17Real(c)
		judgeC17(c, obs, o)
		rec.Check(rt, c, o)
	})
}
