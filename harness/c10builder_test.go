package harness

// C10 through the ServerBuilder entry point, over the library's loopback TCP listener with a TLS configuration:
// EncryptionOptions(TLS) is what the documentation names. A raw peer that never upgrades must not be asked for credentials, have
// them accepted or be established - also while other builders of the same process are being configured with other options,
// before or after this server was built.

import (
	"bufio"
	"context"
	"encoding/json"
	"fmt"
	"net"
	"strings"
	"testing"
	"time"

	lime "github.com/takenet/lime-go"
	"pgregory.net/rapid"
)

type c10BuilderCase struct {
	Comp        []string `json:"comp,omitempty"` // CompressionOptions of the server under test ("" list = not called)
	OtherBefore bool     `json:"otherBefore"`    // another builder is configured with none / other compressions before this one
	OtherAfter  bool     `json:"otherAfter"`     // ... after this one was built and is serving
	PeerChoice  string   `json:"peerChoice"`     // what the raw peer answers to the options: none | tls-no-handshake | skip (goes straight to authenticating)
	Scheme      string   `json:"scheme"`         // plain | guest
}

type c10BuilderObs struct {
	Note      string   `json:"note,omitempty"`
	States    []string `json:"states"`              // session states the server sent in cleartext, in order
	OfferEnc  []string `json:"offerEnc,omitempty"`  // encryptionOptions of the server's first negotiating envelope
	OfferComp []string `json:"offerComp,omitempty"` // compressionOptions of it
	Offered   bool     `json:"offered,omitempty"`
	AuthN     int      `json:"authCalls"`
	EstN      int      `json:"established"`
}

func configureOther() {
	b := lime.NewServerBuilder().Name("other").Domain("other.example")
	b = b.EncryptionOptions(lime.SessionEncryptionNone).CompressionOptions(lime.SessionCompressionNone).EnableGuestAuthentication()
	_ = b
}

func runC10Builder(c *c10BuilderCase) *c10BuilderObs {
	obs := &c10BuilderObs{}
	port, err := FreePort()
	if err != nil {
		obs.Note = "skip: " + err.Error()
		return obs
	}
	addr := &net.TCPAddr{IP: net.IPv4(127, 0, 0, 1), Port: port}
	scfg, _ := TLSConfigs()
	if c.OtherBefore {
		configureOther()
	}
	auths, ests := make(chan struct{}, 16), make(chan struct{}, 16)
	b := lime.NewServerBuilder().Name("postmaster").Domain("srv.example").Instance("s1").
		EncryptionOptions(lime.SessionEncryptionTLS).
		ListenTCP(addr, &lime.TCPConfig{TLSConfig: scfg}).
		Established(func(string, *lime.ServerChannel) { ests <- struct{}{} })
	if len(c.Comp) > 0 {
		var cs []lime.SessionCompression
		for _, x := range c.Comp {
			cs = append(cs, lime.SessionCompression(x))
		}
		b = b.CompressionOptions(cs...)
	}
	if c.Scheme == "guest" {
		b = b.EnableGuestAuthentication()
	} else {
		b = b.EnablePlainAuthentication(func(context.Context, lime.Identity, string) (*lime.AuthenticationResult, error) {
			auths <- struct{}{}
			return lime.MemberAuthenticationResult(), nil
		})
	}
	srv := b.Build()
	done := make(chan error, 1)
	go func() { done <- srv.ListenAndServe() }()
	defer func() {
		_ = srv.Close()
		select {
		case <-done:
		case <-time.After(5 * time.Second):
		}
	}()
	var cn net.Conn
	for i := 0; i < 100; i++ {
		if cn, err = net.DialTimeout("tcp", addr.String(), 200*time.Millisecond); err == nil {
			break
		}
		time.Sleep(10 * time.Millisecond)
	}
	if err != nil {
		obs.Note = "skip: dial: " + err.Error()
		return obs
	}
	defer cn.Close()
	if c.OtherAfter {
		configureOther()
	}
	rd := bufio.NewReader(cn)
	read := func() map[string]interface{} {
		_ = cn.SetReadDeadline(time.Now().Add(1500 * time.Millisecond))
		line, err := rd.ReadBytes('\n')
		if err != nil {
			return nil
		}
		var m map[string]interface{}
		if json.Unmarshal(line, &m) != nil {
			return nil
		}
		if st, _ := m["state"].(string); st != "" {
			obs.States = append(obs.States, st)
		}
		return m
	}
	send := func(s string) { _, _ = cn.Write([]byte(s + "\n")) }
	send(`{"state":"new"}`)
	m := read()
	sid, _ := m["id"].(string)
	if st, _ := m["state"].(string); st == "negotiating" {
		obs.Offered = true
		for _, x := range asStrings(m["encryptionOptions"]) {
			obs.OfferEnc = append(obs.OfferEnc, x)
		}
		for _, x := range asStrings(m["compressionOptions"]) {
			obs.OfferComp = append(obs.OfferComp, x)
		}
	}
	name := "alice"
	auth := `"scheme":"plain","authentication":{"password":"c2VjcmV0"}`
	if c.Scheme == "guest" {
		name = lime.NewEnvelopeID()
		auth = `"scheme":"guest","authentication":{}`
	}
	authEnv := fmt.Sprintf(`{"id":%q,"from":"%s@cli.example/home","state":"authenticating",%s}`, sid, name, auth)
	switch c.PeerChoice {
	case "none":
		send(fmt.Sprintf(`{"id":%q,"state":"negotiating","compression":"none","encryption":"none"}`, sid))
		read()
		send(authEnv)
		read()
	case "tls-no-handshake":
		send(fmt.Sprintf(`{"id":%q,"state":"negotiating","compression":"none","encryption":"tls"}`, sid))
		read()
		send(authEnv) // cleartext where the TLS client hello should be
		read()
	default:
		send(authEnv)
		read()
		read()
	}
	time.Sleep(50 * time.Millisecond)
	obs.AuthN, obs.EstN = len(auths), len(ests)
	return obs
}

func judgeC10Builder(c *c10BuilderCase, obs *c10BuilderObs, o *Outcome) {
	o.Class("builder-entry-point/loopback")
	o.Class("peer=" + c.PeerChoice)
	if c.OtherBefore || c.OtherAfter {
		o.Class("other-builders-configured")
	}
	if strings.HasPrefix(obs.Note, "skip") {
		o.Class("skipped")
		return
	}
	o.NonTrivial = true
	for _, st := range obs.States {
		if st == "authenticating" || st == "established" {
			o.Fail("C10/builder/"+st+"-in-cleartext", "a server built with EncryptionOptions(TLS) sent a %s session over the unencrypted connection (states seen in cleartext: %v)", st, obs.States)
		}
	}
	if obs.AuthN > 0 {
		o.Fail("C10/builder/credentials-accepted-in-cleartext", "the application's authenticator ran %d time(s) for a peer that never upgraded", obs.AuthN)
	}
	if obs.EstN > 0 {
		o.Fail("C10/builder/established-in-cleartext", "the Established callback fired for a peer that never upgraded")
	}
}

func TestC10Builder(t *testing.T) {
	rec := NewRecorder("C10", "TestC10Builder")
	rapid.Check(t, func(rt *rapid.T) {
		c := &c10BuilderCase{
			Comp:        rapid.SampledFrom([][]string{nil, {"none"}, {"none", "gzip"}, {"gzip"}}).Draw(rt, "comp"),
			OtherBefore: rapid.Bool().Draw(rt, "otherBefore"),
			OtherAfter:  rapid.Bool().Draw(rt, "otherAfter"),
			PeerChoice:  rapid.SampledFrom([]string{"none", "tls-no-handshake", "skip"}).Draw(rt, "peer"),
			Scheme:      rapid.SampledFrom([]string{"plain", "guest"}).Draw(rt, "scheme"),
		}
		o := &Outcome{}
		judgeC10Builder(c, runC10Builder(c), o)
		rec.Check(rt, c, o)
	})
}

func asStrings(v interface{}) []string {
	l, _ := v.([]interface{})
	var out []string
	for _, x := range l {
		if t, ok := x.(string); ok {
			out = append(out, t)
		}
	}
	return out
}

// TestC09Builder: the same builder-built server, judged on what it offers: exactly the configured options the transport
// supports - EncryptionOptions(TLS) means tls and nothing else, whatever the defaults were and whatever other builders do.
func TestC09Builder(t *testing.T) {
	rec := NewRecorder("C09", "TestC09Builder")
	rapid.Check(t, func(rt *rapid.T) {
		c := &c10BuilderCase{
			Comp:        rapid.SampledFrom([][]string{nil, {"none"}, {"none", "gzip"}}).Draw(rt, "comp"),
			OtherBefore: rapid.Bool().Draw(rt, "otherBefore"),
			OtherAfter:  rapid.Bool().Draw(rt, "otherAfter"),
			PeerChoice:  rapid.SampledFrom([]string{"none", "tls-no-handshake"}).Draw(rt, "peer"),
			Scheme:      "guest",
		}
		obs := runC10Builder(c)
		o := &Outcome{}
		o.Class("builder-entry-point/offer")
		switch {
		case strings.HasPrefix(obs.Note, "skip"):
			o.Class("skipped")
		case !obs.Offered:
			o.Fail("C09/builder/no-offer", "a server built with EncryptionOptions(TLS) on a TLS-capable TCP listener did not start with its negotiation options (states %v)", obs.States)
		default:
			o.NonTrivial = true
			if len(obs.OfferEnc) != 1 || obs.OfferEnc[0] != "tls" {
				o.Fail("C09/builder/offer-not-the-configured-list", "configured EncryptionOptions(TLS), offered %v", obs.OfferEnc)
			}
			if len(obs.OfferComp) != 1 || obs.OfferComp[0] != "none" {
				o.Fail("C09/builder/compression-offer", "configured compression %v on a transport that supports none only, offered %v", c.Comp, obs.OfferComp)
			}
		}
		rec.Check(rt, c, o)
	})
}
