package harness

import "regexp"

func regexpMustCompile(s string) *regexp.Regexp { return regexp.MustCompile(s) }

func jsonUnmarshal(s string, into interface{}) error { return jsonUnmarshalBytes([]byte(s), into) }
