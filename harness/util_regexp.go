package harness

import "regexp"

func regexpMustCompile(s string) *regexp.Regexp { return regexp.MustCompile(s) }
