//go:build go1.25

package harness

// C13 over real TCP sockets with a backlog towards the client: the server ends the session while megabytes it has already
// sent are still on their way to a client that consumes slowly (and sends nothing itself, so nothing unread waits at the
// server). "The peer, as long as it keeps consuming its inbound streams, observes the terminal session envelope": the client
// receives everything that was sent before the end, then the terminal session. What decides is what the client's receiver
// ended with - a time budget that runs out without that decides nothing.

import (
	"context"
	"fmt"
	"net"
	"strings"
	"testing"
	"time"

	lime "github.com/takenet/lime-go"
)

type c13BacklogCase struct {
	Kind      string `json:"kind"`      // tcp | tcp-tls
	Initiator string `json:"initiator"` // server-finish | server-fail
	Messages  int    `json:"messages"`
	PadKB     int    `json:"padKB"`
	LagMs     int    `json:"lagMs"` // the client starts consuming this late, and pauses that long every 64 messages
}

type c13BacklogObs struct {
	Note     string `json:"note,omitempty"`
	Got      int    `json:"got"`
	Sent     int    `json:"sent"`
	CliState string `json:"cliState"`
	RcvDone  bool   `json:"rcvDone"`
	TimedOut bool   `json:"timedOut"`
	TermErr  string `json:"termErr,omitempty"`
	Reset    bool   `json:"resetLogged"`
}

func runC13Backlog(c *c13BacklogCase) *c13BacklogObs {
	obs := &c13BacklogObs{}
	srv := newC13Server(4, false)
	port, err := FreePort()
	if err != nil {
		obs.Note = "skip: " + err.Error()
		return obs
	}
	addr := &net.TCPAddr{IP: net.IPv4(127, 0, 0, 1), Port: port}
	scfg, ccfg := TLSConfigs()
	server := lime.NewServer(srv.cfg, srv.mux, lime.NewBoundListener(lime.NewTCPTransportListener(&lime.TCPConfig{TLSConfig: scfg, ConnBuffer: 8}), addr))
	done := make(chan error, 1)
	go func() { done <- server.ListenAndServe() }()
	defer func() {
		_ = server.Close()
		select {
		case <-done:
		case <-time.After(10 * time.Second):
		}
	}()
	ctx, cancel := context.WithTimeout(context.Background(), 10*time.Second)
	defer cancel()
	// the client's socket takes little (64 KiB): most of what the server sends waits in the server's socket
	var raw net.Conn
	for i := 0; i < 50; i++ {
		if raw, err = net.DialTimeout("tcp", addr.String(), time.Second); err == nil {
			break
		}
		time.Sleep(20 * time.Millisecond)
	}
	if err != nil {
		obs.Note = "skip: dial: " + err.Error()
		return obs
	}
	if tc, ok := raw.(*net.TCPConn); ok {
		_ = tc.SetReadBuffer(64 << 10)
	}
	ct := lime.VerifNewTCPTransport(raw, &lime.TCPConfig{TLSConfig: ccfg}, false)
	cc := lime.NewClientChannel(ct, 1)
	defer func() { _ = cc.Close() }()
	encSel := lime.NoneEncryptionSelector
	if c.Kind == "tcp-tls" {
		encSel = lime.TLSEncryptionSelector
	}
	if _, err := cc.EstablishSession(ctx, lime.NoneCompressionSelector, encSel, lime.Identity{Name: "alice", Domain: "cli.example"}, lime.GuestAuthenticator, "home"); err != nil {
		obs.Note = "skip: establish: " + err.Error()
		return obs
	}
	var sc *lime.ServerChannel
	select {
	case sc = <-srv.estCh:
	case <-ctx.Done():
		obs.Note = "skip: the server never reported the session"
		return obs
	}
	resets := LibResets()
	// the client: consumes everything, slowly
	got := make(chan int, 1)
	termDone := make(chan struct{})
	sendsDone := make(chan struct{})
	go func() {
		n := 0
		// it starts when the server's terminating call has returned (or, if the server cannot even get rid of its messages within three seconds, then)
		select {
		case <-sendsDone:
			<-termDone
		case <-termDone:
		case <-time.After(3 * time.Second):
		}
		time.Sleep(time.Duration(c.LagMs) * time.Millisecond)
		for range cc.MsgChan() {
			n++
			if n%64 == 0 {
				time.Sleep(time.Duration(c.LagMs) * time.Millisecond)
			}
		}
		got <- n
	}()
	go func() {
		for range cc.NotChan() {
		}
	}()
	go func() {
		for range cc.ReqCmdChan() {
		}
	}()
	go func() {
		for range cc.RespCmdChan() {
		}
	}()
	// the server: everything, then the end
	pad := strings.Repeat("x", c.PadKB<<10)
	sctx, scancel := context.WithTimeout(context.Background(), 40*time.Second)
	defer scancel()
	for i := 0; i < c.Messages; i++ {
		m := &lime.Message{}
		m.ID = fmt.Sprint("b-", i)
		m.SetContent(lime.TextDocument(pad))
		if err := sc.SendMessage(sctx, m); err != nil {
			obs.Note = "skip: the server could not send within its budget: " + err.Error()
			return obs
		}
		obs.Sent++
	}
	close(sendsDone)
	switch c.Initiator {
	case "server-finish":
		if err := sc.FinishSession(sctx); err != nil {
			obs.TermErr = err.Error()
		}
	case "server-fail":
		if err := sc.FailSession(sctx, &lime.Reason{Code: 42, Description: "go away"}); err != nil {
			obs.TermErr = err.Error()
		}
	}
	close(termDone)
	select {
	case obs.Got = <-got:
	case <-time.After(40 * time.Second):
		obs.TimedOut = true
	}
	obs.CliState = string(cc.State())
	obs.RcvDone = doneClosed(cc.RcvDone())
	obs.Reset = LibResets() != resets
	return obs
}

func TestC13RealBacklog(t *testing.T) {
	rec := NewRecorder("C13", "TestC13RealBacklog")
	defer rec.Finish(t)
	for _, kind := range []string{"tcp", "tcp-tls"} {
		// (Server.Close gives each session one second for its farewell: with a backlog that is a time budget, not this check's subject)
		for _, ini := range []string{"server-finish", "server-fail"} {
			sizes := [][2]int{{200, 1}, {12, 16}}
			if Thorough() {
				sizes = [][2]int{{160, 1}, {250, 1}, {400, 1}, {12, 16}, {20, 16}, {3, 128}}
			}
			for _, sz := range sizes {
				c := &c13BacklogCase{Kind: kind, Initiator: ini, Messages: sz[0], PadKB: sz[1], LagMs: 40}
				o := &Outcome{}
				o.Class("transport=" + kind)
				o.Class("initiator=" + ini)
				rec.Journal(c)
				obs := runC13Backlog(c)
				switch {
				case strings.HasPrefix(obs.Note, "skip:"):
					o.Class("skipped")
				case obs.TimedOut:
					o.Class("inconclusive-time-budget")
				default:
					o.NonTrivial = true
					want := "finished"
					if ini == "server-fail" {
						want = "failed"
					}
					if obs.CliState != want {
						o.Fail("C13/backlog/client-never-saw-the-terminal-session/"+kind, "%s after %d messages of %d KiB towards a slow client (which sent nothing): the client's receiver ended in state %q having consumed %d of %d messages (reset logged: %v, terminating call: %q)", ini, obs.Sent, c.PadKB, obs.CliState, obs.Got, obs.Sent, obs.Reset, obs.TermErr)
					} else if obs.Got != obs.Sent {
						o.Fail("C13/backlog/sent-before-the-end-not-delivered/"+kind, "%s: the client saw the terminal session but consumed %d of the %d messages sent before it", ini, obs.Got, obs.Sent)
					}
				}
				rec.Eval(c, o)
			}
		}
	}
	rec.Note("exhaustive", "true")
}
