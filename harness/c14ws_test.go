package harness

// C14 over the library's WebSocket listeners (ws and wss), real time: a peer whose handshake fails - it hangs up the
// WebSocket way (a close frame, then it waits for the server to drop the connection, RFC 6455 7.1.1), sends garbage, answers
// with a wrong id, or just closes - must see the end of its connection; the server does not keep the socket.

import (
	"context"
	"crypto/tls"
	"errors"
	"fmt"
	"net"
	"strings"
	"testing"
	"time"

	"github.com/gorilla/websocket"
	lime "github.com/takenet/lime-go"
)

type c14WSCase struct {
	Kind  string `json:"kind"`            // ws | wss
	After string `json:"after"`           // connect | new | authenticating : how far the peer goes along before it fails the handshake
	How   string `json:"how"`             // close-frame | garbage | wrong-id | non-session
	Proto string `json:"proto,omitempty"` // the subprotocols the peer offers in its upgrade request: "" = lime | none | other (the upgrade succeeds either way; the connection is the listener's from then on)
}

type c14WSObs struct {
	Note    string `json:"note,omitempty"`
	Ended   bool   `json:"ended"` // the peer saw the end of the connection within the bound
	How     string `json:"how,omitempty"`
	Left    int    `json:"left"`
	LeftStk string `json:"leftStack,omitempty"`
	Est     int    `json:"est"`
}

func runC14WS(c *c14WSCase) *c14WSObs {
	obs := &c14WSObs{}
	port, err := FreePort()
	if err != nil {
		obs.Note = "skip: " + err.Error()
		return obs
	}
	addr := &net.TCPAddr{IP: net.IPv4(127, 0, 0, 1), Port: port}
	scfg, ccfg := TLSConfigs()
	wcfg := &lime.WebsocketConfig{}
	url := fmt.Sprintf("ws://127.0.0.1:%d", port)
	var tcfg *tls.Config
	if c.Kind == "wss" {
		wcfg.TLSConfig = scfg
		url = fmt.Sprintf("wss://localhost:%d", port)
		tcfg = ccfg.Clone()
		tcfg.ServerName = "localhost"
	}
	est := make(chan struct{}, 4)
	srv := lime.NewServerBuilder().Name("postmaster").Domain("srv.example").Instance("s1").
		EnablePlainAuthentication(func(_ context.Context, _ lime.Identity, pw string) (*lime.AuthenticationResult, error) {
			if pw == "right" {
				return lime.MemberAuthenticationResult(), nil
			}
			return lime.UnknownAuthenticationResult(), nil
		}).
		Established(func(string, *lime.ServerChannel) { est <- struct{}{} }).
		ListenWebsocket(addr, wcfg).Build()
	done := make(chan error, 1)
	go func() { done <- srv.ListenAndServe() }()
	defer func() {
		_ = srv.Close()
		select {
		case <-done:
		case <-time.After(5 * time.Second):
		}
	}()
	protos := []string{"lime"}
	switch c.Proto {
	case "none":
		protos = nil
	case "other":
		protos = []string{"chat", "mqtt"}
	}
	d := websocket.Dialer{Subprotocols: protos, HandshakeTimeout: 2 * time.Second, TLSClientConfig: tcfg}
	var wc *websocket.Conn
	for i := 0; i < 100; i++ {
		if wc, _, err = d.Dial(url, nil); err == nil {
			break
		}
		time.Sleep(10 * time.Millisecond)
	}
	if err != nil {
		obs.Note = "skip: dial: " + err.Error()
		return obs
	}
	defer wc.Close()
	read := func() map[string]interface{} {
		_ = wc.SetReadDeadline(time.Now().Add(2 * time.Second))
		var m map[string]interface{}
		if err := wc.ReadJSON(&m); err != nil {
			return nil
		}
		return m
	}
	sid := ""
	if c.After != "connect" {
		_ = wc.WriteMessage(websocket.TextMessage, []byte(`{"state":"new"}`))
		if m := read(); m != nil {
			sid, _ = m["id"].(string)
		}
	}
	if c.After == "authenticating" {
		// one refused round keeps the handshake in the authentication stage
		_ = wc.WriteMessage(websocket.TextMessage, []byte(fmt.Sprintf(`{"id":%q,"from":"alice@cli.example/home","state":"authenticating","scheme":"plain","authentication":{"password":"d3Jvbmc="}}`, sid)))
	}
	switch c.How {
	case "close-frame":
		_ = wc.WriteControl(websocket.CloseMessage, websocket.FormatCloseMessage(websocket.CloseNormalClosure, "bye"), time.Now().Add(time.Second))
	case "garbage":
		_ = wc.WriteMessage(websocket.TextMessage, []byte(`}}} not json {{{`))
	case "wrong-id":
		_ = wc.WriteMessage(websocket.TextMessage, []byte(`{"id":"not-the-session","from":"alice@cli.example/home","state":"authenticating","scheme":"plain","authentication":{"password":"cmlnaHQ="}}`))
	case "non-session":
		_ = wc.WriteMessage(websocket.TextMessage, []byte(`{"id":"m1","type":"text/plain","content":"hello"}`))
	}
	// the peer now waits for the server to end the connection: frames may still come (a failed session, the echo of the close
	// frame); what counts is that reading ends with something other than a timeout
	deadline := time.Now().Add(4 * time.Second)
	for time.Now().Before(deadline) {
		_ = wc.SetReadDeadline(deadline)
		if _, _, err := wc.ReadMessage(); err != nil {
			var ne net.Error
			if errors.As(err, &ne) && ne.Timeout() {
				break
			}
			obs.How = err.Error()
			// the WebSocket conversation is over (a close frame, or an error); what counts is the connection underneath
			raw := wc.UnderlyingConn()
			_ = raw.SetReadDeadline(deadline)
			buf := make([]byte, 256)
			for {
				if _, rerr := raw.Read(buf); rerr != nil {
					var ne2 net.Error
					obs.Ended = !(errors.As(rerr, &ne2) && ne2.Timeout())
					obs.How += " / " + rerr.Error()
					break
				}
			}
			break
		}
	}
	obs.Est = len(est)
	for i := 0; i < 40; i++ {
		if obs.Left, obs.LeftStk = serverGoroutinesExceptAccept(); obs.Left == 0 {
			break
		}
		time.Sleep(50 * time.Millisecond)
	}
	return obs
}

// goroutines serving a connection (not the accept / consume loops of the still running server)
func serverGoroutinesExceptAccept() (int, string) {
	n := 0
	which := ""
	for _, g := range libGoroutines(func(_, body string) bool {
		return containsAny(body, "lime-go.(*Server).handleChannel", "lime-go.receiveFromTransport", "lime-go.(*ServerChannel).EstablishSession", "lime-go.(*EnvelopeMux).listen")
	}) {
		n++
		if len(which) < 3000 {
			which += truncate(g, 700) + "\n--\n"
		}
	}
	return n, which
}

func containsAny(s string, subs ...string) bool {
	for _, x := range subs {
		if strings.Contains(s, x) {
			return true
		}
	}
	return false
}

func TestC14WS(t *testing.T) {
	rec := NewRecorder("C14", "TestC14WS")
	defer rec.Finish(t)
	sh, nsh := Shard()
	idx := 0
	for _, kind := range []string{"ws", "wss"} {
		for _, after := range []string{"connect", "new", "authenticating"} {
			for _, how := range []string{"close-frame", "garbage", "wrong-id", "non-session"} {
				idx++
				if idx%nsh != sh {
					continue
				}
				// (a generic WebSocket client does not name the lime subprotocol)
				c := &c14WSCase{Kind: kind, After: after, How: how, Proto: []string{"", "none", "other", "", "none"}[idx%5]}
				rec.Journal(c)
				obs := runC14WS(c)
				o := &Outcome{NonTrivial: true}
				o.Class("websocket-listener=" + kind)
				o.Class("failure=" + how + "/after-" + after)
				o.Class("subprotocols-offered=" + map[string]string{"": "lime", "none": "none", "other": "others"}[c.Proto])
				switch {
				case len(obs.Note) > 0:
					o.Class("skipped")
				default:
					if !obs.Ended {
						o.Fail("C14/ws/connection-not-released/"+how, "%s peer, %s after %s: the server did not end the connection within 4 s (the peer is left waiting on a socket nobody serves)", kind, how, after)
					}
					if obs.Est > 0 {
						o.Fail("C14/ws/established-callback", "the Established callback fired for a handshake that failed")
					}
					if obs.Left > 0 {
						o.Fail("C14/ws/goroutine-left", "%d goroutine(s) still serve the failed connection:\n%s", obs.Left, obs.LeftStk)
					}
				}
				rec.Eval(c, o)
			}
		}
	}
	rec.Note("exhaustive", "true")
}
