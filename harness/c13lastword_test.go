package harness

// C13, the peer's last word: the server ends the session (finished session, then it closes) at a moment that sweeps, a
// few nanoseconds at a time, across the instant at which the client's receiver goroutine asks its transport for the next
// envelope - right after establishment, or right after it has delivered a message. The client keeps consuming; it must observe
// the finished session and reach the finished state every time. In-process transport, real time, all cores.

import (
	"context"
	"fmt"
	"sync"
	"sync/atomic"
	"testing"
	"time"

	lime "github.com/takenet/lime-go"
)

type c13LastWordCase struct {
	Workers int    `json:"workers"`
	Rounds  int    `json:"rounds"`
	Pattern string `json:"pattern"` // after-establishment | after-a-message
	Buf     int    `json:"inprocBuf"`
}

var c13spinSink atomic.Int64

func TestC13LastWordRace(t *testing.T) {
	rec := NewRecorder("C13", "TestC13LastWordRace")
	defer rec.Finish(t)
	sh, _ := Shard()
	for _, pattern := range []string{"after-establishment", "after-a-message"} {
		for _, buf := range []int{1, 4} {
			c := &c13LastWordCase{Workers: 16, Rounds: Scale(5000, 60000), Pattern: pattern, Buf: buf}
			rec.Journal(c)
			o := &Outcome{NonTrivial: true}
			o.Class("last-word/" + pattern)
			var mu sync.Mutex
			fails := map[string]string{}
			var wg sync.WaitGroup
			for w := 0; w < c.Workers; w++ {
				wg.Add(1)
				go func(w int) {
					defer wg.Done()
					for r := 0; r < c.Rounds; r++ {
						ct, st := lime.VerifNewInProcessTransportPair(lime.InProcessAddr(fmt.Sprintf("c13w-%d-%d-%d", sh, w, r)), c.Buf)
						cc := lime.NewClientChannel(ct, 1)
						sc := lime.NewServerChannel(st, 1, srvNode, fixedSid)
						ctx, cancel := context.WithTimeout(context.Background(), 10*time.Second)
						done := make(chan error, 1)
						go func() {
							done <- sc.EstablishSession(ctx, []lime.SessionCompression{lime.SessionCompressionNone}, []lime.SessionEncryption{lime.SessionEncryptionNone},
								[]lime.AuthenticationScheme{lime.AuthenticationSchemeGuest},
								func(context.Context, lime.Identity, lime.Authentication) (*lime.AuthenticationResult, error) {
									return lime.MemberAuthenticationResult(), nil
								}, func(_ context.Context, n lime.Node, _ *lime.ServerChannel) (lime.Node, error) { return n, nil })
						}()
						// the client consumes from the first instant
						got := make(chan struct{})
						var cerr error
						go func() {
							_, cerr = cc.EstablishSession(ctx, lime.NoneCompressionSelector, lime.NoneEncryptionSelector, lime.Identity{Name: "alice", Domain: "cli.example"}, lime.GuestAuthenticator, "home")
							if cerr == nil {
								for range cc.MsgChan() {
								}
							}
							close(got)
						}()
						serr := <-done
						if serr != nil {
							cancel()
							<-got
							_ = cc.Close()
							_ = sc.Close()
							continue
						}
						if pattern == "after-a-message" {
							_ = sc.SendMessage(ctx, c13Message("m"))
						}
						for k := 0; k < (r*7+w)%400; k++ {
							c13spinSink.Add(1)
						}
						ferr := sc.FinishSession(ctx)
						<-got // the message stream is closed, or the client failed to establish
						what := ""
						if cerr == nil && ferr == nil {
							select {
							case <-cc.RcvDone():
							case <-time.After(5 * time.Second):
								what = "the client's receiver did not end"
							}
							if what == "" && cc.State() != lime.SessionStateFinished {
								what = "client state " + string(cc.State()) + " after the server finished the session"
							}
						}
						cancel()
						if what != "" {
							mu.Lock()
							fails[what] = fmt.Sprintf("worker %d round %d", w, r)
							mu.Unlock()
						}
						_ = cc.Close()
						_ = sc.Close()
					}
				}(w)
			}
			wg.Wait()
			for what, where := range fails {
				o.Fail("C13/last-word/"+pattern+"/"+what, "%s: %s", where, what)
			}
			rec.Eval(c, o)
		}
	}
}
