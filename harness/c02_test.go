package harness

import (
	"context"
	"encoding/base64"
	"encoding/json"
	"fmt"
	"regexp"
	"runtime/debug"
	"strings"
	"testing"
	"time"
	"unicode/utf8"

	lime "github.com/takenet/lime-go"
	"pgregory.net/rapid"
)

type c02Case struct {
	Input  string `json:"input,omitempty"` // the bytes, when valid UTF-8
	B64    string `json:"b64,omitempty"`   // otherwise base64
	Origin string `json:"origin,omitempty"`
}

func newC02Case(b []byte, origin string) *c02Case {
	if utf8.Valid(b) {
		return &c02Case{Input: string(b), Origin: origin}
	}
	return &c02Case{B64: base64.StdEncoding.EncodeToString(b), Origin: origin}
}

func (c *c02Case) Bytes() []byte {
	if c.B64 != "" {
		b, _ := base64.StdEncoding.DecodeString(c.B64)
		return b
	}
	return []byte(c.Input)
}

var limeFrameRe = regexp.MustCompile(`github\.com/takenet/lime-go(?:/chat)?\.([^\s(]+(?:\([^)]*\)\.[A-Za-z0-9_]+)?)`)

// protectStack runs f; on panic returns the message and the innermost library function on the stack.
func protectStack(f func()) (msg string, frame string) {
	defer func() {
		if r := recover(); r != nil {
			msg = fmt.Sprint(r)
			st := string(debug.Stack())
			// skip the frames of the panic machinery: look after "panic("
			if i := strings.Index(st, "panic("); i >= 0 {
				st = st[i:]
			}
			if m := limeFrameRe.FindStringSubmatch(st); m != nil {
				frame = m[1]
			}
		}
	}()
	f()
	return "", ""
}

var quotedRe = regexp.MustCompile(`'[^']*'|"[^"]*"|\d+`)

// errClass is the innermost error message with quoted values and numbers removed.
func errClass(err error) string {
	s := err.Error()
	if i := strings.LastIndex(s, ": "); i >= 0 && i+2 < len(s) {
		s = s[i+2:]
	}
	s = strings.TrimSpace(quotedRe.ReplaceAllString(s, "_"))
	if len(s) > 70 {
		s = s[:70]
	}
	return s
}

func degenerateMT(m lime.MediaType) bool { return m.Type == "" || m.Subtype == "" }

func docHasDegenerateType(d lime.Document) bool {
	switch v := d.(type) {
	case *lime.DocumentContainer:
		return degenerateMT(v.Type) || docHasDegenerateType(v.Value)
	case *lime.DocumentCollection:
		if degenerateMT(v.ItemType) {
			return true
		}
		for _, it := range v.Items {
			if docHasDegenerateType(it) {
				return true
			}
		}
	}
	return false
}

// whereClass tells whether an accepted envelope announces a degenerate media type at the protocol level (message /
// command / container / collection type with an empty part) or whether the trouble sits inside a document body.
func whereClass(env interface{}) string {
	deg := false
	switch v := env.(type) {
	case *lime.Message:
		deg = degenerateMT(v.Type) || docHasDegenerateType(v.Content)
	case *lime.RequestCommand:
		deg = (v.Type != nil && degenerateMT(*v.Type)) || (v.Resource != nil && docHasDegenerateType(v.Resource))
	case *lime.ResponseCommand:
		deg = (v.Type != nil && degenerateMT(*v.Type)) || (v.Resource != nil && docHasDegenerateType(v.Resource))
	default:
		return "envelope-fields"
	}
	if deg {
		return "degenerate-declared-type"
	}
	return "inside-document"
}

func panicClass(msg string) string {
	msg = regexp.MustCompile(`0x[0-9a-f]+`).ReplaceAllString(msg, "0x?")
	if len(msg) > 60 {
		msg = msg[:60]
	}
	return msg
}

// receiveOnce feeds bytes (followed by EOF) to a fresh server-side TCP transport and calls Receive once.
func receiveOnce(b []byte) (env interface{}, err error, pmsg, pframe string) {
	a, s := Pipe(PipeOpts{Capacity: len(b) + 64})
	t := lime.VerifNewTCPTransport(s, nil, true)
	_, _ = a.Write(b)
	a.CloseWrite()
	ctx, cancel := context.WithTimeout(context.Background(), 10*time.Second)
	defer cancel()
	pmsg, pframe = protectStack(func() { env, err = TReceive(ctx, t) })
	_ = a.Close()
	_ = s.Close()
	return
}

// judgeDecode is the C02 oracle for one input; it is shared by the sweep, the rapid generators and the fuzz target.
func judgeDecode(in []byte, o *Outcome) {
	accepted := false
	reachedDoc := false
	for _, kind := range AllKinds {
		x := NewOfKind(kind)
		var err error
		if msg, frame := protectStack(func() { err = json.Unmarshal(in, x) }); msg != "" {
			o.Fail("C02/panic/"+frame+"/"+panicClass(msg), "json.Unmarshal into %s panicked: %s (in %s)", kind, msg, frame)
			continue
		}
		if err != nil {
			if strings.Contains(err.Error(), "document") || strings.Contains(err.Error(), "media type") {
				reachedDoc = true
			}
			continue
		}
		accepted = true
		var b2 []byte
		if msg, frame := protectStack(func() { b2, err = json.Marshal(x) }); msg != "" {
			o.Fail("C02/panic/"+frame+"/"+panicClass(msg), "re-encoding an accepted %s panicked: %s", kind, msg)
			continue
		}
		if err != nil {
			o.Fail("C02/restable/reencode-error/"+errClass(err)+"/"+whereClass(x), "accepted as %s but cannot be encoded again: %v", kind, err)
			continue
		}
		y := NewOfKind(kind)
		if msg, frame := protectStack(func() { err = json.Unmarshal(b2, y) }); msg != "" {
			o.Fail("C02/panic/"+frame+"/"+panicClass(msg), "decoding the re-encoding panicked: %s", msg)
			continue
		}
		if err != nil {
			o.Fail("C02/restable/redecode-error/"+errClass(err)+"/"+whereClass(x), "accepted as %s, re-encoded to %s, which is rejected: %v", kind, truncate(string(b2), 200), err)
			continue
		}
		if d := EqualEnvelopes(x, y); d != "" {
			o.Fail("C02/restable/typed/diff/"+kind+"/"+fieldOf(d), "re-decoded %s differs: %s | re-encoding=%s", kind, d, truncate(string(b2), 200))
		}
	}
	// transport receive path
	env, err, pmsg, pframe := receiveOnce(in)
	if pmsg != "" {
		o.Fail("C02/panic/"+pframe+"/"+panicClass(pmsg), "Transport.Receive panicked: %s (in %s)", pmsg, pframe)
	} else if err == nil && env != nil {
		accepted = true
		kind := KindOf(env)
		var b2 []byte
		if msg, frame := protectStack(func() { b2, err = json.Marshal(env) }); msg != "" {
			o.Fail("C02/panic/"+frame+"/"+panicClass(msg), "re-encoding a received %s panicked: %s", kind, msg)
		} else if err != nil {
			o.Fail("C02/restable/reencode-error/"+errClass(err)+"/"+whereClass(env), "received as %s but cannot be encoded again: %v", kind, err)
		} else {
			env2, err2, pm2, pf2 := receiveOnce(append(b2, '\n'))
			switch {
			case pm2 != "":
				o.Fail("C02/panic/"+pf2+"/"+panicClass(pm2), "receiving the re-encoding panicked: %s", pm2)
			case err2 != nil:
				o.Fail("C02/restable/redecode-error/"+errClass(err2)+"/"+whereClass(env), "received as %s, re-encoded to %s, which a transport rejects: %v", kind, truncate(string(b2), 200), err2)
			case KindOf(env2) != kind:
				o.Fail("C02/restable/transport/kind-change/"+kind+"->"+KindOf(env2), "received as %s, its re-encoding %s is received as %s", kind, truncate(string(b2), 200), KindOf(env2))
			default:
				if d := EqualEnvelopes(env, env2); d != "" {
					o.Fail("C02/restable/transport/diff/"+kind+"/"+fieldOf(d), "re-received %s differs: %s", kind, d)
				}
			}
		}
	} else if err != nil && (strings.Contains(err.Error(), "document") || strings.Contains(err.Error(), "media type")) {
		reachedDoc = true
	}
	if accepted {
		o.Class("accepted")
	}
	if reachedDoc {
		o.Class("reached-document-decoding")
	}
	o.NonTrivial = accepted || reachedDoc
}

// ---- corpus ----

var c02Literals = []string{
	`{"id":"1","from":"a@b.com/c","to":"d@e.com","type":"text/plain","content":"hello"}`,
	`{"id":"2","to":"d@e.com","type":"application/json","content":{"a":1,"b":[true,null,"x"],"c":{"d":1.5}},"metadata":{"k":"v"}}`,
	`{"type":"application/vnd.lime.container+json","content":{"type":"text/plain","value":"inner"}}`,
	`{"type":"application/vnd.lime.container+json","content":{"type":"application/vnd.lime.container+json","value":{"type":"application/json","value":{"k":"v"}}}}`,
	`{"type":"application/vnd.lime.collection+json","content":{"total":3,"itemType":"text/plain","items":["a","b","c"]}}`,
	`{"type":"application/vnd.lime.collection+json","content":{"itemType":"application/vnd.lime.container+json","items":[{"type":"text/plain","value":"t"},{"type":"application/json","value":{"x":1}}]}}`,
	`{"type":"application/vnd.lime.collection+json","content":{"total":1,"itemType":"application/vnd.lime.account+json","items":[{"fullName":"John","isTemporary":false,"extras":{"a":"b"}}]}}`,
	`{"type":"application/x-unknown+json","content":{"k":1}}`,
	`{"type":"text/unknown","content":"txt"}`,
	`{"id":"3","from":"s@d/i","to":"c@d/i","event":"received"}`,
	`{"id":"4","event":"failed","reason":{"code":42,"description":"boom"},"pp":"x@y"}`,
	`{"id":"5","from":"a@b/c","to":"d@e","method":"get","uri":"/ping"}`,
	`{"id":"6","method":"set","uri":"lime://owner@domain.com/presence","type":"application/vnd.lime.presence+json","resource":{"status":"available","routingRule":"identity","priority":1,"instances":["a"]}}`,
	`{"id":"7","method":"merge","uri":"/doc/x%2Fy?z=1","type":"application/vnd.lime.container+json","resource":{"type":"text/plain","value":"v"}}`,
	`{"id":"8","from":"d@e","method":"get","status":"success","type":"application/vnd.lime.ping+json","resource":{}}`,
	`{"id":"9","method":"set","status":"failure","reason":{"code":1,"description":"no"}}`,
	`{"id":"10","method":"get","status":"success","type":"application/vnd.lime.collection+json","resource":{"total":2,"itemType":"application/vnd.lime.contact+json","items":[{"identity":"a@b","name":"A","isPending":true},{"identity":"c@d","priority":3,"lastMessageDate":"2020-01-02T03:04:05Z"}]}}`,
	`{"state":"new"}`,
	`{"id":"s1","from":"srv@d/i","state":"negotiating","encryptionOptions":["none","tls"],"compressionOptions":["none"]}`,
	`{"id":"s1","state":"negotiating","encryption":"tls","compression":"none"}`,
	`{"id":"s1","from":"srv@d/i","state":"authenticating","schemeOptions":["guest","plain","key","transport","external"]}`,
	`{"id":"s1","from":"c@d/i","state":"authenticating","scheme":"plain","authentication":{"password":"cGFzcw=="}}`,
	`{"id":"s1","from":"c@d/i","state":"authenticating","scheme":"key","authentication":{"key":"a2V5"}}`,
	`{"id":"s1","from":"c@d/i","state":"authenticating","scheme":"external","authentication":{"token":"t","issuer":"i"}}`,
	`{"id":"s1","from":"c@d/i","state":"authenticating","scheme":"guest","authentication":{}}`,
	`{"id":"s1","from":"c@d/i","state":"authenticating","scheme":"transport","authentication":{}}`,
	`{"id":"s1","from":"srv@d/i","to":"c@d/i","state":"established"}`,
	`{"id":"s1","state":"finishing"}`,
	`{"id":"s1","from":"srv@d/i","state":"failed","reason":{"code":13,"description":"bad"}}`,
	`{"id":"s1","from":"srv@d/i","state":"finished"}`,
	`{"type":"application/vnd.lime.receipt+json","content":{"events":["accepted","failed"]}}`,
	`{"type":"application/x-verif-custom+json","content":{"a":"s","b":7,"c":["x"],"d":true}}`,
	`{"type":"application/vnd.lime.delegation+json","content":{"Target":"a@b/c","EnvelopeTypes":["message"],"Messages":[{"type":"text/plain"}],"Commands":[{"method":"get","uri":"/x","status":"success"}]}}`,
}

// genStructuredText: strings assembled from the separators and escapes of the text forms the decoder parses (URIs, nodes,
// media types, enums), so that a replaced value is likely to reach the branches of those parsers.
var genStructuredText = rapid.Custom(func(t *rapid.T) string {
	pieces := []string{"/", "//", "%2F", "%2f", "%7B", "{", "}", "%", "%zz", "lime://", "http://", ":", "@", "?", "#", "&", "=", "+", ";", " ", ".", "..",
		"a", "b", "ping", "x.y", "[", "]", "[::1]", ":80", "text", "plain", "application", "json", "vnd.lime.", "*", "é", "\\"}
	n := rapid.IntRange(1, 7).Draw(t, "n")
	out := ""
	for i := 0; i < n; i++ {
		out += rapid.SampledFrom(pieces).Draw(t, "piece")
	}
	return out
})

// hostile constants: null / wrong types at every document slot, degenerate media types, empty enums, mismatched schemes
var c02Hostile = []string{
	`{"type":"application/vnd.lime.container+json","content":{"type":"text/plain"}}`,
	`{"type":"application/vnd.lime.container+json","content":{"type":"text/plain","value":null}}`,
	`{"type":"application/vnd.lime.collection+json","content":{"itemType":"text/plain","items":[null]}}`,
	`{"type":"application/vnd.lime.collection+json","content":{"itemType":"text/plain","items":null}}`,
	`{"type":"/","content":"x"}`,
	`{"type":"+","content":"x"}`,
	`{"type":"/+json","content":{}}`,
	`{"type":"a/b+","content":"x"}`,
	`{"type":"a/b","content":null}`,
	`{"method":"get","status":""}`,
	`{"method":"get","uri":""}`,
	`{"method":"get","uri":"","status":""}`,
	`{"method":"get","status":"bogus"}`,
	`{"state":"authenticating","scheme":"guest","authentication":null}`,
	`{"state":"authenticating","scheme":"plain","authentication":{}}`,
	`{"state":"authenticating","scheme":"","authentication":{}}`,
	`{"state":"authenticating","authentication":{"password":"x"}}`,
	`{"state":"new","encryptionOptions":[""],"compressionOptions":[null],"schemeOptions":["bogus"]}`,
	`{"state":"new","encryption":"","compression":"","scheme":""}`,
	`{"event":"received","content":"x","type":"text/plain","state":"new","method":"get","uri":"/x","status":"success"}`,
	`{"method":"get","uri":"/x","type":"application/vnd.lime.container+json","resource":{"type":"application/vnd.lime.collection+json","value":{"itemType":"a/b","items":[null,null]}}}`,
	`{"method":"get","status":"success","resource":null,"type":"a/b"}`,
	`{"method":"get","status":"success","resource":"x"}`,
	`{"from":"","to":"/","pp":"@","event":"accepted"}`,
	`{"id":"","metadata":{},"event":"accepted","reason":{}}`,
	`{"metadata":null,"event":"accepted","reason":null}`,
	`{"type":"application/vnd.lime.account+json","content":{"photoUri":{"Scheme":"http","Host":"x","User":{}},"birthDate":"2000-01-01T00:00:00+23:59","offset":1.5}}`,
	`{"type":"application/json","content":{"n":12345678901234567890,"m":1e308,"k":-0}}`,
	`[]`, `null`, `""`, `0`, `{}`, `{"":""}`,
}

func c02Corpus(nGenerated int, seed int) [][]byte {
	var out [][]byte
	for _, s := range c02Literals {
		out = append(out, []byte(s))
	}
	for _, s := range c02Hostile {
		out = append(out, []byte(s))
	}
	g := GenEnvelope(4)
	for i := 0; i < nGenerated; i++ {
		spec := g.Example(seed*100000 + i)
		v, err := spec.Build()
		if err != nil {
			continue
		}
		if b, err := json.Marshal(v); err == nil && len(b) < 1500 {
			out = append(out, b)
		}
	}
	return out
}

var journalOn = envInt("VERIF_JOURNAL", 0) != 0

func seedInt() int { return envInt("VERIF_SEED", 1) }

// TestC02Sweep: every single-point structural mutation of every corpus member at every node, plus splices of
// donor sub-trees, plus (sampled in quick, complete for small seeds in thorough) double-point mutations.
func TestC02Sweep(t *testing.T) {
	rec := NewRecorder("C02", "TestC02Sweep")
	defer rec.Finish(t)
	sh, nsh := Shard()
	corpus := c02Corpus(Scale(40, 200), 1) // the sweep corpus does not depend on VERIF_SEED: it is enumerated
	var trees []*jnode
	for _, b := range corpus {
		if tr, err := parseJTree(b); err == nil {
			trees = append(trees, tr)
		}
	}
	// donors: interesting sub-trees taken from the corpus
	var donors []*jnode
	seen := map[string]bool{}
	for _, tr := range trees {
		for _, st := range tr.subtrees() {
			if st.kind == 'v' {
				continue
			}
			k := string(st.Bytes())
			if !seen[k] && len(k) < 200 {
				seen[k] = true
				donors = append(donors, st)
			}
		}
	}
	item := 0
	run := func(b []byte, origin string) {
		item++
		if item%nsh != sh {
			return
		}
		o := &Outcome{}
		o.Class("origin=" + origin)
		judgeDecode(b, o)
		rec.Eval(newC02Case(b, origin), o)
	}
	nops := numMutOps()
	maxDouble := Scale(60, 400) // node-count bound under which all double mutations are enumerated
	for ti, tr := range trees {
		run(tr.Bytes(), "corpus")
		n := tr.count()
		for idx := 0; idx < n; idx++ {
			for op := 0; op < nops; op++ {
				m := mutate(tr, idx, op)
				if m == nil {
					continue
				}
				run(m.Bytes(), "single")
				// double-point: second mutation anywhere in the once-mutated tree
				if n <= 14 && n*nops <= maxDouble*8 {
					n2 := m.count()
					for idx2 := 0; idx2 < n2; idx2++ {
						for op2 := 0; op2 < nops; op2++ {
							if (ti+idx+op+idx2+op2)%Scale(7, 1) != 0 {
								continue // quick: 1 in 7 of the pairs; thorough: all
							}
							if m2 := mutate(m, idx2, op2); m2 != nil {
								run(m2.Bytes(), "double")
							}
						}
					}
				}
			}
			// splices: every donor at document-bearing positions, a rotating sample elsewhere
			for di, d := range donors {
				if (di+idx+ti)%Scale(9, 2) != 0 {
					continue
				}
				if m := splice(tr, idx, d); m != nil {
					run(m.Bytes(), "splice")
				}
			}
		}
	}
	rec.Note("corpus_members", fmt.Sprint(len(trees)))
	rec.Note("donor_subtrees", fmt.Sprint(len(donors)))
	rec.Note("exhaustive", "true")
}

// TestC02Lexical: truncation at every offset, concatenations, byte flips at every offset of the literal corpus.
func TestC02Lexical(t *testing.T) {
	rec := NewRecorder("C02", "TestC02Lexical")
	defer rec.Finish(t)
	sh, nsh := Shard()
	item := 0
	run := func(b []byte, origin string) {
		item++
		if item%nsh != sh {
			return
		}
		o := &Outcome{}
		o.Class("origin=" + origin)
		if journalOn {
			rec.Journal(newC02Case(b, origin))
		}
		judgeDecode(b, o)
		rec.Eval(newC02Case(b, origin), o)
	}
	corpus := c02Corpus(Scale(10, 60), 1)
	flips := []byte{0x00, 0x22, 0x5c, 0x7b, 0x7d, 0x5b, 0x5d, 0x2c, 0x3a, 0xff, 0x80, 0x6e, 0x30, 0x2f, 0x2b, 0x40}
	for ci, b := range corpus {
		for i := 0; i <= len(b); i++ {
			run(b[:i], "truncate")
			run(b[i:], "suffix")
		}
		for i := 0; i < len(b); i++ {
			for fi, f := range flips {
				if (i+fi+ci)%Scale(4, 1) != 0 {
					continue
				}
				m := append([]byte{}, b...)
				m[i] = f
				run(m, "byte-replace")
			}
			m := append(append([]byte{}, b[:i]...), b[i+1:]...)
			run(m, "byte-delete")
		}
		for cj := 0; cj < len(corpus); cj += Scale(7, 2) {
			for _, sep := range []string{"", "\n", " ", ",", "}{"} {
				run(append(append(append([]byte{}, b...), sep...), corpus[cj]...), "concat")
			}
		}
	}
	// deep nesting up to encoding/json's limit and beyond
	for _, depth := range []int{100, 9999, 10000, 10001, 20000} {
		run([]byte(`{"type":"application/json","content":`+strings.Repeat(`{"a":`, depth)+`1`+strings.Repeat(`}`, depth)+`}`), "deep")
		run([]byte(`{"type":"application/json","content":{"a":`+strings.Repeat(`[`, depth)+strings.Repeat(`]`, depth)+`}}`), "deep")
		run([]byte(`{"type":"application/vnd.lime.container+json","content":`+strings.Repeat(`{"type":"application/vnd.lime.container+json","value":`, depth/50)+`{"type":"text/plain","value":"x"}`+strings.Repeat(`}`, depth/50)+`}`), "deep")
	}
	rec.Note("exhaustive", "true")
}

func genBytesCase(rt *rapid.T, corpus [][]byte) ([]byte, string) {
	switch rapid.IntRange(0, 5).Draw(rt, "mode") {
	case 0:
		return rapid.SliceOfN(rapid.Byte(), 0, 200).Draw(rt, "bytes"), "random-bytes"
	case 1:
		// fresh envelope, then structural mutations at random nodes
		spec := GenEnvelope(4).Draw(rt, "env")
		v, err := spec.Build()
		if err != nil {
			return []byte("{}"), "random-struct"
		}
		b, err := json.Marshal(v)
		if err != nil {
			return []byte("{}"), "random-struct"
		}
		tr, err := parseJTree(b)
		if err != nil {
			return b, "random-struct"
		}
		for k, n := 0, rapid.IntRange(1, 3).Draw(rt, "nmut"); k < n; k++ {
			idx := rapid.IntRange(0, tr.count()-1).Draw(rt, "node")
			op := rapid.IntRange(0, numMutOps()-1).Draw(rt, "op")
			if m := mutate(tr, idx, op); m != nil {
				tr = m
			}
		}
		return tr.Bytes(), "random-struct"
	case 2:
		b := append([]byte{}, rapid.SampledFrom(corpus).Draw(rt, "seed")...)
		for k, n := 0, rapid.IntRange(1, 4).Draw(rt, "nedit"); k < n && len(b) > 0; k++ {
			i := rapid.IntRange(0, len(b)-1).Draw(rt, "pos")
			switch rapid.IntRange(0, 3).Draw(rt, "edit") {
			case 0:
				b[i] = rapid.Byte().Draw(rt, "byte")
			case 1:
				b = append(b[:i], b[i+1:]...)
			case 2:
				b = append(b[:i], append([]byte{rapid.Byte().Draw(rt, "ins")}, b[i:]...)...)
			case 3:
				j := rapid.IntRange(i, len(b)).Draw(rt, "end")
				b = append(b[:j], append(append([]byte{}, b[i:j]...), b[j:]...)...)
			}
		}
		return b, "random-lexical"
	case 3:
		// string values replaced by arbitrary (possibly hostile) strings
		b := rapid.SampledFrom(corpus).Draw(rt, "seed")
		tr, err := parseJTree(b)
		if err != nil {
			return b, "random-string"
		}
		subs := tr.subtrees()
		idx := rapid.IntRange(0, len(subs)-1).Draw(rt, "node")
		if subs[idx].kind == 'v' {
			q, _ := json.Marshal(rapid.OneOf(GenString(), genStructuredText).Draw(rt, "str"))
			c := tr.clone()
			_, _, x := c.locate(idx)
			x.val = string(q)
			return c.Bytes(), "random-string"
		}
		return b, "random-string"
	case 4:
		a := rapid.SampledFrom(corpus).Draw(rt, "a")
		b := rapid.SampledFrom(corpus).Draw(rt, "b")
		ta, e1 := parseJTree(a)
		tb, e2 := parseJTree(b)
		if e1 != nil || e2 != nil {
			return a, "random-splice"
		}
		sa, sb := ta.subtrees(), tb.subtrees()
		m := splice(ta, rapid.IntRange(0, len(sa)-1).Draw(rt, "at"), sb[rapid.IntRange(0, len(sb)-1).Draw(rt, "donor")])
		return m.Bytes(), "random-splice"
	default:
		// merge the members of two corpus objects into one object
		a := rapid.SampledFrom(corpus).Draw(rt, "a")
		b := rapid.SampledFrom(corpus).Draw(rt, "b")
		ta, e1 := parseJTree(a)
		tb, e2 := parseJTree(b)
		if e1 != nil || e2 != nil || ta.kind != 'o' || tb.kind != 'o' {
			return a, "random-merge"
		}
		c := ta.clone()
		for i, k := range tb.keys {
			if rapid.Bool().Draw(rt, "take") {
				c.keys = append(c.keys, k)
				c.kids = append(c.kids, tb.kids[i].clone())
			}
		}
		return c.Bytes(), "random-merge"
	}
}

func TestC02Rapid(t *testing.T) {
	rec := NewRecorder("C02", "TestC02Rapid")
	corpus := c02Corpus(60, seedInt())
	rapid.Check(t, func(rt *rapid.T) {
		b, origin := genBytesCase(rt, corpus)
		o := &Outcome{}
		o.Class("origin=" + origin)
		judgeDecode(b, o)
		rec.Check(rt, newC02Case(b, origin), o)
	})
}

func TestC02Replay(t *testing.T) {
	rec := NewRecorder("C02", "TestC02Replay")
	defer rec.Finish(t)
	for _, f := range ReplayFiles("C02") {
		var c c02Case
		if err := LoadCase(f, &c); err != nil {
			continue
		}
		o := &Outcome{}
		o.Class("origin=replay")
		judgeDecode(c.Bytes(), o)
		rec.Eval(&c, o)
	}
}

// FuzzC02Decode is the native coverage-guided target (thorough tier). The oracle is the same function; cases matching
// open known findings do not stop the fuzzer.
func FuzzC02Decode(f *testing.F) {
	for _, b := range c02Corpus(40, 1) {
		f.Add(b)
	}
	rec := NewRecorder("C02", "FuzzC02Decode")
	f.Fuzz(func(t *testing.T, in []byte) {
		o := &Outcome{}
		judgeDecode(in, o)
		for _, v := range o.Violations {
			if !rec.IsOpen(v.Sig) {
				WriteFuzzViolation("C02", v, newC02Case(in, "native-fuzz"))
				t.Fatalf("VIOLATION %s: %s", v.Sig, v.Detail)
			}
		}
	})
}
