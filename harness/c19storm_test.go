//go:build go1.25

package harness

// C19 storm: many goroutines send through one lime.Client while the server takes the session away after every few
// messages, hundreds of times per case. Callers, the Client's own listener and the rebuild all meet in the Client's
// channel hand-out; the oracle is the recovery clause of C19 (after the storm a send establishes a fresh session and a push
// on it reaches the handler), that no successful send is lost silently more than the loss of a session explains, and that
// nothing crashes (a crash of the process is attributed to the journalled case by the driver).

import (
	"bytes"
	"context"
	"fmt"
	"os"
	"strings"
	"sync"
	"sync/atomic"
	"testing"
	"testing/synctest"
	"time"

	lime "github.com/takenet/lime-go"
	"pgregory.net/rapid"
)

type c19StormCase struct {
	Transport string `json:"transport"` // inproc | fconn | fconn-tls
	Kill      string `json:"kill"`      // close | fail | finish : how the server ends a session
	KillEvery int    `json:"killEvery"` // the server ends the session after this many handled messages
	Senders   int    `json:"senders"`
	PerSender int    `json:"perSender"` // upper bound of sends per sender
	Target    int    `json:"target"`    // the senders stop once this many sessions have been established
	ChanBuf   int    `json:"chanBuf"`
}

type c19StormObs struct {
	Note        string `json:"note,omitempty"`
	Sessions    int    `json:"sessions"`
	Sent        int    `json:"sent"`    // sends that returned nil
	Failed      int    `json:"failed"`  // sends that returned an error
	Handled     int    `json:"handled"` // distinct messages the server handled
	ProbeErr    string `json:"probeErr,omitempty"`
	ProbeNew    bool   `json:"probeNew"`
	PushHandled bool   `json:"pushHandled"`
	NilErrors   int    `json:"nilErrors"` // sends that failed with an error mentioning a nil channel
	Attempts    int    `json:"attempts"`  // probes sent after the storm (real time: until one is carried and answered, at most 6)
}

// runC19Storm runs inside a bubble for the fconn transports (their 5 s I/O poll needs the fake clock) and in real time for the
// in-process transport: there a send can wait on a full queue of a session that has just ended while the other senders wait
// behind the send mutex, which a bubble does not count as blocked, so its clock would never reach the waiting send's deadline.
var c19StormSeq int64

func runC19Storm(c *c19StormCase) *c19StormObs {
	obs := &c19StormObs{}
	virtual := c.Transport != "inproc"
	settle := func(d time.Duration) {
		if virtual {
			synctest.Wait()
			time.Sleep(d)
			synctest.Wait()
		}
	}
	// until polls a condition in real time (a no-op wait in virtual time, where settle has already let everything run)
	until := func(limit time.Duration, cond func() bool) {
		if virtual {
			return
		}
		t0 := time.Now()
		for !cond() && time.Since(t0) < limit {
			time.Sleep(time.Millisecond)
		}
	}
	var mu sync.Mutex
	handled := map[string]string{}
	var sessions []*lime.ServerChannel
	perSession := map[string]int{}
	storm := int32(1)
	cfg := lime.NewServerConfig()
	cfg.Node = srvNode
	cfg.SchemeOpts = []lime.AuthenticationScheme{lime.AuthenticationSchemeGuest}
	cfg.EncryptOpts = []lime.SessionEncryption{lime.SessionEncryptionNone}
	tlsOn := c.Transport == "fconn-tls"
	if tlsOn {
		cfg.EncryptOpts = []lime.SessionEncryption{lime.SessionEncryptionTLS}
	}
	cfg.ChannelBufferSize = c.ChanBuf
	cfg.Authenticate = func(context.Context, lime.Identity, lime.Authentication) (*lime.AuthenticationResult, error) {
		return lime.MemberAuthenticationResult(), nil
	}
	cfg.Register = func(_ context.Context, n lime.Node, _ *lime.ServerChannel) (lime.Node, error) { return n, nil }
	byID := map[string]*lime.ServerChannel{}
	debug := os.Getenv("VERIF_DEBUG") != ""
	t00 := time.Now()
	var events []string
	ev := func(format string, a ...interface{}) { // call with mu held
		if debug {
			events = append(events, fmt.Sprintf("%6.3f ", time.Since(t00).Seconds())+fmt.Sprintf(format, a...))
		}
	}
	cfg.Established = func(id string, ch *lime.ServerChannel) {
		mu.Lock()
		sessions = append(sessions, ch)
		byID[id] = ch
		ev("established %s (#%d)", id, len(sessions))
		mu.Unlock()
	}
	smux := &lime.EnvelopeMux{}
	smux.MessageHandlerFunc(nil, func(ctx context.Context, m *lime.Message, _ lime.Sender) error {
		sid, _ := lime.ContextSessionID(ctx)
		mu.Lock()
		handled[m.ID] = sid
		perSession[sid]++
		n := perSession[sid]
		ch := byID[sid]
		ev("handled %s on %s n=%d storm=%d", m.ID, sid, n, atomic.LoadInt32(&storm))
		mu.Unlock()
		if atomic.LoadInt32(&storm) == 1 && n == c.KillEvery && ch != nil {
			kctx, cancel := context.WithTimeout(context.Background(), time.Second)
			defer cancel()
			switch c.Kill {
			case "fail":
				_ = ch.FailSession(kctx, &lime.Reason{Code: 7, Description: "storm"})
			case "finish":
				if err := ch.FinishSession(kctx); err != nil && os.Getenv("VERIF_DEBUG") != "" {
					fmt.Fprintf(os.Stderr, "finish: %v\n", err)
				}
			default:
				_ = ch.Close()
			}
		}
		return nil
	})
	stls, ctls := TLSConfigs()
	srvTCP, cliTCP := &lime.TCPConfig{}, &lime.TCPConfig{}
	if tlsOn {
		srvTCP.TLSConfig, cliTCP.TLSConfig = stls, ctls
	}
	fl := NewFListener(srvTCP, PipeOpts{Capture: os.Getenv("VERIF_DEBUG") != ""})
	addr := lime.InProcessAddr(fmt.Sprintf("c19storm-%d", atomic.AddInt64(&c19StormSeq, 1)))
	var bl lime.BoundListener
	if c.Transport == "inproc" {
		bl = lime.NewBoundListener(lime.NewInProcessTransportListener(addr), addr)
	} else {
		bl = lime.NewBoundListener(fl, FAddr)
	}
	server := lime.NewServer(cfg, smux, bl)
	done := make(chan error, 1)
	go func() { done <- server.ListenAndServe() }()
	settle(0)

	clientGot := map[string]bool{}
	cmux := &lime.EnvelopeMux{}
	cmux.MessageHandlerFunc(nil, func(_ context.Context, m *lime.Message, _ lime.Sender) error {
		mu.Lock()
		clientGot[m.ID] = true
		mu.Unlock()
		return nil
	})
	ccfg := lime.NewClientConfig()
	ccfg.Node = lime.Node{Identity: lime.Identity{Name: "alice", Domain: "cli.example"}, Instance: "home"}
	ccfg.ChannelBufferSize = c.ChanBuf
	ccfg.CompSelector = lime.NoneCompressionSelector
	ccfg.EncryptSelector = lime.NoneEncryptionSelector
	if tlsOn {
		ccfg.EncryptSelector = lime.TLSEncryptionSelector
	}
	ccfg.Authenticator = lime.GuestAuthenticator
	ccfg.NewTransport = func(context.Context) (lime.Transport, error) {
		if c.Transport == "inproc" {
			// room for everything the senders can have queued: they wait behind the send mutex, which a bubble does not see as blocked
			return lime.DialInProcess(addr, 256)
		}
		t, _, err := fl.DialTransport(cliTCP)
		return t, err
	}
	client := lime.NewClient(ccfg, cmux)
	ectx, ecancel := context.WithTimeout(context.Background(), 20*time.Second)
	err := client.Establish(ectx)
	ecancel()
	if err != nil {
		obs.Note = "harness: initial establish: " + err.Error()
		_ = client.Close()
		_ = server.Close()
		<-done
		return obs
	}
	var wg sync.WaitGroup
	var sent, failed, nilErrs int64
	for g := 0; g < c.Senders; g++ {
		wg.Add(1)
		go func() {
			defer wg.Done()
			for k := 0; k < c.PerSender; k++ {
				mu.Lock()
				enough := len(sessions) >= c.Target
				mu.Unlock()
				if enough {
					return
				}
				// in real time a send that waits on the full queue of a session that has just ended costs its whole deadline,
				// and the other senders queue behind it: keep it short there
				timeout := 2 * time.Second
				if !virtual {
					timeout = 20 * time.Millisecond
				}
				ctx, cancel := context.WithTimeout(context.Background(), timeout)
				err := client.SendMessage(ctx, c13Message(fmt.Sprintf("storm-%d-%d", g, k)))
				cancel()
				atomic.AddInt64(&c19Beat, 1) // progress for the watchdog: a send returned
				if err == nil {
					atomic.AddInt64(&sent, 1)
				} else {
					atomic.AddInt64(&failed, 1)
					if strings.Contains(err.Error(), "nil") {
						atomic.AddInt64(&nilErrs, 1)
					}
				}
			}
		}()
	}
	wg.Wait()
	atomic.StoreInt32(&storm, 0)
	mu.Lock()
	ev("storm over")
	mu.Unlock()
	// a channel Close on TCP first stops its receiver, which can take one I/O poll interval (5 s) before the connection is closed
	settle(6 * time.Second)
	mu.Lock()
	known := map[string]bool{}
	for id := range byID {
		known[id] = true
	}
	mu.Unlock()
	// recovery after the storm. In virtual time everything has settled, so one probe must be carried and answered. In real
	// time the last kill may still be in progress when the probe is sent (it then fails, or is lost with the dying session,
	// which is not a wedge): up to 6 attempts, half a second apart; staying wedged means none of them gets through.
	attempts := 1
	if !virtual {
		attempts = 6
		time.Sleep(20 * time.Millisecond)
	}
	for a := 0; a < attempts; a++ {
		atomic.AddInt64(&c19Beat, 1)
		pid, push := fmt.Sprintf("probe-after-storm-%d", a), fmt.Sprintf("push-after-storm-%d", a)
		pctx, pcancel := context.WithTimeout(context.Background(), 30*time.Second)
		mu.Lock()
		ev("probe %s starts", pid)
		mu.Unlock()
		perr := client.SendMessage(pctx, c13Message(pid))
		pcancel()
		mu.Lock()
		ev("probe %s returned %v", pid, perr)
		mu.Unlock()
		obs.ProbeErr = ""
		if perr != nil {
			obs.ProbeErr = perr.Error()
		}
		settle(100 * time.Millisecond)
		until(500*time.Millisecond, func() bool {
			mu.Lock()
			defer mu.Unlock()
			_, ok := handled[pid]
			return ok || perr != nil
		})
		mu.Lock()
		sid, ok := handled[pid]
		obs.ProbeNew = ok
		var newest *lime.ServerChannel
		if ok {
			newest = byID[sid]
		}
		mu.Unlock()
		if newest != nil {
			ctx, cancel := context.WithTimeout(context.Background(), 2*time.Second)
			_ = newest.SendMessage(ctx, c13Message(push))
			cancel()
			settle(100 * time.Millisecond)
			until(500*time.Millisecond, func() bool {
				mu.Lock()
				defer mu.Unlock()
				return clientGot[push]
			})
			mu.Lock()
			obs.PushHandled = clientGot[push]
			mu.Unlock()
		}
		obs.Attempts = a + 1
		if os.Getenv("VERIF_DEBUG") != "" && virtual && !obs.ProbeNew {
			fl.mu.Lock()
			for i, cn := range fl.Conns {
				if bytes.Contains(cn.Client.Captured(), []byte(pid)) {
					obs.Note += fmt.Sprintf("probe written on conn %d of %d: clientClosed=%v serverClosed=%v serverBuffered=%d serverRead=%d clientWritten=%d; ", i, len(fl.Conns), cn.Client.Closed(), cn.Server.Closed(), cn.Server.Buffered(), cn.Server.TotalRead(), cn.Client.TotalWritten())
				}
			}
			fl.mu.Unlock()
			mu.Lock()
			obs.Note += fmt.Sprintf("sessions=%d", len(sessions))
			if len(events) > 14 {
				events = events[len(events)-14:]
			}
			obs.Note += "\n" + strings.Join(events, "\n")
			mu.Unlock()
		}
		if obs.ProbeErr == "" && obs.ProbeNew && obs.PushHandled {
			break
		}
	}
	mu.Lock()
	obs.Sessions = len(sessions)
	obs.Handled = len(handled)
	mu.Unlock()
	obs.Sent, obs.Failed, obs.NilErrors = int(sent), int(failed), int(nilErrs)
	_ = client.Close()
	_ = server.Close()
	<-done
	fl.mu.Lock()
	for _, cn := range fl.Conns {
		_ = cn.Client.Close()
		_ = cn.Server.Close()
	}
	fl.mu.Unlock()
	settle(6 * time.Second)
	return obs
}

func judgeC19Storm(c *c19StormCase, obs *c19StormObs, o *Outcome) {
	o.Class("storm")
	o.Class("transport=" + c.Transport)
	o.Class("kill=" + c.Kill)
	if strings.HasPrefix(obs.Note, "harness:") {
		o.Fail("C19/harness", "%s", obs.Note)
		return
	}
	o.NonTrivial = obs.Sessions >= 3 && c.Senders >= 2
	if obs.Sessions >= 10 {
		o.Class("sessions>=10")
	}
	key := c.Transport + "/storm-" + c.Kill
	if obs.ProbeErr != "" {
		o.Fail("C19/send-after-fault-failed/"+key, "after %d sessions were taken away under %d concurrent senders, SendMessage with a 30 s context failed: %s", obs.Sessions, c.Senders, obs.ProbeErr)
		return
	}
	if !obs.ProbeNew {
		o.Fail("C19/no-new-session/"+key, "after the storm (%d sessions) the probe message was never handled by the server", obs.Sessions)
		return
	}
	if !obs.PushHandled {
		o.Fail("C19/deaf-after-fault/"+key, "after the storm (%d sessions) a message pushed on the session that carried the probe did not reach the client's handler", obs.Sessions)
	}
}

func c19StormWatch(t *testing.T, rec *Recorder) func() {
	stop := make(chan struct{})
	go c19Watchdog(rec, stop)
	return func() { close(stop) }
}

func TestC19Storm(t *testing.T) {
	rec := NewRecorder("C19", "TestC19Storm")
	defer c19StormWatch(t, rec)()
	rapid.Check(t, func(rt *rapid.T) {
		c := &c19StormCase{
			Transport: rapid.SampledFrom([]string{"inproc", "inproc", "fconn", "fconn-tls"}).Draw(rt, "transport"),
			Kill:      rapid.SampledFrom([]string{"close", "fail", "finish"}).Draw(rt, "kill"),
			KillEvery: rapid.IntRange(1, 4).Draw(rt, "killEvery"),
			Senders:   rapid.SampledFrom([]int{2, 4, 8, 16}).Draw(rt, "senders"),
			PerSender: 5000,
			Target:    rapid.IntRange(5, 120).Draw(rt, "target"),
			ChanBuf:   rapid.SampledFrom([]int{0, 1, 8}).Draw(rt, "chanBuf"),
		}
		if c.Transport == "inproc" && c.Target > 40 {
			c.Target = 40 // real time
		}
		o := &Outcome{}
		var obs *c19StormObs
		rec.Journal(c)
		c19Current.Store(string(toRaw(c)))
		if c.Transport == "inproc" {
			obs = runC19Storm(c)
		} else {
			rapid.SyncTest(rt, func(rt *rapid.T) { obs = runC19Storm(c) })
		}
		atomic.AddInt64(&c19Beat, 1)
		judgeC19Storm(c, obs, o)
		if os.Getenv("VERIF_DEBUG") != "" {
			rt.Logf("case %s obs %s", toRaw(c), toRaw(obs))
			fmt.Fprintf(os.Stderr, "case %s obs %s\n", toRaw(c), toRaw(obs))
		}
		rec.Check(rt, c, o)
	})
}

func TestC19StormReplay(t *testing.T) {
	rec := NewRecorder("C19", "TestC19StormReplay")
	defer rec.Finish(t)
	defer c19StormWatch(t, rec)()
	for _, f := range ReplayFiles("C19") {
		var c c19StormCase
		if err := LoadCase(f, &c); err != nil || c.Kill == "" {
			continue
		}
		for rep := 0; rep < envInt("VERIF_REPS", 1); rep++ {
			o := &Outcome{}
			var obs *c19StormObs
			c19Current.Store(string(toRaw(&c)))
			if c.Transport == "inproc" {
				obs = runC19Storm(&c)
			} else {
				synctest.Test(t, func(t *testing.T) { obs = runC19Storm(&c) })
			}
			atomic.AddInt64(&c19Beat, 1)
			judgeC19Storm(&c, obs, o)
			if os.Getenv("VERIF_DEBUG") != "" && len(o.Violations) > 0 {
				t.Logf("obs %s\n%s", toRaw(obs), obs.Note)
			}
			rec.Eval(&c, o)
		}
	}
}
