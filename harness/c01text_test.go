package harness

import (
	"fmt"
	"testing"

	lime "github.com/takenet/lime-go"
	"pgregory.net/rapid"
)

// all strings over alphabet with length <= n
func allStrings(alphabet []string, n int) []string {
	out := []string{""}
	level := []string{""}
	for i := 0; i < n; i++ {
		var next []string
		for _, s := range level {
			for _, a := range alphabet {
				next = append(next, s+a)
			}
		}
		out = append(out, next...)
		level = next
	}
	return out
}

type textCase struct {
	Form  string   `json:"form"`
	Input string   `json:"input"`
	Parts []string `json:"parts,omitempty"`
}

func checkNodeValue(n lime.Node, o *Outcome) {
	s := n.String()
	if n != (lime.Node{}) && s != NodeText(n) {
		o.Fail("C01/text/node/string", "Node%+v.String()=%q, protocol form %q", n, s, NodeText(n))
	}
	if back := lime.ParseNode(s); back != n {
		o.Fail("C01/text/node/parse-back", "ParseNode(%q)=%+v, want %+v", s, back, n)
	}
	b, err := n.MarshalText()
	var u lime.Node
	if err != nil || u.UnmarshalText(b) != nil || u != n {
		o.Fail("C01/text/node/marshaltext", "MarshalText/UnmarshalText of %+v gave %+v (%v)", n, u, err)
	}
}

func checkIdentityValue(i lime.Identity, o *Outcome) {
	s := i.String()
	if i != (lime.Identity{}) && s != IdentityText(i) {
		o.Fail("C01/text/identity/string", "Identity%+v.String()=%q, protocol form %q", i, s, IdentityText(i))
	}
	if back := lime.ParseIdentity(s); back != i {
		o.Fail("C01/text/identity/parse-back", "ParseIdentity(%q)=%+v, want %+v", s, back, i)
	}
}

func checkMediaTypeValue(m lime.MediaType, o *Outcome) {
	s := m.String()
	if s != MediaTypeText(m) {
		o.Fail("C01/text/mediatype/string", "MediaType%+v.String()=%q, protocol form %q", m, s, MediaTypeText(m))
	}
	back, err := lime.ParseMediaType(s)
	if err != nil || back != m {
		o.Fail("C01/text/mediatype/parse-back", "ParseMediaType(%q)=%+v,%v want %+v", s, back, err, m)
	}
}

func checkURIText(s string, o *Outcome) (accepted bool) {
	u, err := lime.ParseLimeURI(s)
	if err != nil {
		return false
	}
	s2 := u.String()
	u2, err := lime.ParseLimeURI(s2)
	if err != nil {
		o.Fail("C01/text/uri/reparse-error", "ParseLimeURI(%q) ok, its String() %q is rejected: %v", s, s2, err)
		return true
	}
	if u2.String() != s2 || u2.Path() != u.Path() || fmt.Sprint(u2.Owner()) != fmt.Sprint(u.Owner()) {
		o.Fail("C01/text/uri/parse-back", "%q -> %q -> %q (path %q/%q)", s, s2, u2.String(), u.Path(), u2.Path())
	}
	b, err := u.MarshalText()
	var u3 lime.URI
	if err != nil || u3.UnmarshalText(b) != nil || u3.String() != s2 {
		o.Fail("C01/text/uri/marshaltext", "MarshalText/UnmarshalText of %q gave %q (%v)", s2, u3.String(), err)
	}
	return true
}

// TestC01Text: exhaustive enumeration of textual forms over small alphabets.
func TestC01Text(t *testing.T) {
	rec := NewRecorder("C01", "TestC01Text")
	defer rec.Finish(t)
	parts := allStrings([]string{"a", "B", ".", "-", "é", " "}, 2) // 43 strings
	// (i) value -> text -> value
	for _, name := range parts {
		for _, dom := range parts {
			id := lime.Identity{Name: name, Domain: dom}
			o := &Outcome{NonTrivial: name != "" && dom != ""}
			o.Class("form=identity-value")
			checkIdentityValue(id, o)
			rec.Eval(textCase{Form: "identity-value", Parts: []string{name, dom}}, o)
			for _, inst := range parts {
				n := lime.Node{Identity: id, Instance: inst}
				o := &Outcome{NonTrivial: (name != "" && dom != "") || (name != "" && inst != "") || (dom != "" && inst != "")}
				o.Class("form=node-value")
				checkNodeValue(n, o)
				rec.Eval(textCase{Form: "node-value", Parts: []string{name, dom, inst}}, o)
			}
		}
	}
	mparts := allStrings([]string{"a", "b", "-", ".", "x"}, 2)
	for _, ty := range mparts[1:] {
		for _, sub := range mparts[1:] {
			for _, suf := range mparts {
				m := lime.MediaType{Type: ty, Subtype: sub, Suffix: suf}
				o := &Outcome{NonTrivial: true}
				o.Class("form=mediatype-value")
				checkMediaTypeValue(m, o)
				rec.Eval(textCase{Form: "mediatype-value", Parts: []string{ty, sub, suf}}, o)
			}
		}
	}
	// (ii) text -> value -> text -> value over the separator alphabet
	for _, s := range allStrings([]string{"a", "b", "@", "/", "+"}, Scale(6, 7)) {
		o := &Outcome{NonTrivial: len(s) >= 3}
		o.Class("form=parsed-text")
		checkNodeValue(lime.ParseNode(s), o)
		checkIdentityValue(lime.ParseIdentity(s), o)
		if m, err := lime.ParseMediaType(s); err == nil && m != (lime.MediaType{}) {
			checkMediaTypeValue(m, o)
		}
		rec.Eval(textCase{Form: "parsed-text", Input: s}, o)
	}
	acc := 0
	for _, s := range allStrings([]string{"lime:", "/", "a", "@", "?", "%41", " ", "#", "é", "=", "&"}, Scale(4, 5)) {
		o := &Outcome{}
		o.Class("form=uri-text")
		if checkURIText(s, o) {
			acc++
			o.NonTrivial = len(s) >= 3
		}
		rec.Eval(textCase{Form: "uri-text", Input: s}, o)
	}
	rec.Note("uri_texts_accepted", fmt.Sprint(acc))
	rec.Note("exhaustive", "true")
}

// TestC01TextRapid: long / unicode parts.
func TestC01TextRapid(t *testing.T) {
	rec := NewRecorder("C01", "TestC01TextRapid")
	rapid.Check(t, func(rt *rapid.T) {
		o := &Outcome{NonTrivial: true}
		n := GenNode().Draw(rt, "node")
		var c textCase
		if n != nil {
			checkNodeValue(n.Node(), o)
			checkIdentityValue(n.Node().Identity, o)
			c.Parts = []string{n.Name, n.Domain, n.Instance}
		}
		m := GenForeignMT(rapid.Bool().Draw(rt, "json")).Draw(rt, "mt")
		checkMediaTypeValue(m.MT(), o)
		u := GenURI().Draw(rt, "uri")
		c.Form, c.Input = "rapid", u
		if !checkURIText(u, o) {
			o.Class("uri-rejected")
		}
		rec.Check(rt, c, o)
	})
}
