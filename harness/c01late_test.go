package harness

// C01, registered custom types: a document type may be registered after documents of its media type have already passed
// through the codec (the registry is a package-level table; chat.RegisterChatDocuments is meant to be called by the
// application whenever it is ready). Before the registration the content decodes through the generic JSON fallback; from the
// registration on it must decode to the registered type, at top level and nested, on the typed decoders and on a transport's
// receive path - whatever saw the media type first.

import (
	"context"
	"encoding/json"
	"fmt"
	"reflect"
	"sync/atomic"
	"testing"
	"time"

	lime "github.com/takenet/lime-go"
)

type lateDoc struct {
	mt lime.MediaType
	V  string `json:"v"`
	N  int    `json:"n"`
}

func (d *lateDoc) MediaType() lime.MediaType { return d.mt }

type c01LateCase struct {
	First string `json:"first"` // position at which the media type is seen before the registration
	After string `json:"after"` // position checked after the registration
	Path  string `json:"path"`  // typed | transport: which decoder sees it first
}

var c01LatePositions = []string{"message-content", "command-resource", "container-value", "collection-item", "collection-of-containers"}

var c01LateSeq atomic.Int64

func c01LateWire(pos, mt string) (kind string, wire []byte) {
	doc := `{"v":"hello","n":3}`
	switch pos {
	case "message-content":
		return "message", []byte(fmt.Sprintf(`{"id":"1","type":%q,"content":%s}`, mt, doc))
	case "command-resource":
		return "response", []byte(fmt.Sprintf(`{"id":"1","method":"get","status":"success","type":%q,"resource":%s}`, mt, doc))
	case "container-value":
		return "message", []byte(fmt.Sprintf(`{"id":"1","type":"application/vnd.lime.container+json","content":{"type":%q,"value":%s}}`, mt, doc))
	case "collection-item":
		return "message", []byte(fmt.Sprintf(`{"id":"1","type":"application/vnd.lime.collection+json","content":{"total":2,"itemType":%q,"items":[%s,%s]}}`, mt, doc, doc))
	default:
		return "message", []byte(fmt.Sprintf(`{"id":"1","type":"application/vnd.lime.collection+json","content":{"total":1,"itemType":"application/vnd.lime.container+json","items":[{"type":%q,"value":%s}]}}`, mt, doc))
	}
}

// the documents of media type mt found in an envelope, in order
func c01LateDocs(e interface{}, mt lime.MediaType) []lime.Document {
	var out []lime.Document
	var walk func(d lime.Document)
	walk = func(d lime.Document) {
		if d == nil || reflect.ValueOf(d).IsNil() {
			return
		}
		switch x := d.(type) {
		case *lime.DocumentContainer:
			if x.Type == mt {
				out = append(out, x.Value)
			} else {
				walk(x.Value)
			}
		case *lime.DocumentCollection:
			for _, it := range x.Items {
				if x.ItemType == mt {
					out = append(out, it)
				} else {
					walk(it)
				}
			}
		}
	}
	switch x := e.(type) {
	case *lime.Message:
		if x.Type == mt {
			out = append(out, x.Content)
		} else {
			walk(x.Content)
		}
	case *lime.ResponseCommand:
		if x.Type != nil && *x.Type == mt {
			out = append(out, x.Resource)
		} else {
			walk(x.Resource)
		}
	}
	return out
}

func TestC01LateRegistration(t *testing.T) {
	rec := NewRecorder("C01", "TestC01LateRegistration")
	defer rec.Finish(t)
	RegisterDocs()
	rig := newRTRig()
	decode := func(path, kind string, wire []byte) (interface{}, error) {
		if path == "typed" {
			x := NewOfKind(kind)
			err := json.Unmarshal(wire, x)
			return x, err
		}
		ctx, cancel := context.WithTimeout(context.Background(), 5*time.Second)
		defer cancel()
		if _, err := rig.raw.Write(append(append([]byte{}, wire...), '\n')); err != nil {
			return nil, err
		}
		return TReceive(ctx, rig.rawRecv)
	}
	for _, first := range c01LatePositions {
		for _, after := range c01LatePositions {
			for _, path := range []string{"typed", "transport"} {
				c := &c01LateCase{First: first, After: after, Path: path}
				o := &Outcome{NonTrivial: true}
				o.Class("late-registration/first-seen-by=" + path)
				sub := fmt.Sprintf("x-verif-late-%d-%d", time.Now().UnixNano()%1000000, c01LateSeq.Add(1))
				mt := lime.MediaType{Type: "application", Subtype: sub, Suffix: "json"}
				// before the registration: the generic fallback
				kind, wire := c01LateWire(first, mt.String())
				e, err := decode(path, kind, wire)
				if err != nil {
					o.Fail("C01/late-registration/decode-error-before", "%s via %s: %v", first, path, err)
					rec.Eval(c, o)
					continue
				}
				for _, d := range c01LateDocs(e, mt) {
					if _, ok := d.(*lateDoc); ok {
						o.Fail("C01/harness/late", "the type was already registered")
					}
				}
				lime.RegisterDocumentFactory(func() lime.Document { return &lateDoc{mt: mt} })
				// from now on: the registered type, through both decoders
				kind, wire = c01LateWire(after, mt.String())
				for _, p2 := range []string{"typed", "transport"} {
					e, err := decode(p2, kind, wire)
					if err != nil {
						o.Fail("C01/late-registration/decode-error-after/"+after, "%s via %s: %v", after, p2, err)
						continue
					}
					docs := c01LateDocs(e, mt)
					if len(docs) == 0 {
						o.Fail("C01/late-registration/document-missing/"+after, "no document of type %s found in the decoded %s", mt, kind)
					}
					for _, d := range docs {
						ld, ok := d.(*lateDoc)
						if !ok {
							o.Fail("C01/late-registration/fallback-after-registration/"+after, "a document of the registered type %s (first seen as %s via %s, before its registration) decodes as %T via the %s decoder", mt, first, path, d, p2)
						} else if ld.V != "hello" || ld.N != 3 {
							o.Fail("C01/late-registration/content/"+after, "decoded %+v", ld)
						}
					}
					// and back
					if b, err := json.Marshal(e); err != nil {
						o.Fail("C01/late-registration/encode-error/"+after, "%v", err)
					} else {
						var g1, g2 interface{}
						_ = json.Unmarshal(b, &g1)
						_ = json.Unmarshal(wire, &g2)
						if !reflect.DeepEqual(g1, g2) {
							o.Fail("C01/late-registration/reencode-diff/"+after, "wire %s re-encodes as %s", wire, b)
						}
					}
				}
				rec.Eval(c, o)
			}
		}
	}
	rec.Note("exhaustive", "true")
}
