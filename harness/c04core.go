package harness

// C04: delivery exactly once, intact, in per-(sender goroutine, kind) order. Core shared by the virtual-time and real-socket runners.

import (
	"context"
	"fmt"
	"runtime"
	"sort"
	"strings"
	"sync"
	"time"

	lime "github.com/takenet/lime-go"
)

type c04Op struct {
	Kind string `json:"k"` // m n q r  (message notification request response)
	Size int    `json:"s"` // payload padding in bytes
}

type c04Case struct {
	Transport  string    `json:"transport"` // inproc tcp tcp-small tcp-tls | real: tcp tcp-tls ws wss
	ChanBuf    int       `json:"chanBuf"`
	InprocBuf  int       `json:"inprocBuf,omitempty"`
	PipeCap    int       `json:"pipeCap,omitempty"`
	C2S        [][]c04Op `json:"c2s"` // one op list per client-side sender goroutine
	S2C        [][]c04Op `json:"s2c"`
	Consumer   string    `json:"consumer"`        // streams | mux
	Delay      []int     `json:"delay,omitempty"` // per received envelope (cyclic): number of yields (virtual) / 100 µs units (real)
	Real       bool      `json:"real,omitempty"`
	SlowEvery  int       `json:"slowEvery,omitempty"`  // virtual time: every n-th received envelope the consumer pauses ...
	SlowMs     int       `json:"slowMs,omitempty"`     // ... this long (longer than the TCP write poll, so that blocked writes time out and resume)
	IdleMs     int       `json:"idleMs,omitempty"`     // virtual time: the established session stays idle this long before the traffic starts (longer than any deadline of the handshake)
	NoDeadline bool      `json:"noDeadline,omitempty"` // sends use a context without a deadline
	ReadLimit  int64     `json:"readLimit,omitempty"`  // TCP transports: configured read limit (0 = default)
	Trace      bool      `json:"trace,omitempty"`      // TCP transports: a trace writer is configured
	PC         []int     `json:"pc,omitempty"`         // noise next to the traffic: one client goroutine issues a ProcessCommand per entry and cancels it after that many yields; the server's consumer answers each
	PCDup      bool      `json:"pcDup,omitempty"`      // ... twice
}

type c04Side interface {
	sender
	MsgChan() <-chan *lime.Message
	NotChan() <-chan *lime.Notification
	ReqCmdChan() <-chan *lime.RequestCommand
	RespCmdChan() <-chan *lime.ResponseCommand
	Established() bool
}

type c04Obs struct {
	SentOK  map[string][]string `json:"-"` // direction -> ids whose Send returned nil, in completion order per goroutine (id encodes goroutine/seq)
	SendErr map[string]string   `json:"sendErr,omitempty"`
	Recv    map[string][]string `json:"-"` // direction -> ids in the order each consumer saw them, keyed "dir/kind"
	Corrupt []string            `json:"corrupt,omitempty"`
	Note    string              `json:"note,omitempty"`
	NSent   int                 `json:"nSent"`
	NRecv   int                 `json:"nRecv"`
}

func c04ID(dir string, g, seq int, k string) string {
	return fmt.Sprintf("%s-%d-%d-%s", dir, g, seq, k)
}

func c04Payload(id string, size int) string {
	if size <= 0 {
		return id
	}
	return id + ":" + strings.Repeat(string('a'+byte(len(id)%26)), size)
}

func c04Build(id string, op c04Op) interface{} {
	switch op.Kind {
	case "m":
		m := &lime.Message{}
		m.ID = id
		m.SetContent(lime.TextDocument(c04Payload(id, op.Size)))
		return m
	case "n":
		n := &lime.Notification{Event: lime.NotificationEventFailed, Reason: &lime.Reason{Code: len(id), Description: c04Payload(id, op.Size)}}
		n.ID = id
		return n
	case "q":
		r := &lime.RequestCommand{}
		r.ID, r.Method = id, lime.CommandMethodSet
		r.SetURIString("/w/" + id)
		r.SetResource(lime.TextDocument(c04Payload(id, op.Size)))
		return r
	default:
		r := &lime.ResponseCommand{Status: lime.CommandStatusSuccess}
		r.ID, r.Method = id, lime.CommandMethodGet
		r.SetResource(lime.TextDocument(c04Payload(id, op.Size)))
		return r
	}
}

type c04Collector struct {
	mu                sync.Mutex
	recv              map[string][]string
	corrupt           []string
	want              map[string]interface{}
	n                 int
	delay             []int
	real              bool
	replier           map[string]c04Side // dir -> the side that receives in that direction (it answers the ProcessCommand noise)
	pcDup             bool
	slowEvery, slowMs int
}

func (c *c04Collector) got(dir string, kind string, e interface{}) {
	id := envID(e)
	if strings.HasPrefix(id, "pc-") {
		// the ProcessCommand noise is not part of the judged traffic: a request is answered, a late response is ignored
		if rq, ok := e.(*lime.RequestCommand); ok {
			if side := c.replier[dir]; side != nil {
				n := 1
				if c.pcDup {
					n = 2
				}
				for i := 0; i < n; i++ {
					ctx, cancel := context.WithTimeout(context.Background(), time.Second)
					resp := &lime.ResponseCommand{Status: lime.CommandStatusSuccess}
					resp.ID, resp.Method = rq.ID, rq.Method
					_ = side.SendResponseCommand(ctx, resp)
					cancel()
				}
			}
		}
		return
	}
	c.mu.Lock()
	c.recv[dir+"/"+kind] = append(c.recv[dir+"/"+kind], id)
	if w, ok := c.want[id]; !ok {
		c.corrupt = append(c.corrupt, "unknown id "+id)
	} else if d := EqualEnvelopes(w, e); d != "" {
		c.corrupt = append(c.corrupt, id+": "+d)
	}
	c.n++
	n := c.n
	c.mu.Unlock()
	if c.slowEvery > 0 && !c.real && n%c.slowEvery == 0 {
		time.Sleep(time.Duration(c.slowMs) * time.Millisecond)
	}
	if len(c.delay) > 0 {
		d := c.delay[n%len(c.delay)]
		if c.real {
			time.Sleep(time.Duration(d) * 100 * time.Microsecond)
		} else {
			for i := 0; i < d; i++ {
				runtime.Gosched()
			}
		}
	}
}

// consume starts the consumers of one side; they return when the streams are closed or ctx ends.
func (c *c04Collector) consume(ctx context.Context, dir string, side c04Side, mode string, listen func(ctx context.Context, mux *lime.EnvelopeMux) error, wg *sync.WaitGroup) {
	if mode == "mux" {
		mux := &lime.EnvelopeMux{}
		// two overlapping handlers per kind, as an application with a special case in front of its catch-all has them: each
		// envelope is still delivered once
		odd := func(id string) bool {
			n := 0
			for i := 0; i < len(id); i++ {
				n += int(id[i])
			}
			return n%2 == 1
		}
		mux.MessageHandlerFunc(func(m *lime.Message) bool { return odd(m.ID) }, func(_ context.Context, m *lime.Message, _ lime.Sender) error { c.got(dir, "m", m); return nil })
		mux.MessageHandlerFunc(nil, func(_ context.Context, m *lime.Message, _ lime.Sender) error { c.got(dir, "m", m); return nil })
		mux.NotificationHandlerFunc(func(n *lime.Notification) bool { return odd(n.ID) }, func(_ context.Context, n *lime.Notification) error { c.got(dir, "n", n); return nil })
		mux.NotificationHandlerFunc(nil, func(_ context.Context, n *lime.Notification) error { c.got(dir, "n", n); return nil })
		mux.RequestCommandHandlerFunc(func(r *lime.RequestCommand) bool { return odd(r.ID) }, func(_ context.Context, r *lime.RequestCommand, _ lime.Sender) error { c.got(dir, "q", r); return nil })
		mux.RequestCommandHandlerFunc(nil, func(_ context.Context, r *lime.RequestCommand, _ lime.Sender) error { c.got(dir, "q", r); return nil })
		mux.ResponseCommandHandlerFunc(func(r *lime.ResponseCommand) bool { return odd(r.ID) }, func(_ context.Context, r *lime.ResponseCommand, _ lime.Sender) error { c.got(dir, "r", r); return nil })
		mux.ResponseCommandHandlerFunc(nil, func(_ context.Context, r *lime.ResponseCommand, _ lime.Sender) error { c.got(dir, "r", r); return nil })
		wg.Add(1)
		go func() { defer wg.Done(); _ = listen(ctx, mux) }()
		return
	}
	wg.Add(4)
	go func() {
		defer wg.Done()
		for {
			select {
			case <-ctx.Done():
				return
			case e, ok := <-side.MsgChan():
				if !ok {
					return
				}
				c.got(dir, "m", e)
			}
		}
	}()
	go func() {
		defer wg.Done()
		for {
			select {
			case <-ctx.Done():
				return
			case e, ok := <-side.NotChan():
				if !ok {
					return
				}
				c.got(dir, "n", e)
			}
		}
	}()
	go func() {
		defer wg.Done()
		for {
			select {
			case <-ctx.Done():
				return
			case e, ok := <-side.ReqCmdChan():
				if !ok {
					return
				}
				c.got(dir, "q", e)
			}
		}
	}()
	go func() {
		defer wg.Done()
		for {
			select {
			case <-ctx.Done():
				return
			case e, ok := <-side.RespCmdChan():
				if !ok {
					return
				}
				c.got(dir, "r", e)
			}
		}
	}()
}

// c04Drive runs the senders of both directions and returns once all of them have returned.
func c04Drive(c *c04Case, cli, srv c04Side, col *c04Collector, obs *c04Obs, sendTimeout time.Duration) {
	var wg sync.WaitGroup
	var mu sync.Mutex
	obs.SentOK = map[string][]string{}
	obs.SendErr = map[string]string{}
	run := func(dir string, side c04Side, lists [][]c04Op) {
		for g, ops := range lists {
			wg.Add(1)
			go func(g int, ops []c04Op) {
				defer wg.Done()
				for seq, op := range ops {
					id := c04ID(dir, g, seq, op.Kind)
					v := c04Build(id, op)
					ctx, cancel := context.WithTimeout(context.Background(), sendTimeout)
					if c.NoDeadline && seq%2 == 0 {
						cancel()
						ctx, cancel = context.WithCancel(context.Background())
					}
					err := sendOn(ctx, side, v)
					cancel()
					mu.Lock()
					if err != nil {
						obs.SendErr[id] = err.Error()
					} else {
						obs.SentOK[dir] = append(obs.SentOK[dir], id)
					}
					mu.Unlock()
				}
			}(g, ops)
		}
	}
	// expected values must be registered before anything can arrive
	for dir, lists := range map[string][][]c04Op{"c2s": c.C2S, "s2c": c.S2C} {
		for g, ops := range lists {
			for seq, op := range ops {
				id := c04ID(dir, g, seq, op.Kind)
				col.want[id] = c04Build(id, op)
			}
		}
	}
	run("c2s", cli, c.C2S)
	run("s2c", srv, c.S2C)
	if len(c.PC) > 0 {
		col.mu.Lock()
		col.replier, col.pcDup = map[string]c04Side{"c2s": srv}, c.PCDup
		col.mu.Unlock()
		wg.Add(1)
		go func() {
			defer wg.Done()
			for i, k := range c.PC {
				ctx, cancel := context.WithCancel(context.Background())
				go func() {
					if col.real {
						time.Sleep(time.Duration(k) * 20 * time.Microsecond)
					} else {
						for j := 0; j < k; j++ {
							runtime.Gosched()
						}
					}
					cancel()
				}()
				req := &lime.RequestCommand{}
				req.ID, req.Method = fmt.Sprintf("pc-%d", i), lime.CommandMethodGet
				req.SetURIString("/pc")
				_, _ = cli.ProcessCommand(ctx, req)
				cancel()
			}
		}()
	}
	wg.Wait()
}

func judgeC04(c *c04Case, obs *c04Obs, o *Outcome) {
	o.Class("transport=" + c.Transport)
	o.Class(fmt.Sprintf("chanBuf=%d", c.ChanBuf))
	o.Class("consumer=" + c.Consumer)
	if c.Real {
		o.Class("real-sockets")
	}
	if strings.HasPrefix(obs.Note, "harness:") {
		o.Fail("C04/harness/"+c.Transport, "%s", obs.Note)
		return
	}
	if strings.HasPrefix(obs.Note, "skip:") || strings.HasPrefix(obs.Note, "inconclusive:") {
		o.Class(strings.SplitN(obs.Note, ":", 2)[0])
		return
	}
	kinds := map[string]bool{}
	senders := 0
	for _, l := range append(append([][]c04Op{}, c.C2S...), c.S2C...) {
		if len(l) > 0 {
			senders++
		}
		for _, op := range l {
			kinds[op.Kind] = true
		}
	}
	both := len(c.C2S) > 0 && len(c.S2C) > 0
	o.NonTrivial = (len(kinds) >= 2 && senders >= 2) || both || c.ChanBuf == 0
	if len(c.PC) > 0 {
		o.Class("with-processcommand-noise")
	}
	if c.ReadLimit != 0 {
		o.Class("small-read-limit")
	}
	if c.SlowEvery > 0 {
		o.Class("slow-consumer")
	}
	if c.IdleMs > 0 {
		o.Class("idle-before-traffic")
	}
	if c.NoDeadline {
		o.Class("sends-without-deadline")
	}
	if c.Trace {
		o.Class("traced")
	}
	if len(obs.SendErr) > 0 {
		// while the session stays established every send must succeed
		var first string
		for id, e := range obs.SendErr {
			first = id + ": " + e
			break
		}
		o.Fail("C04/send-failed-while-established/"+c.Transport, "%d send(s) failed, e.g. %s", len(obs.SendErr), first)
	}
	for _, x := range obs.Corrupt {
		cls := "corrupted"
		if strings.HasPrefix(x, "unknown id") {
			cls = "invented"
		}
		o.Fail("C04/"+cls+"/"+c.Transport, "%s", x)
		break
	}
	for _, dir := range []string{"c2s", "s2c"} {
		sent := append([]string(nil), obs.SentOK[dir]...)
		var recv []string
		for _, k := range []string{"m", "n", "q", "r"} {
			ids := obs.Recv[dir+"/"+k]
			recv = append(recv, ids...)
			// per (sender goroutine, kind) order
			last := map[string]int{}
			for _, id := range ids {
				var d string
				var g, seq int
				var kk string
				parts := strings.Split(id, "-")
				if len(parts) != 4 {
					continue
				}
				d = parts[0]
				fmt.Sscanf(parts[1], "%d", &g)
				fmt.Sscanf(parts[2], "%d", &seq)
				kk = parts[3]
				key := fmt.Sprintf("%s-%d-%s", d, g, kk)
				if prev, ok := last[key]; ok && seq < prev {
					o.Fail("C04/reordered/"+c.Transport, "direction %s kind %s: envelope %s arrived after seq %d of the same sender goroutine", dir, k, id, prev)
				}
				last[key] = seq
				if kk != k {
					o.Fail("C04/wrong-stream/"+c.Transport, "envelope %s was delivered on the %s stream", id, k)
				}
			}
		}
		sort.Strings(sent)
		sort.Strings(recv)
		if strings.Join(sent, ",") != strings.Join(recv, ",") {
			// classify
			cnt := map[string]int{}
			for _, id := range recv {
				cnt[id]++
			}
			dup, lost, extra := "", "", ""
			sentSet := map[string]bool{}
			for _, id := range sent {
				sentSet[id] = true
				if cnt[id] == 0 && lost == "" {
					lost = id
				}
			}
			for id, n := range cnt {
				if n > 1 && dup == "" {
					dup = id
				}
				if !sentSet[id] && extra == "" {
					extra = id
				}
			}
			switch {
			case dup != "":
				o.Fail("C04/duplicated/"+c.Transport, "direction %s: %s was delivered %d times", dir, dup, cnt[dup])
			case lost != "":
				o.Fail("C04/lost/"+c.Transport, "direction %s: %s was sent successfully but never delivered (%d sent, %d received)", dir, lost, len(sent), len(recv))
			case extra != "":
				o.Fail("C04/delivered-but-send-failed/"+c.Transport, "direction %s: %s was delivered although its send reported an error", dir, extra)
			}
		}
	}
}
