package harness

// A real-time watchdog that lives outside any bubble. A library goroutine that spins freezes a bubble's fake clock, and one
// that waits for a lock which is never released is not "durably blocked" either: in both cases the case under test never
// ends and the run would only time out (inconclusive). The watchdog turns the two situations into verdicts: after 8 s
// without a heartbeat it takes two stack dumps one second apart, writes the violation itself (attributed to the journalled
// case) and ends the process with the code the driver understands.

import (
	"os"
	"runtime"
	"strings"
	"sync/atomic"
	"time"
)

type SpinWatch struct {
	prop string
	idle int // seconds without a heartbeat before the watchdog looks
	beat int64
	cur  atomic.Value
	stop chan struct{}
}

func StartSpinWatch(prop string) *SpinWatch { return StartSpinWatchAfter(prop, 8) }

// StartSpinWatchAfter is StartSpinWatch with a patience other than 8 s (cases that legitimately take seconds of real time).
func StartSpinWatchAfter(prop string, idleSeconds int) *SpinWatch {
	w := &SpinWatch{prop: prop, idle: idleSeconds, stop: make(chan struct{})}
	go w.run()
	return w
}

func (w *SpinWatch) Beat()              { atomic.AddInt64(&w.beat, 1) }
func (w *SpinWatch) Case(c interface{}) { w.cur.Store(string(toRaw(c))); w.Beat() }
func (w *SpinWatch) Stop()              { close(w.stop) }

func libGoroutines(pred func(head, body string) bool) []string {
	buf := make([]byte, 4<<20)
	n := runtime.Stack(buf, true)
	var out []string
	for _, g := range strings.Split(string(buf[:n]), "\n\n") {
		head := strings.SplitN(g, "\n", 2)[0]
		if strings.Contains(g, "github.com/takenet/lime-go") && pred(head, g) {
			out = append(out, truncate(g, 1500))
		}
	}
	return out
}

func (w *SpinWatch) run() {
	last := atomic.LoadInt64(&w.beat)
	idle := 0
	for {
		select {
		case <-w.stop:
			return
		case <-time.After(time.Second):
		}
		cur := atomic.LoadInt64(&w.beat)
		if cur != last {
			last, idle = cur, 0
			continue
		}
		idle++
		if idle < w.idle {
			continue
		}
		running := func(head, _ string) bool {
			return strings.Contains(head, "[running") || strings.Contains(head, "[runnable")
		}
		s1 := libGoroutines(running)
		time.Sleep(time.Second)
		s2 := libGoroutines(running)
		cs, _ := w.cur.Load().(string)
		frameOf := func(g string) string {
			if m := limeFrameRe.FindStringSubmatch(g); m != nil {
				return m[1]
			}
			return "unknown"
		}
		switch {
		case len(s1) > 0 && len(s2) > 0:
			WriteFuzzViolation(w.prop, Verdict{Sig: w.prop + "/library-goroutine-spins/" + frameOf(s2[0]),
				Detail: "a library goroutine keeps running without ever blocking (the bubble's fake clock cannot advance; two dumps one second apart show):\n" + s2[0]}, rawJSON(cs))
		default:
			locked := libGoroutines(func(head, _ string) bool {
				return strings.Contains(head, "sync.Mutex.Lock") || strings.Contains(head, "sync.RWMutex")
			})
			if len(locked) > 0 {
				WriteFuzzViolation(w.prop, Verdict{Sig: w.prop + "/library-goroutine-waits-for-a-lock-for-ever/" + frameOf(locked[0]),
					Detail: "no progress for several seconds; library goroutines wait for a lock that is not released:\n" + truncate(strings.Join(locked, "\n\n"), 20000)}, rawJSON(cs))
			} else {
				all := libGoroutines(func(string, string) bool { return true })
				WriteFuzzViolation(w.prop, Verdict{Sig: w.prop + "/harness/stalled", Detail: "no progress for several seconds without a running library goroutine:\n" + truncate(strings.Join(all, "\n\n"), 30000)}, rawJSON(cs))
			}
		}
		FlushAll()
		os.Exit(7)
	}
}
