//go:build go1.25

package harness

import (
	"context"
	"errors"
	"fmt"
	"sort"
	"strings"
	"sync"
	"testing"
	"testing/synctest"
	"time"

	lime "github.com/takenet/lime-go"
	"pgregory.net/rapid"
)

type c05Step struct {
	Op   string   `json:"op"`             // call | respond | burst | cancel | sleep | drain (the stalled peer reads what is queued)
	ID   string   `json:"id,omitempty"`   // call / respond
	Ctx  string   `json:"ctx,omitempty"`  // call: none | deadline | cancel
	Ms   int      `json:"ms,omitempty"`   // call: deadline; sleep: duration
	Call int      `json:"call,omitempty"` // cancel: index of the call (in order of call steps)
	IDs  []string `json:"ids,omitempty"`  // burst: responses sent back-to-back
}

type c05Case struct {
	Role      string    `json:"role"`            // client | server
	Transport string    `json:"transport"`       // tcp | inproc
	Stall     bool      `json:"stall,omitempty"` // tiny buffers and a peer that does not read until a drain step: sends block and fail with their context
	Steps     []c05Step `json:"steps"`
	PeerDrops bool      `json:"peerDrops,omitempty"` // after the last step the peer hangs up while calls may still be pending
}

type c05CallObs struct {
	ID       string `json:"id"`
	Returned bool   `json:"returned"`
	RespID   string `json:"respId,omitempty"`
	RespTag  string `json:"respTag,omitempty"`
	Err      string `json:"err,omitempty"`
	CtxErr   bool   `json:"ctxErr,omitempty"` // the error wraps the call's context error
	DupErr   bool   `json:"dupErr,omitempty"` // "already in use"
	Lost     bool   `json:"lost,omitempty"`   // the channel was no longer established when the call returned
	AtStep   int    `json:"atStep"`           // step index after which the return was observed
}

type c05Obs struct {
	Calls     []*c05CallObs `json:"calls"`
	Leftover  string        `json:"leftover,omitempty"`  // library goroutines still alive after both ends were closed and the release bound passed
	LostAtEnd bool          `json:"lostAtEnd,omitempty"` // the channel was no longer established after the last step
	Stream    []string      `json:"stream"`              // tags of responses surfaced on RespCmdChan
	SentTags  []string      `json:"sentTags"`            // tag of every response the peer sent, in order ("id#n")
	Requests  []string      `json:"requests"`            // request ids the peer saw, in order
	Note      string        `json:"note,omitempty"`
}

type c05Peer interface {
	SendResponse(id, tag string) error
	SeenRequests() []string
	Close()
}

type c05RawPeer struct{ p *RawPeer }

func (r *c05RawPeer) SendResponse(id, tag string) error {
	return r.p.SendEnv(M{"id": id, "method": "get", "status": "success", "type": "text/plain", "resource": tag})
}
func (r *c05RawPeer) SeenRequests() []string {
	r.p.Drain()
	var out []string
	for _, g := range r.p.Got {
		if g.Env["method"] != nil && g.Env["uri"] != nil {
			id, _ := g.Env["id"].(string)
			out = append(out, id)
		}
	}
	return out
}
func (r *c05RawPeer) Close() { r.p.Close() }

type c05InprocPeer struct{ p *InprocPeer }

func (r *c05InprocPeer) SendResponse(id, tag string) error {
	resp := &lime.ResponseCommand{Status: lime.CommandStatusSuccess}
	resp.ID, resp.Method = id, lime.CommandMethodGet
	resp.SetResource(lime.TextDocument(tag))
	return r.p.SendEnvelope(resp)
}
func (r *c05InprocPeer) SeenRequests() []string {
	r.p.DrainNow()
	var out []string
	for _, g := range r.p.Got {
		if g.Env["method"] != nil && g.Env["uri"] != nil {
			id, _ := g.Env["id"].(string)
			out = append(out, id)
		}
	}
	return out
}
func (r *c05InprocPeer) Close() { _ = r.p.T.Close() }

type c05Channel interface {
	ProcessCommand(ctx context.Context, cmd *lime.RequestCommand) (*lime.ResponseCommand, error)
	RespCmdChan() <-chan *lime.ResponseCommand
	Established() bool
	Close() error
}

// establishVsPeer establishes the channel under test against a scripted peer.
func establishVsPeer(role, transport string, stall bool) (c05Channel, c05Peer, string) {
	ctx, cancel := context.WithTimeout(context.Background(), 20*time.Second)
	defer cancel()
	var raw *RawPeer
	var ip *InprocPeer
	var libT lime.Transport
	if transport == "inproc" {
		buf := 256 // large enough that no send ever blocks behind the send mutex (synctest cannot see mutex waits as durable)
		if stall {
			buf = 1 // stalled cases issue one call at a time
		}
		ct, st := lime.VerifNewInProcessTransportPair("c05", buf)
		if role == "client" {
			libT, ip = ct, &InprocPeer{T: st}
		} else {
			libT, ip = st, &InprocPeer{T: ct}
		}
	} else {
		po := PipeOpts{}
		if stall {
			po.Capacity = 400
		}
		a, b := Pipe(po)
		libT = lime.VerifNewTCPTransport(a, nil, role == "server")
		raw = NewRawPeer(b)
	}
	send := func(s *lime.Session) {
		if raw != nil {
			m, _ := CanonOf(s)
			_ = raw.SendEnv(m)
		} else {
			_ = ip.SendEnvelope(s)
		}
	}
	var ch c05Channel
	done := make(chan error, 1)
	if role == "client" {
		cc := lime.NewClientChannel(libT, 2)
		ch = cc
		go func() {
			_, err := cc.EstablishSession(ctx, lime.NoneCompressionSelector, lime.NoneEncryptionSelector, lime.Identity{Name: "alice", Domain: "cli.example"}, lime.GuestAuthenticator, "home")
			done <- err
		}()
		synctest.Wait()
		drainIP(ip)
		a := &lime.Session{State: lime.SessionStateAuthenticating, SchemeOptions: []lime.AuthenticationScheme{lime.AuthenticationSchemeGuest}}
		a.ID, a.From = "S1", srvNode
		send(a)
		synctest.Wait()
		drainIP(ip)
		e := &lime.Session{State: lime.SessionStateEstablished}
		e.ID, e.From, e.To = "S1", srvNode, lime.Node{Identity: lime.Identity{Name: "alice", Domain: "cli.example"}, Instance: "home"}
		send(e)
	} else {
		sc := lime.NewServerChannel(libT, 2, srvNode, fixedSid)
		ch = sc
		go func() {
			done <- sc.EstablishSession(ctx, []lime.SessionCompression{lime.SessionCompressionNone}, []lime.SessionEncryption{lime.SessionEncryptionNone},
				[]lime.AuthenticationScheme{lime.AuthenticationSchemeGuest},
				func(context.Context, lime.Identity, lime.Authentication) (*lime.AuthenticationResult, error) {
					return lime.MemberAuthenticationResult(), nil
				}, func(_ context.Context, n lime.Node, _ *lime.ServerChannel) (lime.Node, error) { return n, nil })
		}()
		synctest.Wait()
		send(&lime.Session{State: lime.SessionStateNew})
		synctest.Wait()
		drainIP(ip)
		a := &lime.Session{State: lime.SessionStateAuthenticating}
		a.ID = fixedSid
		a.From = lime.Node{Identity: lime.Identity{Name: "alice", Domain: "cli.example"}, Instance: "home"}
		a.SetAuthentication(&lime.GuestAuthentication{})
		send(a)
	}
	if ip != nil {
		// a one-slot queue must be emptied for the handshake to go on
		stop := make(chan struct{})
		go func() {
			for {
				select {
				case <-stop:
					return
				default:
					ip.Drain()
				}
			}
		}()
		err := <-done
		close(stop)
		done <- err
	}
	if err := <-done; err != nil || !ch.Established() {
		_ = ch.Close()
		_ = libT.Close()
		return nil, nil, fmt.Sprintf("harness: establish failed: %v", err)
	}
	var peer c05Peer
	if raw != nil {
		raw.Drain()
		raw.Got = nil
		peer = &c05RawPeer{raw}
	} else {
		ip.Drain()
		ip.Got = nil
		peer = &c05InprocPeer{ip}
	}
	return ch, peer, ""
}

func drainIP(ip *InprocPeer) {
	if ip != nil {
		ip.Drain()
	}
}

func textOf(d lime.Document) string {
	switch v := d.(type) {
	case *lime.TextDocument:
		return string(*v)
	case lime.TextDocument:
		return string(v)
	}
	return ""
}

func runC05(c *c05Case) *c05Obs {
	obs := &c05Obs{}
	ch, peer, note := establishVsPeer(c.Role, c.Transport, c.Stall)
	if note != "" {
		obs.Note = note
		return obs
	}
	var mu sync.Mutex
	// stream consumer
	streamDone := make(chan struct{})
	go func() {
		defer close(streamDone)
		for r := range ch.RespCmdChan() {
			tag := textOf(r.Resource)
			mu.Lock()
			obs.Stream = append(obs.Stream, tag)
			mu.Unlock()
		}
	}()
	type callState struct {
		cancel context.CancelFunc
		obs    *c05CallObs
	}
	var calls []*callState
	curStep := 0
	draining := false
	var wg sync.WaitGroup
	sentCount := map[string]int{}
	respond := func(id string) {
		sentCount[id]++
		tag := fmt.Sprintf("%s#%d", id, sentCount[id])
		obs.SentTags = append(obs.SentTags, tag)
		_ = peer.SendResponse(id, tag)
	}
	twins := c05TwinCalls(c)
	for si, st := range c.Steps {
		curStep = si
		startCall := func() {
			var ctx context.Context
			var cancel context.CancelFunc
			switch st.Ctx {
			case "deadline":
				ctx, cancel = context.WithTimeout(context.Background(), time.Duration(st.Ms)*time.Millisecond)
			default:
				ctx, cancel = context.WithCancel(context.Background())
			}
			co := &c05CallObs{ID: st.ID, AtStep: -1}
			cs := &callState{cancel: cancel, obs: co}
			calls = append(calls, cs)
			obs.Calls = append(obs.Calls, co)
			wg.Add(1)
			go func() {
				defer wg.Done()
				req := &lime.RequestCommand{}
				req.ID, req.Method = st.ID, lime.CommandMethodGet
				req.SetURIString("/res/" + st.ID)
				resp, err := ch.ProcessCommand(ctx, req)
				mu.Lock()
				defer mu.Unlock()
				co.Returned = true
				co.AtStep = curStep
				if err != nil {
					co.Err = err.Error()
					co.CtxErr = ctx.Err() != nil && errors.Is(err, ctx.Err())
					co.DupErr = strings.Contains(err.Error(), "already in use")
					co.Lost = !ch.Established()
				} else if resp != nil {
					co.RespID = resp.ID
					co.RespTag = textOf(resp.Resource)
				}
			}()
		}
		switch st.Op {
		case "call":
			startCall()
		case "twins":
			// two callers use the same identifier at the same moment: exactly one of them may hold it
			startCall()
			startCall()
		case "respond":
			respond(st.ID)
		case "burst":
			for _, id := range st.IDs {
				respond(id)
			}
		case "cancel":
			if st.Call < len(calls) && !twins[st.Call] {
				calls[st.Call].cancel()
			}
		case "race":
			// the caller's context ends and the response arrives at the same moment: no settling in between
			if st.Call < len(calls) && !twins[st.Call] {
				calls[st.Call].cancel()
			}
			respond(st.ID)
		case "sleep":
			time.Sleep(time.Duration(st.Ms) * time.Millisecond)
		case "drain":
			draining = true
		}
		if draining {
			// from now on the peer reads again (otherwise a later send would block behind the send mutex, which a bubble
			// cannot see as a durable block)
			synctest.Wait()
			_ = peer.SeenRequests()
		}
		synctest.Wait()
	}
	curStep = len(c.Steps)
	obs.Requests = peer.SeenRequests()
	obs.LostAtEnd = !ch.Established()
	if c.PeerDrops {
		// the session ends under the pending calls: each of them still ends with its response or an error, never with nothing
		peer.Close()
		synctest.Wait()
		time.Sleep(6 * time.Second)
		synctest.Wait()
	}
	for _, cs := range calls {
		cs.cancel()
	}
	synctest.Wait()
	wg.Wait()
	peer.Close()
	_ = ch.Close()
	<-streamDone
	time.Sleep(6 * time.Second)
	synctest.Wait()
	if lib, other := bubbleLeftovers(); len(lib) > 0 {
		obs.Leftover = strings.Join(lib, "\n--\n")
	} else if len(other) > 0 {
		obs.Note = "harness: goroutines outlive the case:\n" + strings.Join(other, "\n--\n")
	}
	return obs
}

// c05Model replays the steps on a pending-command table and says, per call, what must come back, and which
// responses must surface on the stream.
type c05Exp struct {
	Outcome string // response | ctx | dup | ctx-at-end
	Tag     string
}

// c05TwinCalls returns the call indexes that belong to a "twins" step. Which of the two holds the identifier is not known
// beforehand, so cancel and race steps that name one of them are no-ops (in the run and in the model alike).
func c05TwinCalls(c *c05Case) map[int]bool {
	out := map[int]bool{}
	n := 0
	for _, st := range c.Steps {
		switch st.Op {
		case "call":
			n++
		case "twins":
			out[n], out[n+1] = true, true
			n += 2
		}
	}
	return out
}

func c05Model(c *c05Case) ([]c05Exp, []string) {
	exp, stream, _ := c05ModelRace(c)
	return exp, stream
}

// c05ModelRace also returns, per call index, the response tag that raced with the end of that call's context: the call
// returns either that response or its context's error, and in the second case the response belongs on the stream.
func c05ModelRace(c *c05Case) ([]c05Exp, []string, map[int]string) {
	raced := map[int]string{}
	twins := c05TwinCalls(c)
	type pend struct {
		call     int
		deadline int // virtual ms, -1 none
	}
	pending := map[string]*pend{}
	var exp []c05Exp
	var stream []string
	sent := map[string]int{}
	now := 0
	deliver := func(id string) {
		sent[id]++
		tag := fmt.Sprintf("%s#%d", id, sent[id])
		if p, ok := pending[id]; ok {
			exp[p.call] = c05Exp{Outcome: "response", Tag: tag}
			delete(pending, id)
		} else {
			stream = append(stream, tag)
		}
	}
	for _, st := range c.Steps {
		switch st.Op {
		case "call":
			idx := len(exp)
			if _, ok := pending[st.ID]; ok {
				exp = append(exp, c05Exp{Outcome: "dup"})
				continue
			}
			exp = append(exp, c05Exp{Outcome: "ctx-at-end"})
			p := &pend{call: idx, deadline: -1}
			if st.Ctx == "deadline" {
				p.deadline = now + st.Ms
			}
			pending[st.ID] = p
		case "twins":
			idx := len(exp)
			if _, ok := pending[st.ID]; ok {
				exp = append(exp, c05Exp{Outcome: "dup"}, c05Exp{Outcome: "dup"})
				continue
			}
			// the first entry stands for whichever of the two is accepted, the second says "the other one of the pair"
			exp = append(exp, c05Exp{Outcome: "ctx-at-end"}, c05Exp{Outcome: "twin-of-previous"})
			pending[st.ID] = &pend{call: idx, deadline: -1}
		case "respond":
			deliver(st.ID)
		case "burst":
			for _, id := range st.IDs {
				deliver(id)
			}
		case "cancel":
			if twins[st.Call] {
				continue
			}
			for id, p := range pending {
				if p.call == st.Call {
					exp[p.call] = c05Exp{Outcome: "ctx"}
					delete(pending, id)
				}
			}
		case "race":
			if twins[st.Call] {
				deliver(st.ID)
				continue
			}
			if p, ok := pending[st.ID]; ok && p.call == st.Call {
				sent[st.ID]++
				tag := fmt.Sprintf("%s#%d", st.ID, sent[st.ID])
				exp[p.call] = c05Exp{Outcome: "response-or-ctx", Tag: tag}
				raced[p.call] = tag
				delete(pending, st.ID)
			} else {
				// the call is no longer pending (or another call holds the id): an ordinary cancellation and an ordinary response
				for id, q := range pending {
					if q.call == st.Call {
						exp[q.call] = c05Exp{Outcome: "ctx"}
						delete(pending, id)
					}
				}
				deliver(st.ID)
			}
		case "sleep":
			now += st.Ms
			for id, p := range pending {
				if p.deadline >= 0 && p.deadline <= now {
					exp[p.call] = c05Exp{Outcome: "ctx"}
					delete(pending, id)
				}
			}
		}
	}
	return exp, stream, raced
}

func judgeC05(c *c05Case, obs *c05Obs, o *Outcome) {
	o.Class("role=" + c.Role)
	o.Class("transport=" + c.Transport)
	if c.Stall {
		o.Class("stalled-peer")
	}
	if strings.HasPrefix(obs.Note, "harness:") {
		o.Fail("C05/harness", "%s", obs.Note)
		return
	}
	if c.PeerDrops {
		o.Class("peer-drops-under-pending-calls")
	}
	for i, a := range obs.Calls {
		if a.Returned && a.Err == "" && a.RespID == "" {
			o.Fail("C05/call-returned-nothing", "call #%d (id %s) returned neither a response nor an error", i, a.ID)
		}
	}
	exp, stream, raced := c05ModelRace(c)
	inflight, nonIdentity := 0, false
	for _, st := range c.Steps {
		switch st.Op {
		case "call":
			inflight++
		case "burst":
			nonIdentity = true
		}
	}
	lost := false
	optional := map[string]bool{}
	// twins: the model's first entry of a pair describes the accepted caller, whichever of the two that turned out to be
	calls := append([]*c05CallObs(nil), obs.Calls...)
	for i := 1; i < len(exp) && i < len(calls); i++ {
		if exp[i].Outcome != "twin-of-previous" {
			continue
		}
		o.Class("same-id-at-the-same-moment")
		a, b := calls[i-1], calls[i]
		if (a.Returned && a.Err != "" && !a.CtxErr && !a.DupErr && a.Lost) || (b.Returned && b.Err != "" && !b.CtxErr && !b.DupErr && b.Lost) {
			// the session was gone when one of them ran: nothing to say about the pair (the loss itself is handled below)
			exp[i-1], exp[i] = c05Exp{Outcome: "skip"}, c05Exp{Outcome: "skip"}
			continue
		}
		switch {
		case a.Returned && a.DupErr && !(b.Returned && b.DupErr):
			calls[i-1], calls[i] = b, a // b was the accepted one
			exp[i] = c05Exp{Outcome: "dup"}
		case b.Returned && b.DupErr:
			exp[i] = c05Exp{Outcome: "dup"}
			if a.Returned && a.DupErr {
				o.Fail("C05/both-twins-rejected", "two simultaneous requests with the fresh id %q were both rejected as duplicates", a.ID)
			}
		default:
			o.Fail("C05/reused-pending-id-not-rejected/simultaneous", "two simultaneous requests with id %q were both accepted (results: %q/%q and %q/%q)", a.ID, a.RespTag, a.Err, b.RespTag, b.Err)
			exp[i] = c05Exp{Outcome: "skip"}
		}
	}
	for i, co := range calls {
		e := exp[i]
		if e.Outcome == "skip" {
			continue
		}
		if co.Returned && co.Err != "" && !co.CtxErr && !co.DupErr && co.Lost {
			// The session itself ended (a transport whose write failed mid-envelope is closed): what the property says about
			// pending requests presupposes a live session, so the rest of the history is not judged.
			o.Class("session-lost-after-failed-send")
			lost = true
			break
		}
		o.Class("expected=" + e.Outcome)
		if !co.Returned {
			o.Fail("C05/call-never-returned/"+e.Outcome, "ProcessCommand #%d (id %q) did not return even after its context was cancelled", i, co.ID)
			continue
		}
		switch e.Outcome {
		case "response":
			if co.Err != "" {
				o.Fail("C05/pending-call-failed", "call #%d (id %q) should complete with response %s, got error %q", i, co.ID, e.Tag, co.Err)
			} else if co.RespID != co.ID {
				o.Fail("C05/response-with-other-id", "call #%d (id %q) returned a response with id %q", i, co.ID, co.RespID)
			} else if co.RespTag != e.Tag {
				o.Fail("C05/wrong-response-instance", "call #%d (id %q) returned response %q, expected %q", i, co.ID, co.RespTag, e.Tag)
			}
		case "dup":
			if !co.DupErr {
				o.Fail("C05/reused-pending-id-not-rejected", "call #%d reuses id %q while it is pending; result: resp=%q err=%q", i, co.ID, co.RespTag, co.Err)
			}
		case "response-or-ctx":
			o.Class("response-raced-with-cancellation")
			if co.Err == "" {
				if co.RespTag != e.Tag {
					o.Fail("C05/wrong-response-instance", "call #%d (id %q) returned response %q, expected %q or its context's error", i, co.ID, co.RespTag, e.Tag)
				}
			} else if !co.CtxErr {
				o.Fail("C05/error-not-context", "call #%d (id %q) failed with %q, expected response %s or its context's error", i, co.ID, co.Err, e.Tag)
			} else {
				// the caller left with its context's error. The response met a request that was still pending when it arrived (then
				// it is consumed with it) or one that had just gone (then it belongs on the stream): both are within the statement
				optional[raced[i]] = true
			}
		case "ctx", "ctx-at-end":
			if co.Err == "" {
				o.Fail("C05/unrelated-response-delivered", "call #%d (id %q) has no matching response but returned %q", i, co.ID, co.RespTag)
			} else if !co.CtxErr {
				o.Fail("C05/error-not-context", "call #%d (id %q) failed with %q, expected its context's error", i, co.ID, co.Err)
			}
		}
	}
	if !lost && obs.LostAtEnd && c.Stall && c.Transport == "tcp" {
		// a send that failed half-written ended the session although no later call noticed: responses sent after that are not owed
		o.Class("session-lost-after-failed-send")
		lost = true
	}
	// conservation: everything the peer sent went to a caller or to the stream, and nothing else appeared
	var got []string
	for _, tag := range obs.Stream {
		if optional[tag] {
			optional[tag] = false // at most once
			continue
		}
		got = append(got, tag)
	}
	want := append([]string(nil), stream...)
	sort.Strings(got)
	sort.Strings(want)
	if !lost && strings.Join(got, ",") != strings.Join(want, ",") {
		sig := "C05/stream-mismatch"
		if len(got) < len(want) {
			sig = "C05/unmatched-response-lost"
		} else if len(got) > len(want) {
			sig = "C05/unexpected-response-on-stream"
		}
		o.Fail(sig, "responses surfaced on the response stream: %v, expected %v (peer sent %v)", obs.Stream, stream, obs.SentTags)
	}
	if obs.Leftover != "" {
		o.Fail("C05/goroutine-stuck", "after the channel was closed and the release bound had passed, library goroutines were still alive (a receiver that cannot hand over a response?):\n%s", truncate(obs.Leftover, 1500))
	}
	if len(stream) > 0 {
		o.Class("has-unmatched-responses")
		nonIdentity = true
	}
	o.NonTrivial = (inflight >= 2 && nonIdentity) || len(stream) > 0
}

func genC05(rt *rapid.T) *c05Case {
	c := &c05Case{Role: rapid.SampledFrom([]string{"client", "server"}).Draw(rt, "role"), Transport: rapid.SampledFrom([]string{"tcp", "inproc"}).Draw(rt, "transport")}
	ids := []string{"a", "b", "c", "d", "e", "f", "g", "h"}
	n := rapid.IntRange(1, 40).Draw(rt, "steps")
	ncalls := 0
	var callIDs []string
	races := 0
	for i := 0; i < n; i++ {
		switch rapid.IntRange(0, 11).Draw(rt, "op") {
		case 11:
			c.Steps = append(c.Steps, c05Step{Op: "twins", ID: rapid.SampledFrom(ids).Draw(rt, "twinID"), Ctx: "none"})
			ncalls += 2
			callIDs = append(callIDs, "", "") // never the target of a cancel or race step (which of the two holds the id is not known)
		case 10:
			if ncalls > 0 {
				k := rapid.IntRange(0, ncalls-1).Draw(rt, "raceWhich")
				if callIDs[k] == "" {
					continue
				}
				c.Steps = append(c.Steps, c05Step{Op: "race", Call: k, ID: callIDs[k]})
				races++
			}
		case 0, 1, 2, 3:
			st := c05Step{Op: "call", ID: rapid.SampledFrom(ids).Draw(rt, "id"), Ctx: rapid.SampledFrom([]string{"none", "none", "deadline", "cancel"}).Draw(rt, "ctx")}
			if st.Ctx == "deadline" {
				st.Ms = rapid.IntRange(10, 5000).Draw(rt, "ms")
			}
			ncalls++
			callIDs = append(callIDs, st.ID)
			c.Steps = append(c.Steps, st)
		case 4, 5, 6:
			c.Steps = append(c.Steps, c05Step{Op: "respond", ID: rapid.SampledFrom(append(ids, "zz")).Draw(rt, "rid")})
		case 7:
			k := rapid.IntRange(2, 8).Draw(rt, "burstN")
			st := c05Step{Op: "burst"}
			for j := 0; j < k; j++ {
				st.IDs = append(st.IDs, rapid.SampledFrom(append(ids, "zz")).Draw(rt, "bid"))
			}
			c.Steps = append(c.Steps, st)
		case 8:
			if ncalls > 0 {
				k := rapid.IntRange(0, ncalls-1).Draw(rt, "which")
				if callIDs[k] != "" {
					c.Steps = append(c.Steps, c05Step{Op: "cancel", Call: k})
				}
			}
		case 9:
			// (one pause in five is longer than any interval the library waits for on its own)
			c.Steps = append(c.Steps, c05Step{Op: "sleep", Ms: rapid.OneOf(rapid.IntRange(1, 3000), rapid.IntRange(1, 3000), rapid.IntRange(1, 3000), rapid.IntRange(1, 3000), rapid.IntRange(5001, 40000)).Draw(rt, "sleep")})
		}
	}
	if races > 0 {
		// whatever happened in the race, the session goes on: one more request gets its response
		c.Steps = append(c.Steps, c05Step{Op: "call", ID: "after-race", Ctx: "none"}, c05Step{Op: "respond", ID: "after-race"})
	}
	return c
}

// stalledPrefix: calls issued one at a time against a peer that does not read, each with a deadline that expires before the
// next one starts: the first few are written and wait for a response, the later ones fail inside the blocked send.
func stalledPrefix(n int) []c05Step {
	var out []c05Step
	for i := 0; i < n; i++ {
		out = append(out, c05Step{Op: "call", ID: fmt.Sprintf("s%d", i), Ctx: "deadline", Ms: 30}, c05Step{Op: "sleep", Ms: 50})
	}
	return append(out, c05Step{Op: "drain"})
}

func TestC05SendFails(t *testing.T) {
	rec := NewRecorder("C05", "TestC05SendFails")
	defer rec.Finish(t)
	// slow answers: a response that comes long after the request completes the call whose context is still alive - however
	// long that is (contexts without a deadline, and with one further away than the answer)
	for _, role := range []string{"client", "server"} {
		for _, tr := range []string{"tcp", "inproc"} {
			for _, wait := range []int{4000, 5500, 12000, 61000} {
				c := &c05Case{Role: role, Transport: tr, Steps: []c05Step{
					{Op: "call", ID: "slow-a", Ctx: "none"}, {Op: "call", ID: "slow-b", Ctx: "deadline", Ms: wait + 30000}, {Op: "call", ID: "gone", Ctx: "deadline", Ms: wait / 2},
					{Op: "sleep", Ms: wait}, {Op: "respond", ID: "slow-b"}, {Op: "respond", ID: "slow-a"}, {Op: "respond", ID: "gone"},
				}}
				o := &Outcome{}
				var obs *c05Obs
				rec.Journal(c)
				synctest.Test(t, func(t *testing.T) { obs = runC05(c) })
				judgeC05(c, obs, o)
				o.NonTrivial = true
				o.Class("answers-that-take-longer-than-the-library's-own-intervals")
				rec.Eval(c, o)
			}
		}
	}
	for _, role := range []string{"client", "server"} {
		for _, tr := range []string{"tcp", "inproc"} {
			for _, n := range []int{3, 14} {
				for variant := 0; variant < 3; variant++ {
					c := &c05Case{Role: role, Transport: tr, Stall: true, Steps: stalledPrefix(n)}
					for _, k := range []int{0, n / 2, n - 1} {
						id := fmt.Sprintf("s%d", k)
						switch variant {
						case 0: // the identifier of a completed (failed) request is reusable
							c.Steps = append(c.Steps, c05Step{Op: "call", ID: id, Ctx: "none"}, c05Step{Op: "respond", ID: id})
						case 1: // a response for it now matches no pending request: it belongs on the stream
							c.Steps = append(c.Steps, c05Step{Op: "respond", ID: id})
						case 2:
							c.Steps = append(c.Steps, c05Step{Op: "respond", ID: id}, c05Step{Op: "call", ID: id, Ctx: "none"}, c05Step{Op: "respond", ID: id})
						}
					}
					o := &Outcome{}
					var obs *c05Obs
					rec.Journal(c)
					synctest.Test(t, func(t *testing.T) { obs = runC05(c) })
					judgeC05(c, obs, o)
					o.NonTrivial = true
					rec.Eval(c, o)
				}
			}
		}
	}
	rec.Note("exhaustive", "true")
}

func TestC05(t *testing.T) {
	rec := NewRecorder("C05", "TestC05")
	rapid.Check(t, func(rt *rapid.T) {
		c := genC05(rt)
		if rapid.IntRange(0, 4).Draw(rt, "stalled") == 0 {
			// one call at a time while the peer is not reading; the drawn steps follow after the drain
			c.Stall = true
			c.Steps = append(stalledPrefix(rapid.IntRange(1, 16).Draw(rt, "stalledCalls")), c.Steps...)
			ids := []string{"s0", "s1", "s5", "s9"}
			for i := range c.Steps {
				if c.Steps[i].Op == "respond" && rapid.Bool().Draw(rt, "retarget") {
					c.Steps[i].ID = rapid.SampledFrom(ids).Draw(rt, "sid")
				}
				if c.Steps[i].Op == "call" && c.Steps[i].Ctx != "deadline" && rapid.IntRange(0, 3).Draw(rt, "reuse") == 0 {
					c.Steps[i].ID = rapid.SampledFrom(ids).Draw(rt, "cid")
				}
			}
		}
		c.PeerDrops = rapid.IntRange(0, 3).Draw(rt, "peerDrops") == 0
		o := &Outcome{}
		var obs *c05Obs
		rec.Journal(c)
		rapid.SyncTest(rt, func(rt *rapid.T) { obs = runC05(c) })
		judgeC05(c, obs, o)
		rec.Check(rt, c, o)
	})
}

// TestC05Perms: n concurrent calls, every permutation of their responses in one burst (n <= 5), with one duplicate and one unknown id.
func TestC05Perms(t *testing.T) {
	rec := NewRecorder("C05", "TestC05Perms")
	defer rec.Finish(t)
	sh, nsh := Shard()
	idx := 0
	var permute func(a []string, k int, f func([]string))
	permute = func(a []string, k int, f func([]string)) {
		if k == len(a) {
			f(append([]string(nil), a...))
			return
		}
		for i := k; i < len(a); i++ {
			a[k], a[i] = a[i], a[k]
			permute(a, k+1, f)
			a[k], a[i] = a[i], a[k]
		}
	}
	for _, role := range []string{"client", "server"} {
		for _, tr := range []string{"tcp", "inproc"} {
			for n := 1; n <= Scale(4, 5); n++ {
				ids := []string{"a", "b", "c", "d", "e"}[:n]
				permute(append([]string(nil), ids...), 0, func(p []string) {
					for variant := 0; variant < 3; variant++ {
						idx++
						if idx%nsh != sh {
							continue
						}
						c := &c05Case{Role: role, Transport: tr}
						for _, id := range ids {
							c.Steps = append(c.Steps, c05Step{Op: "call", ID: id, Ctx: "none"})
						}
						burst := append([]string(nil), p...)
						switch variant {
						case 1:
							burst = append(burst[:1], append([]string{"zz", burst[0]}, burst[1:]...)...) // unknown id and a duplicate inside
						case 2:
							burst = burst[:len(burst)-1] // one omitted
						}
						c.Steps = append(c.Steps, c05Step{Op: "burst", IDs: burst})
						// ids are reusable once their request completed
						c.Steps = append(c.Steps, c05Step{Op: "call", ID: p[0], Ctx: "none"}, c05Step{Op: "respond", ID: p[0]})
						o := &Outcome{}
						var obs *c05Obs
						rec.Journal(c)
						synctest.Test(t, func(t *testing.T) { obs = runC05(c) })
						judgeC05(c, obs, o)
						rec.Eval(c, o)
					}
				})
			}
		}
	}
	rec.Note("exhaustive", "true")
}

func TestC05Replay(t *testing.T) {
	rec := NewRecorder("C05", "TestC05Replay")
	defer rec.Finish(t)
	for _, f := range ReplayFiles("C05") {
		var c c05Case
		if err := LoadCase(f, &c); err != nil || len(c.Steps) == 0 {
			continue
		}
		o := &Outcome{}
		var obs *c05Obs
		synctest.Test(t, func(t *testing.T) { obs = runC05(&c) })
		judgeC05(&c, obs, o)
		rec.Eval(&c, o)
	}
}
