package harness

// Evidence recorder shared by all checks. One Recorder per (test function, shard); it counts evaluations,
// distinct non-trivial cases (by hash), class histograms, samples, violations (by signature) and cases
// excluded because they match an open known finding. Flush writes one JSON file that run.py merges.

import (
	"crypto/sha1"
	"encoding/hex"
	"encoding/json"
	"fmt"
	"os"
	"path/filepath"
	"sort"
	"strconv"
	"strings"
	"sync"
	"testing"
)

// Verdict describes one violated oracle clause for one case.
type Verdict struct {
	Sig    string `json:"sig"`    // stable signature: property/clause/discriminating features (no seeds, addresses, line numbers)
	Detail string `json:"detail"` // human readable: what was expected, what was observed
}

// Outcome is what a check reports for one executed case.
type Outcome struct {
	NonTrivial bool
	Classes    []string
	Violations []Verdict
}

func (o *Outcome) Fail(sig, format string, args ...interface{}) {
	o.Violations = append(o.Violations, Verdict{Sig: sig, Detail: fmt.Sprintf(format, args...)})
}

func (o *Outcome) Class(c string) { o.Classes = append(o.Classes, c) }

type violationRec struct {
	Sig    string          `json:"sig"`
	Detail string          `json:"detail"`
	Case   json.RawMessage `json:"case"`
	Count  int             `json:"count"`
}

type knownFinding struct {
	Property  string `json:"property"`
	Signature string `json:"signature"`
	What      string `json:"what"`
	Status    string `json:"status"`
}

type Recorder struct {
	mu          sync.Mutex
	Property    string
	Test        string
	evaluations int
	hashes      map[[8]byte]struct{}
	classes     map[string]int
	samples     []json.RawMessage
	sampleSeen  map[string]bool
	violations  map[string]*violationRec
	excluded    map[string]*violationRec
	open        map[string]bool // open known-finding signatures for this property
	openPrefix  []string
	notes       map[string]string
	journal     string
	maxSamples  int
}

var (
	recMu     sync.Mutex
	recorders []*Recorder
)

func envInt(key string, def int) int {
	if v := os.Getenv(key); v != "" {
		if n, err := strconv.Atoi(v); err == nil {
			return n
		}
	}
	return def
}

// Shard returns this process's shard index and the shard count.
func Shard() (int, int) { return envInt("VERIF_SHARD", 0), envInt("VERIF_NSHARDS", 1) }

// Tier returns "quick" or "thorough".
func Tier() string {
	if os.Getenv("VERIF_TIER") == "thorough" {
		return "thorough"
	}
	return "quick"
}

func Thorough() bool { return Tier() == "thorough" }

// Scale returns q in the quick tier and th in the thorough tier, multiplied by VERIF_SCALE percent if set.
func Scale(q, th int) int {
	n := q
	if Thorough() {
		n = th
	}
	if p := envInt("VERIF_SCALE", 100); p != 100 {
		n = n * p / 100
		if n < 1 {
			n = 1
		}
	}
	return n
}

func OutDir() string {
	d := os.Getenv("VERIF_OUT")
	if d == "" {
		d = os.TempDir()
	}
	return d
}

func NewRecorder(property, test string) *Recorder {
	r := &Recorder{
		Property:   property,
		Test:       test,
		hashes:     map[[8]byte]struct{}{},
		classes:    map[string]int{},
		sampleSeen: map[string]bool{},
		violations: map[string]*violationRec{},
		excluded:   map[string]*violationRec{},
		open:       map[string]bool{},
		notes:      map[string]string{},
		maxSamples: 6,
	}
	if p := os.Getenv("VERIF_KNOWN"); p != "" {
		if b, err := os.ReadFile(p); err == nil {
			var doc struct {
				Findings []knownFinding `json:"findings"`
			}
			if json.Unmarshal(b, &doc) == nil {
				for _, f := range doc.Findings {
					if f.Property == property && f.Status == "open" {
						if strings.HasSuffix(f.Signature, "*") {
							r.openPrefix = append(r.openPrefix, strings.TrimSuffix(f.Signature, "*"))
						} else {
							r.open[f.Signature] = true
						}
					}
				}
			}
		}
	}
	sh, _ := Shard()
	r.journal = filepath.Join(OutDir(), fmt.Sprintf("journal-%s-%d.json", test, sh))
	recMu.Lock()
	recorders = append(recorders, r)
	recMu.Unlock()
	return r
}

// IsOpen reports whether sig is listed as an open known finding for this recorder's property.
func (r *Recorder) IsOpen(sig string) bool {
	if r.open[sig] {
		return true
	}
	for _, p := range r.openPrefix {
		if strings.HasPrefix(sig, p) {
			return true
		}
	}
	return false
}

// Journal writes the case about to be executed, so that a crash of the process can be attributed to it.
func (r *Recorder) Journal(c interface{}) {
	b, err := json.Marshal(c)
	if err != nil {
		b = []byte(fmt.Sprintf("%q", fmt.Sprint(c)))
	}
	_ = os.WriteFile(r.journal, b, 0o644)
}

func (r *Recorder) Note(k, v string) {
	r.mu.Lock()
	r.notes[k] = v
	r.mu.Unlock()
}

func toRaw(c interface{}) json.RawMessage {
	switch v := c.(type) {
	case json.RawMessage:
		return v
	case []byte:
		b, _ := json.Marshal(string(v))
		return b
	}
	b, err := json.Marshal(c)
	if err != nil {
		b, _ = json.Marshal(fmt.Sprint(c))
	}
	return b
}

// Eval records one executed case and returns the first violation that is not an open known finding
// (nil if the case passed or only matched known findings).
func (r *Recorder) Eval(c interface{}, o *Outcome) *Verdict {
	raw := toRaw(c)
	r.mu.Lock()
	defer r.mu.Unlock()
	r.evaluations++
	if o.NonTrivial {
		sum := sha1.Sum(raw)
		var k [8]byte
		copy(k[:], sum[:8])
		r.hashes[k] = struct{}{}
	}
	for _, cl := range o.Classes {
		r.classes[cl]++
	}
	if o.NonTrivial && len(o.Violations) == 0 && len(r.samples) < r.maxSamples && len(raw) < 4000 {
		key := strings.Join(o.Classes, ",")
		if !r.sampleSeen[key] {
			r.sampleSeen[key] = true
			r.samples = append(r.samples, raw)
		}
	}
	var first *Verdict
	for i := range o.Violations {
		v := o.Violations[i]
		tbl := r.violations
		if r.IsOpen(v.Sig) {
			tbl = r.excluded
		} else if first == nil {
			first = &o.Violations[i]
		}
		cur := tbl[v.Sig]
		if cur == nil {
			tbl[v.Sig] = &violationRec{Sig: v.Sig, Detail: v.Detail, Case: raw, Count: 1}
		} else {
			cur.Count++
			if len(raw) < len(cur.Case) {
				cur.Case = raw
				cur.Detail = v.Detail
			}
		}
	}
	return first
}

// Check is the usual tail of a property: record the case, fail the (rapid or plain) test on a new violation.
type fataler interface {
	Fatalf(format string, args ...interface{})
}

func (r *Recorder) Check(t fataler, c interface{}, o *Outcome) {
	if v := r.Eval(c, o); v != nil {
		t.Fatalf("VIOLATION %s: %s", v.Sig, v.Detail)
	}
}

type shardResult struct {
	Property    string            `json:"property"`
	Test        string            `json:"test"`
	Shard       int               `json:"shard"`
	Evaluations int               `json:"evaluations"`
	Hashes      []string          `json:"hashes"`
	Classes     map[string]int    `json:"classes"`
	Samples     []json.RawMessage `json:"samples"`
	Violations  []*violationRec   `json:"violations"`
	Excluded    []*violationRec   `json:"excluded"`
	Notes       map[string]string `json:"notes"`
	Exhaustive  bool              `json:"exhaustive"`
}

func sortedRecs(m map[string]*violationRec) []*violationRec {
	out := make([]*violationRec, 0, len(m))
	for _, v := range m {
		out = append(out, v)
	}
	sort.Slice(out, func(i, j int) bool { return out[i].Sig < out[j].Sig })
	return out
}

func (r *Recorder) flush() {
	r.mu.Lock()
	defer r.mu.Unlock()
	sh, _ := Shard()
	res := shardResult{
		Property: r.Property, Test: r.Test, Shard: sh, Evaluations: r.evaluations,
		Classes: r.classes, Samples: r.samples, Notes: r.notes,
		Violations: sortedRecs(r.violations), Excluded: sortedRecs(r.excluded),
		Exhaustive: r.notes["exhaustive"] == "true",
	}
	res.Hashes = make([]string, 0, len(r.hashes))
	for h := range r.hashes {
		res.Hashes = append(res.Hashes, hex.EncodeToString(h[:]))
	}
	sort.Strings(res.Hashes)
	b, _ := json.Marshal(res)
	name := filepath.Join(OutDir(), fmt.Sprintf("result-%s-%d.json", r.Test, sh))
	_ = os.WriteFile(name+".tmp", b, 0o644)
	_ = os.Rename(name+".tmp", name)
	_ = os.Remove(r.journal)
}

// FlushAll writes the results of every recorder created in this process; called from TestMain.
func FlushAll() {
	recMu.Lock()
	rs := append([]*Recorder(nil), recorders...)
	recMu.Unlock()
	for _, r := range rs {
		r.flush()
	}
}

// Violated reports whether any non-excluded violation was recorded.
func (r *Recorder) Violated() bool {
	r.mu.Lock()
	defer r.mu.Unlock()
	return len(r.violations) > 0
}

// Finish is deferred by plain (non-rapid) tests: it marks the test failed if violations were recorded.
func (r *Recorder) Finish(t *testing.T) {
	if r.Violated() {
		r.mu.Lock()
		for _, v := range r.violations {
			t.Errorf("VIOLATION %s: %s\ncase: %s", v.Sig, v.Detail, truncate(string(v.Case), 600))
		}
		r.mu.Unlock()
	}
}

func truncate(s string, n int) string {
	if len(s) <= n {
		return s
	}
	return s[:n] + "…"
}

// WriteFuzzViolation is used by native fuzz targets (which run in worker processes without a merged recorder):
// it drops one JSON file per failing input into VERIF_OUT for the driver to pick up.
func WriteFuzzViolation(property string, v Verdict, c interface{}) {
	raw := toRaw(c)
	sum := sha1.Sum(raw)
	doc := map[string]interface{}{"property": property, "sig": v.Sig, "detail": v.Detail, "case": json.RawMessage(raw)}
	b, _ := json.Marshal(doc)
	_ = os.WriteFile(filepath.Join(OutDir(), "fuzzviol-"+hex.EncodeToString(sum[:6])+".json"), b, 0o644)
}
