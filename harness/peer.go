package harness

// Scripted raw peers: speak JSON lines over an FConn (optionally upgrading to TLS with crypto/tls) or
// lime envelopes over an in-process transport, and parse what they receive generically — independent of
// the library's decoder.

import (
	"bytes"
	"context"
	"crypto/ecdsa"
	"crypto/elliptic"
	"crypto/rand"
	"crypto/tls"
	"crypto/x509"
	"crypto/x509/pkix"
	"encoding/json"
	"errors"
	"io"
	"math/big"
	"net"
	"sync"
	"sync/atomic"
	"time"

	lime "github.com/takenet/lime-go"
)

var (
	tlsOnce      sync.Once
	tlsServerCfg *tls.Config
	tlsClientCfg *tls.Config
)

// TLSConfigs returns a server and a client TLS configuration sharing one self-signed certificate valid 1990–2100
// (the synctest bubble clock starts in 2000).
func TLSConfigs() (*tls.Config, *tls.Config) {
	tlsOnce.Do(func() {
		key, err := ecdsa.GenerateKey(elliptic.P256(), rand.Reader)
		if err != nil {
			panic(err)
		}
		tmpl := &x509.Certificate{
			SerialNumber:          big.NewInt(1),
			Subject:               pkix.Name{CommonName: "verif.local"},
			DNSNames:              []string{"verif.local", "localhost"},
			IPAddresses:           []net.IP{net.IPv4(127, 0, 0, 1)},
			NotBefore:             time.Date(1990, 1, 1, 0, 0, 0, 0, time.UTC),
			NotAfter:              time.Date(2100, 1, 1, 0, 0, 0, 0, time.UTC),
			KeyUsage:              x509.KeyUsageDigitalSignature | x509.KeyUsageCertSign,
			ExtKeyUsage:           []x509.ExtKeyUsage{x509.ExtKeyUsageServerAuth},
			BasicConstraintsValid: true,
			IsCA:                  true,
		}
		der, err := x509.CreateCertificate(rand.Reader, tmpl, tmpl, &key.PublicKey, key)
		if err != nil {
			panic(err)
		}
		cert, _ := x509.ParseCertificate(der)
		pool := x509.NewCertPool()
		pool.AddCert(cert)
		tlsServerCfg = &tls.Config{Certificates: []tls.Certificate{{Certificate: [][]byte{der}, PrivateKey: key}}}
		tlsClientCfg = &tls.Config{RootCAs: pool, ServerName: "verif.local"}
	})
	sc, cc := tlsServerCfg.Clone(), tlsClientCfg.Clone()
	if v := tlsMax.Load(); v != 0 {
		sc.MaxVersion, cc.MaxVersion = uint16(v), uint16(v)
	}
	return sc, cc
}

const tlsVersion12 = tls.VersionTLS12

var tlsMax atomic.Uint32

// SetTLSMax caps the protocol version of the configurations TLSConfigs hands out from now on (0 = no cap). TLS 1.2 differs
// from 1.3 in ways a transport can trip over: its alerts are visible as such on the wire, so crypto/tls hands over the last
// data record together with io.EOF when the peer's close notification is already there.
func SetTLSMax(v uint16) { tlsMax.Store(uint32(v)) }

// ServerTLSVia returns the server TLS configuration supplied in one of the ways crypto/tls accepts: "" a static certificate
// list, "getcertificate" a GetCertificate callback, "getconfig" a GetConfigForClient callback (per-client configuration) only.
func ServerTLSVia(via string) *tls.Config {
	static, _ := TLSConfigs()
	switch via {
	case "getcertificate":
		cert := static.Certificates[0]
		return &tls.Config{GetCertificate: func(*tls.ClientHelloInfo) (*tls.Certificate, error) { return &cert, nil }}
	case "getconfig":
		return &tls.Config{GetConfigForClient: func(*tls.ClientHelloInfo) (*tls.Config, error) { return static, nil }}
	}
	return static
}

// GotEnv is one envelope received by a scripted peer.
type GotEnv struct {
	Env  M    `json:"env"`
	TLS  bool `json:"tls,omitempty"` // received under TLS
	Step int  `json:"step"`          // number of script symbols the peer had sent when this envelope was collected
}

// RawPeer speaks JSON lines on an FConn.
type RawPeer struct {
	Raw     *FConn
	tlsConn *tls.Conn
	acc     []byte
	Got     []GotEnv
	Garbage [][]byte // undecodable data received
	SawEOF  bool
	ReadErr string
	Step    int // set by the script executor
}

func NewRawPeer(c *FConn) *RawPeer { return &RawPeer{Raw: c} }

func (p *RawPeer) conn() net.Conn {
	if p.tlsConn != nil {
		return p.tlsConn
	}
	return p.Raw
}

// SendBytes writes raw bytes (a write deadline protects against a peer that does not read).
func (p *RawPeer) SendBytes(b []byte) error {
	c := p.conn()
	_ = c.SetWriteDeadline(time.Now().Add(2 * time.Second))
	_, err := c.Write(b)
	return err
}

// SendEnv writes one generic envelope as a JSON line.
func (p *RawPeer) SendEnv(m M) error {
	b, err := json.Marshal(m)
	if err != nil {
		return err
	}
	return p.SendBytes(append(b, '\n'))
}

// StartTLS performs the client side of a TLS handshake on the raw connection.
func (p *RawPeer) StartTLS() error {
	_, ccfg := TLSConfigs()
	tc := tls.Client(p.Raw, ccfg)
	_ = tc.SetDeadline(time.Now().Add(10 * time.Second))
	if err := tc.Handshake(); err != nil {
		return err
	}
	_ = tc.SetDeadline(time.Time{})
	p.tlsConn = tc
	return nil
}

// StartTLSServer performs the server side of a TLS handshake on the raw connection.
func (p *RawPeer) StartTLSServer() error {
	scfg, _ := TLSConfigs()
	tc := tls.Server(p.Raw, scfg)
	_ = tc.SetDeadline(time.Now().Add(10 * time.Second))
	if err := tc.Handshake(); err != nil {
		return err
	}
	_ = tc.SetDeadline(time.Time{})
	p.tlsConn = tc
	return nil
}

// Drain collects everything the other side has sent so far without blocking for longer than a millisecond.
// Call it when the other side is quiescent (after synctest.Wait, or after a pause in real time).
func (p *RawPeer) Drain() {
	buf := make([]byte, 64<<10)
	for {
		if p.tlsConn == nil {
			if p.Raw.Buffered() == 0 {
				if p.Raw.PeerClosed() {
					p.SawEOF = true
				}
				break
			}
			n, err := p.Raw.Read(buf)
			p.acc = append(p.acc, buf[:n]...)
			if err != nil {
				p.noteErr(err)
				break
			}
			continue
		}
		if p.Raw.Buffered() == 0 && !p.Raw.PeerClosed() {
			break
		}
		_ = p.tlsConn.SetReadDeadline(time.Now().Add(time.Millisecond))
		n, err := p.tlsConn.Read(buf)
		p.acc = append(p.acc, buf[:n]...)
		if err != nil {
			var ne net.Error
			if errors.As(err, &ne) && ne.Timeout() {
				break
			}
			p.noteErr(err)
			break
		}
	}
	p.parse()
}

func (p *RawPeer) noteErr(err error) {
	if err == io.EOF || errors.Is(err, io.ErrUnexpectedEOF) {
		p.SawEOF = true
		return
	}
	p.ReadErr = err.Error()
}

func (p *RawPeer) parse() {
	for {
		p.acc = bytes.TrimLeft(p.acc, " \r\n\t")
		if len(p.acc) == 0 {
			return
		}
		dec := json.NewDecoder(bytes.NewReader(p.acc))
		var v interface{}
		if err := dec.Decode(&v); err != nil {
			if err == io.EOF || errors.Is(err, io.ErrUnexpectedEOF) {
				return // incomplete, wait for more
			}
			p.Garbage = append(p.Garbage, append([]byte{}, p.acc...))
			p.acc = nil
			return
		}
		used := int(dec.InputOffset())
		p.acc = p.acc[used:]
		if m, ok := v.(map[string]interface{}); ok {
			p.Got = append(p.Got, GotEnv{Env: m, TLS: p.tlsConn != nil, Step: p.Step})
		} else {
			b, _ := json.Marshal(v)
			p.Garbage = append(p.Garbage, b)
		}
	}
}

func (p *RawPeer) Close() {
	_ = p.Raw.Close()
}

// ---- in-process scripted peer: sends library envelope objects on one end of an in-process pair ----

type InprocPeer struct {
	T      lime.Transport
	Got    []GotEnv
	SawEOF bool
}

func (p *InprocPeer) SendEnvelope(e interface{}) error {
	ctx, cancel := context.WithTimeout(context.Background(), 2*time.Second)
	defer cancel()
	return TSend(ctx, p.T, e)
}

func (p *InprocPeer) Drain() {
	for {
		ctx, cancel := context.WithTimeout(context.Background(), time.Millisecond)
		e, err := TReceive(ctx, p.T)
		cancel()
		if err != nil {
			if !p.T.Connected() {
				p.SawEOF = true
			}
			return
		}
		if m, err := CanonOf(e); err == nil {
			p.Got = append(p.Got, GotEnv{Env: m})
		}
	}
}

// DrainNow collects what is queued without letting any (virtual) time pass: it polls with an already-cancelled context.
// A transport that picks at random between a cancelled context and a queued envelope may need a few polls.
func (p *InprocPeer) DrainNow() {
	ctx, cancel := context.WithCancel(context.Background())
	cancel()
	misses := 0
	for misses < 8 {
		e, err := TReceive(ctx, p.T)
		if err != nil {
			misses++
			continue
		}
		misses = 0
		if m, err := CanonOf(e); err == nil {
			p.Got = append(p.Got, GotEnv{Env: m})
		}
	}
}
