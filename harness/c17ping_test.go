package harness

// C17 with the built-in ping auto-reply: several sessions of one ServerBuilder server (AutoReplyPings) ping at the same time,
// over the in-process transport and loopback TCP. Every ProcessCommand must come back with the response to its own request
// (same id, addressed to the caller's own node), nothing unsolicited may arrive on a session's response stream, and none may
// time out: replies and node addresses do not cross between sessions.

import (
	"context"
	"fmt"
	"net"
	"sync"
	"sync/atomic"
	"testing"
	"time"

	lime "github.com/takenet/lime-go"
	"pgregory.net/rapid"
)

type c17PingCase struct {
	Sessions  int      `json:"sessions"`
	PerClient int      `json:"perClient"`
	Kinds     []string `json:"kinds"` // transport of each session: inproc | tcp
	ChanBuf   int      `json:"chanBuf"`
	SharedIDs bool     `json:"sharedIds,omitempty"` // every other command of every session carries an id the other sessions use too
}

type c17PingObs struct {
	Note        string   `json:"note,omitempty"`
	Wrong       []string `json:"wrong,omitempty"`
	Timeouts    int      `json:"timeouts"`
	Unsolicited int      `json:"unsolicited"`
	OK          int      `json:"ok"`
}

var c17PingSeq int64

func runC17Ping(c *c17PingCase) *c17PingObs {
	obs := &c17PingObs{}
	port, err := FreePort()
	if err != nil {
		obs.Note = "skip: " + err.Error()
		return obs
	}
	addr := &net.TCPAddr{IP: net.IPv4(127, 0, 0, 1), Port: port}
	ipAddr := lime.InProcessAddr(fmt.Sprintf("c17ping-%d", atomic.AddInt64(&c17PingSeq, 1)))
	var regSeq int64
	srv := lime.NewServerBuilder().Name("postmaster").Domain("example.org").Instance("s1").
		EnableGuestAuthentication().AutoReplyPings().ChannelBufferSize(c.ChanBuf).
		Register(func(_ context.Context, cand lime.Node, _ *lime.ServerChannel) (lime.Node, error) {
			n := atomic.AddInt64(&regSeq, 1)
			return lime.Node{Identity: lime.Identity{Name: fmt.Sprintf("user%d", n), Domain: "example.org"}, Instance: fmt.Sprintf("i%d", n)}, nil
		}).
		ListenTCP(addr, nil).ListenInProcess(ipAddr).Build()
	done := make(chan error, 1)
	go func() { done <- srv.ListenAndServe() }()
	type sess struct {
		cc   *lime.ClientChannel
		node lime.Node
	}
	var sessions []*sess
	defer func() {
		// the server first (its sessions finish and the clients' receivers end), then the clients, all at once: a channel
		// Close on TCP may wait one poll interval for its receiver
		_ = srv.Close()
		select {
		case <-done:
		case <-time.After(10 * time.Second):
		}
		var cw sync.WaitGroup
		for _, s := range sessions {
			cw.Add(1)
			go func(s *sess) { defer cw.Done(); _ = s.cc.Close() }(s)
		}
		cw.Wait()
	}()
	for i := 0; i < c.Sessions; i++ {
		var tr lime.Transport
		var err error
		for try := 0; try < 100; try++ {
			ctx, cancel := context.WithTimeout(context.Background(), time.Second)
			if c.Kinds[i%len(c.Kinds)] == "tcp" {
				tr, err = lime.DialTcp(ctx, addr, nil)
			} else {
				tr, err = lime.DialInProcess(ipAddr, 8)
			}
			cancel()
			if err == nil {
				break
			}
			time.Sleep(10 * time.Millisecond)
		}
		if err != nil {
			obs.Note = "skip: dial: " + err.Error()
			return obs
		}
		cc := lime.NewClientChannel(tr, c.ChanBuf)
		ctx, cancel := context.WithTimeout(context.Background(), 10*time.Second)
		ses, err := cc.EstablishSession(ctx, lime.NoneCompressionSelector, lime.NoneEncryptionSelector, lime.Identity{Name: lime.NewEnvelopeID(), Domain: "example.org"}, lime.GuestAuthenticator, "x")
		cancel()
		if err != nil || ses.State != lime.SessionStateEstablished {
			obs.Note = fmt.Sprintf("harness: establish %d: %v", i, err)
			_ = cc.Close()
			return obs
		}
		sessions = append(sessions, &sess{cc: cc, node: cc.LocalNode()})
	}
	var mu sync.Mutex
	var wg sync.WaitGroup
	stop := make(chan struct{})
	// unsolicited responses surface on the response stream
	var drains sync.WaitGroup
	for _, s := range sessions {
		drains.Add(1)
		go func(s *sess) {
			defer drains.Done()
			for {
				select {
				case <-stop:
					return
				case r, ok := <-s.cc.RespCmdChan():
					if !ok {
						return
					}
					mu.Lock()
					obs.Unsolicited++
					if len(obs.Wrong) < 5 {
						obs.Wrong = append(obs.Wrong, fmt.Sprintf("session %s received an unsolicited response id=%s to=%s", s.node, r.ID, r.To))
					}
					mu.Unlock()
				}
			}
		}(s)
	}
	for si, s := range sessions {
		wg.Add(1)
		go func(si int, s *sess) {
			defer wg.Done()
			for k := 0; k < c.PerClient; k++ {
				req := &lime.RequestCommand{}
				req.ID = fmt.Sprintf("p-%d-%d", si, k)
				if c.SharedIDs && k%2 == 0 {
					// sessions number their commands alike (1, 2, 3 ...): the same id is in flight on several sessions at once
					req.ID = fmt.Sprintf("n-%d", k)
				}
				req.From = s.node
				req.Method = lime.CommandMethodGet
				req.SetURIString("/ping")
				ctx, cancel := context.WithTimeout(context.Background(), 3*time.Second)
				resp, err := s.cc.ProcessCommand(ctx, req)
				cancel()
				mu.Lock()
				switch {
				case err != nil:
					obs.Timeouts++
					if len(obs.Wrong) < 5 {
						obs.Wrong = append(obs.Wrong, fmt.Sprintf("ping %s of session %s: %v", req.ID, s.node, err))
					}
				case resp.ID != req.ID || resp.To != s.node:
					if len(obs.Wrong) < 5 {
						obs.Wrong = append(obs.Wrong, fmt.Sprintf("ping %s of session %s answered with id=%s to=%s", req.ID, s.node, resp.ID, resp.To))
					}
				default:
					obs.OK++
				}
				mu.Unlock()
				if err != nil {
					return // one lost reply is the verdict; do not wait out thousands of timeouts
				}
			}
		}(si, s)
	}
	wg.Wait()
	time.Sleep(20 * time.Millisecond)
	close(stop)
	drains.Wait()
	return obs
}

func judgeC17Ping(c *c17PingCase, obs *c17PingObs, o *Outcome) {
	o.Class("ping-auto-reply")
	o.Class(fmt.Sprintf("sessions=%d", c.Sessions))
	if c.SharedIDs {
		o.Class("same-command-ids-on-several-sessions")
	}
	if len(obs.Note) >= 5 && obs.Note[:5] == "skip:" {
		o.Class("skipped")
		return
	}
	if obs.Note != "" {
		o.Fail("C17/harness/ping", "%s", obs.Note)
		return
	}
	o.NonTrivial = c.Sessions >= 2
	if len(obs.Wrong) > 0 || obs.Timeouts > 0 || obs.Unsolicited > 0 {
		o.Fail("C17/ping-reply-crossed-sessions", "%d sessions pinging concurrently: %d lost, %d unsolicited, e.g. %v", c.Sessions, obs.Timeouts, obs.Unsolicited, obs.Wrong)
	}
}

func TestC17Ping(t *testing.T) {
	rec := NewRecorder("C17", "TestC17Ping")
	rapid.Check(t, func(rt *rapid.T) {
		c := &c17PingCase{
			Sessions:  rapid.SampledFrom([]int{2, 4, 8, 16}).Draw(rt, "sessions"),
			PerClient: rapid.IntRange(50, 600).Draw(rt, "perClient"),
			ChanBuf:   rapid.SampledFrom([]int{1, 8, 64}).Draw(rt, "chanBuf"),
			SharedIDs: rapid.Bool().Draw(rt, "sharedIds"),
		}
		c.Kinds = rapid.SampledFrom([][]string{{"inproc"}, {"tcp"}, {"inproc", "tcp"}}).Draw(rt, "kinds")
		o := &Outcome{}
		rec.Journal(c)
		obs := runC17Ping(c)
		judgeC17Ping(c, obs, o)
		rec.Check(rt, c, o)
	})
}
