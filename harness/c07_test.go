//go:build go1.25

package harness

import (
	"fmt"
	"testing"
	"testing/synctest"

	"pgregory.net/rapid"
)

func enumCfgs() []SrvCfg {
	mk := func(tr string, enc, schemes []string, reg string) SrvCfg {
		return SrvCfg{Transport: tr, Comp: []string{"none"}, Enc: enc, Schemes: schemes, Auth: standardAuth(schemes), Register: reg, Mode: "direct"}
	}
	return []SrvCfg{
		mk("tcp", []string{"none"}, []string{"plain", "key"}, "echo"),
		mk("tcp-tls", []string{"none", "tls"}, []string{"plain"}, "assign"),
		mk("tcp-tls", []string{"tls"}, []string{"guest"}, "echo"),
		mk("tcp", []string{"none", "tls"}, []string{"guest", "plain", "external"}, "echo"),
		mk("tcp-tls", []string{"none", "tls"}, []string{"transport"}, "error"),
		mk("tcp", []string{"none"}, []string{"guest", "plain", "key", "transport", "external"}, "assign"),
		mk("inproc", []string{"none"}, []string{"plain", "guest"}, "echo"),
	}
}

// runSrvEnum enumerates scripts for the representative configurations and hands every case to judge.
func runSrvEnum(t *testing.T, rec *Recorder, mode string, depth int, judge func(c *SrvCase, obs *SrvObs, o *Outcome)) {
	runSrvEnumEnds(t, rec, mode, depth, []string{"eof"}, judge)
}

// runSrvEnumEnds: the same, with every script ended in each of the given ways.
func runSrvEnumEnds(t *testing.T, rec *Recorder, mode string, depth int, ends []string, judge func(c *SrvCase, obs *SrvObs, o *Outcome)) {
	sh, nsh := Shard()
	idx := 0
	for _, cfg := range enumCfgs() {
		cfg.Mode = mode
		alpha := srvAlphabet(&cfg, false)
		if cfg.Transport == "inproc" {
			alpha = inprocAlphabet(alpha)
		}
		enumScripts(cfg, alpha, depth, implNegotiates(&cfg), func(c0 *SrvCase) {
			for _, end := range ends {
				idx++
				if idx%nsh != sh {
					continue
				}
				c := &SrvCase{Cfg: c0.Cfg, Script: c0.Script, End: end}
				o := &Outcome{}
				var obs *SrvObs
				rec.Journal(c)
				synctest.Test(t, func(t *testing.T) { obs = RunServerScript(c) })
				judge(c, obs, o)
				rec.Eval(c, o)
			}
		})
	}
	rec.Note("enum_depth", fmt.Sprint(depth))
	rec.Note("exhaustive", "true")
}

func c07Judge(c *SrvCase, obs *SrvObs, o *Outcome) {
	m := judgeC07(c, obs, o)
	classifySrvCase(c, m, o)
	o.NonTrivial = len(c.Script) >= 2 || m.Violation != ""
}

func TestC07Enum(t *testing.T) {
	rec := NewRecorder("C07", "TestC07Enum")
	defer rec.Finish(t)
	runSrvEnum(t, rec, "direct", Scale(5, 6), c07Judge)
}

func TestC07(t *testing.T) {
	rec := NewRecorder("C07", "TestC07")
	rapid.Check(t, func(rt *rapid.T) {
		c := genSrvCase(rt, []string{"direct", "direct", "server"})
		o := &Outcome{}
		rec.Journal(c)
		var obs *SrvObs
		rapid.SyncTest(rt, func(rt *rapid.T) { obs = RunServerScript(c) })
		c07Judge(c, obs, o)
		rec.Check(rt, c, o)
	})
}

func TestC07Replay(t *testing.T) {
	rec := NewRecorder("C07", "TestC07Replay")
	defer rec.Finish(t)
	for _, f := range ReplayFiles("C07") {
		var c SrvCase
		if err := LoadCase(f, &c); err != nil || len(c.Script) == 0 {
			continue
		}
		o := &Outcome{}
		var obs *SrvObs
		synctest.Test(t, func(t *testing.T) { obs = RunServerScript(&c) })
		c07Judge(&c, obs, o)
		rec.Eval(&c, o)
	}
}
