package harness

// Independent canonical form of envelopes: CanonOf turns a lime envelope (or document) into a generic JSON
// tree using only exported fields and the protocol's field names (README.md), never the library's encoder.
// It is used (a) to compare a decoded envelope with the original ("equal field values": nil ≡ empty
// map/slice, *TextDocument ≡ TextDocument), and (b) as the expected wire shape for the bytes the library emits.

import (
	"bytes"
	"encoding/json"
	"fmt"
	"reflect"
	"sort"
	"strings"

	lime "github.com/takenet/lime-go"
)

type M = map[string]interface{}

// NodeText is the protocol's textual form of a node: name@domain/instance, parts omitted when empty.
func NodeText(n lime.Node) string {
	s := n.Name
	if n.Domain != "" {
		s += "@" + n.Domain
	}
	if n.Instance != "" {
		s += "/" + n.Instance
	}
	return s
}

func IdentityText(i lime.Identity) string {
	s := i.Name
	if i.Domain != "" {
		s += "@" + i.Domain
	}
	return s
}

func MediaTypeText(m lime.MediaType) string {
	s := m.Type + "/" + m.Subtype
	if m.Suffix != "" {
		s += "+" + m.Suffix
	}
	return s
}

// Generic parses JSON into a generic tree (numbers as float64).
func Generic(b []byte) (interface{}, error) {
	var v interface{}
	dec := json.NewDecoder(bytes.NewReader(b))
	if err := dec.Decode(&v); err != nil {
		return nil, err
	}
	return v, nil
}

func genericOfStd(v interface{}) (interface{}, error) {
	b, err := json.Marshal(v)
	if err != nil {
		return nil, err
	}
	return Generic(b)
}

// CanonDoc converts a document value into its generic JSON form.
func CanonDoc(d lime.Document) (interface{}, error) {
	if d == nil || (reflect.ValueOf(d).Kind() == reflect.Ptr && reflect.ValueOf(d).IsNil()) {
		return nil, nil
	}
	switch v := d.(type) {
	case lime.TextDocument:
		return string(v), nil
	case *lime.TextDocument:
		return string(*v), nil
	case *lime.JsonDocument:
		return normJSONValue(map[string]interface{}(*v)), nil
	case *lime.DocumentContainer:
		inner, err := CanonDoc(v.Value)
		if err != nil {
			return nil, err
		}
		return M{"type": MediaTypeText(v.Type), "value": inner}, nil
	case *lime.DocumentCollection:
		items := make([]interface{}, 0, len(v.Items))
		for _, it := range v.Items {
			c, err := CanonDoc(it)
			if err != nil {
				return nil, err
			}
			items = append(items, c)
		}
		m := M{"itemType": MediaTypeText(v.ItemType), "items": items}
		if v.Total != 0 {
			m["total"] = float64(v.Total)
		}
		return m, nil
	case *lime.Ping:
		return M{}, nil
	default:
		// registered custom/chat documents are plain structs encoded by encoding/json itself
		return genericOfStd(d)
	}
}

// normJSONValue maps a generic JSON value to a canonical generic value (ints to float64, nil maps to empty).
func normJSONValue(v interface{}) interface{} {
	switch x := v.(type) {
	case map[string]interface{}:
		m := M{}
		for k, e := range x {
			m[k] = normJSONValue(e)
		}
		// a collection's nil item list and an empty one are the same value (nil ≡ empty)
		if _, isColl := m["itemType"]; isColl {
			if it, ok := m["items"]; ok && it == nil {
				m["items"] = []interface{}{}
			}
		}
		return m
	case []interface{}:
		out := make([]interface{}, len(x))
		for i, e := range x {
			out[i] = normJSONValue(e)
		}
		return out
	case int:
		return float64(x)
	case int64:
		return float64(x)
	case float32:
		return float64(x)
	default:
		return v
	}
}

func canonAuth(a lime.Authentication) (interface{}, error) {
	switch v := a.(type) {
	case *lime.GuestAuthentication:
		return M{}, nil
	case *lime.TransportAuthentication:
		return M{}, nil
	case *lime.PlainAuthentication:
		return M{"password": v.Password}, nil
	case *lime.KeyAuthentication:
		return M{"key": v.Key}, nil
	case *lime.ExternalAuthentication:
		return M{"token": v.Token, "issuer": v.Issuer}, nil
	}
	return nil, fmt.Errorf("unknown authentication type %T", a)
}

func canonReason(r *lime.Reason) interface{} {
	m := M{}
	if r.Code != 0 {
		m["code"] = float64(r.Code)
	}
	if r.Description != "" {
		m["description"] = r.Description
	}
	return m
}

func canonBase(e *lime.Envelope, m M) {
	if e.ID != "" {
		m["id"] = e.ID
	}
	if e.From != (lime.Node{}) {
		m["from"] = NodeText(e.From)
	}
	if e.PP != (lime.Node{}) {
		m["pp"] = NodeText(e.PP)
	}
	if e.To != (lime.Node{}) {
		m["to"] = NodeText(e.To)
	}
	if len(e.Metadata) > 0 {
		md := M{}
		for k, v := range e.Metadata {
			md[k] = v
		}
		m["metadata"] = md
	}
}

func canonCommand(c *lime.Command, m M) error {
	canonBase(&c.Envelope, m)
	if c.Method != "" {
		m["method"] = string(c.Method)
	}
	if c.Resource != nil {
		d, err := CanonDoc(c.Resource)
		if err != nil {
			return err
		}
		m["resource"] = d
	}
	if c.Type != nil {
		m["type"] = MediaTypeText(*c.Type)
	}
	return nil
}

// KindOf names the envelope kind of a value returned by a decoder or a transport.
func KindOf(e interface{}) string {
	switch e.(type) {
	case *lime.Message:
		return "message"
	case *lime.Notification:
		return "notification"
	case *lime.RequestCommand:
		return "request"
	case *lime.ResponseCommand:
		return "response"
	case *lime.Session:
		return "session"
	}
	return fmt.Sprintf("%T", e)
}

// CanonOf converts an envelope to its canonical generic form. Zero-valued optional fields are absent.
func CanonOf(e interface{}) (M, error) {
	m := M{}
	switch v := e.(type) {
	case *lime.Message:
		canonBase(&v.Envelope, m)
		m["type"] = MediaTypeText(v.Type)
		d, err := CanonDoc(v.Content)
		if err != nil {
			return nil, err
		}
		m["content"] = d
	case *lime.Notification:
		canonBase(&v.Envelope, m)
		if v.Event != "" {
			m["event"] = string(v.Event)
		}
		if v.Reason != nil {
			m["reason"] = canonReason(v.Reason)
		}
	case *lime.RequestCommand:
		if err := canonCommand(&v.Command, m); err != nil {
			return nil, err
		}
		if v.URI != nil {
			m["uri"] = v.URI.String()
		}
	case *lime.ResponseCommand:
		if err := canonCommand(&v.Command, m); err != nil {
			return nil, err
		}
		if v.Status != "" {
			m["status"] = string(v.Status)
		}
		if v.Reason != nil {
			m["reason"] = canonReason(v.Reason)
		}
	case *lime.Session:
		canonBase(&v.Envelope, m)
		if v.State != "" {
			m["state"] = string(v.State)
		}
		if len(v.EncryptionOptions) > 0 {
			l := []interface{}{}
			for _, o := range v.EncryptionOptions {
				l = append(l, string(o))
			}
			m["encryptionOptions"] = l
		}
		if v.Encryption != "" {
			m["encryption"] = string(v.Encryption)
		}
		if len(v.CompressionOptions) > 0 {
			l := []interface{}{}
			for _, o := range v.CompressionOptions {
				l = append(l, string(o))
			}
			m["compressionOptions"] = l
		}
		if v.Compression != "" {
			m["compression"] = string(v.Compression)
		}
		if len(v.SchemeOptions) > 0 {
			l := []interface{}{}
			for _, o := range v.SchemeOptions {
				l = append(l, string(o))
			}
			m["schemeOptions"] = l
		}
		if v.Scheme != "" {
			m["scheme"] = string(v.Scheme)
		}
		if v.Authentication != nil && !reflect.ValueOf(v.Authentication).IsNil() {
			a, err := canonAuth(v.Authentication)
			if err != nil {
				return nil, err
			}
			m["authentication"] = a
		}
		if v.Reason != nil {
			m["reason"] = canonReason(v.Reason)
		}
	default:
		return nil, fmt.Errorf("CanonOf: not an envelope: %T", e)
	}
	return m, nil
}

// fields each envelope kind may carry on the wire
var commonFields = []string{"id", "from", "pp", "to", "metadata"}
var kindFields = map[string][]string{
	"message":      {"type", "content"},
	"notification": {"event", "reason"},
	"request":      {"method", "uri", "type", "resource"},
	"response":     {"method", "status", "reason", "type", "resource"},
	"session": {"state", "encryptionOptions", "encryption", "compressionOptions", "compression",
		"schemeOptions", "scheme", "authentication", "reason"},
}

// required (never droppable) fields per kind when present in the canonical form
var strictFields = map[string]bool{"content": true, "resource": true, "authentication": true}

func isEmptyGeneric(v interface{}) bool {
	switch x := v.(type) {
	case nil:
		return true
	case string:
		return x == ""
	case []interface{}:
		return len(x) == 0
	case map[string]interface{}:
		return len(x) == 0
	case float64:
		return x == 0
	}
	return false
}

// WireShape checks that the bytes b, parsed generically, carry exactly the canonical fields of the envelope:
// every canonical field present under its protocol name with the canonical value, no field of another
// kind, and otherwise only null/empty values for this kind's optional fields. Returns "" if ok.
func WireShape(kind string, want M, b []byte) string {
	g, err := Generic(b)
	if err != nil {
		return "not valid JSON: " + err.Error()
	}
	got, ok := g.(map[string]interface{})
	if !ok {
		return "not a JSON object"
	}
	allowed := map[string]bool{}
	for _, f := range commonFields {
		allowed[f] = true
	}
	for _, f := range kindFields[kind] {
		allowed[f] = true
	}
	for k, v := range got {
		if !allowed[k] {
			return fmt.Sprintf("field %q does not belong to a %s", k, kind)
		}
		w, present := want[k]
		if !present {
			if !isEmptyGeneric(v) {
				return fmt.Sprintf("field %q=%v emitted but the envelope has no value for it", k, short(v))
			}
			continue
		}
		if d := DiffGeneric(w, v, k); d != "" {
			return d
		}
	}
	for k, w := range want {
		if _, present := got[k]; !present {
			if !strictFields[k] && isEmptyGeneric(w) {
				continue
			}
			return fmt.Sprintf("field %q missing on the wire (want %v)", k, short(w))
		}
	}
	return ""
}

func short(v interface{}) string {
	s := fmt.Sprintf("%v", v)
	if b, err := json.Marshal(v); err == nil {
		s = string(b)
	}
	if len(s) > 120 {
		s = s[:120] + "…"
	}
	return s
}

// DiffGeneric compares two generic JSON trees exactly (after normJSONValue) and returns the first difference.
func DiffGeneric(want, got interface{}, path string) string {
	return diffNorm(normJSONValue(want), normJSONValue(got), path)
}

func diffNorm(want, got interface{}, path string) string {
	switch w := want.(type) {
	case map[string]interface{}:
		g, ok := got.(map[string]interface{})
		if !ok {
			return fmt.Sprintf("%s: want object %s, got %s", path, short(want), short(got))
		}
		keys := map[string]bool{}
		for k := range w {
			keys[k] = true
		}
		for k := range g {
			keys[k] = true
		}
		ks := make([]string, 0, len(keys))
		for k := range keys {
			ks = append(ks, k)
		}
		sort.Strings(ks)
		for _, k := range ks {
			wv, wok := w[k]
			gv, gok := g[k]
			if !wok {
				return fmt.Sprintf("%s.%s: unexpected %s", path, k, short(gv))
			}
			if !gok {
				return fmt.Sprintf("%s.%s: missing (want %s)", path, k, short(wv))
			}
			if d := diffNorm(wv, gv, path+"."+k); d != "" {
				return d
			}
		}
		return ""
	case []interface{}:
		g, ok := got.([]interface{})
		if !ok || len(g) != len(w) {
			return fmt.Sprintf("%s: want %s, got %s", path, short(want), short(got))
		}
		for i := range w {
			if d := diffNorm(w[i], g[i], fmt.Sprintf("%s[%d]", path, i)); d != "" {
				return d
			}
		}
		return ""
	default:
		if !reflect.DeepEqual(want, got) {
			return fmt.Sprintf("%s: want %s, got %s", path, short(want), short(got))
		}
		return ""
	}
}

// EqualEnvelopes compares two envelopes by kind and canonical form; returns "" if equal.
func EqualEnvelopes(want, got interface{}) string {
	if KindOf(want) != KindOf(got) {
		return fmt.Sprintf("kind: want %s, got %s", KindOf(want), KindOf(got))
	}
	cw, err := CanonOf(want)
	if err != nil {
		return "canon(want): " + err.Error()
	}
	cg, err := CanonOf(got)
	if err != nil {
		return "canon(got): " + err.Error()
	}
	return DiffGeneric(cw, cg, KindOf(want))
}

func hasPrefixAny(s string, ps ...string) bool {
	for _, p := range ps {
		if strings.HasPrefix(s, p) {
			return true
		}
	}
	return false
}
