package harness

// Plain-data descriptions ("specs") of envelopes and documents. Generators draw specs; Build turns a spec
// into the library's value. A spec is JSON-serialisable, so replay files do not need the generator library.

import (
	"encoding/json"
	"fmt"
	"sync"

	lime "github.com/takenet/lime-go"
	"github.com/takenet/lime-go/chat"
)

type NodeSpec struct {
	Name     string `json:"name,omitempty"`
	Domain   string `json:"domain,omitempty"`
	Instance string `json:"instance,omitempty"`
}

func (n *NodeSpec) Node() lime.Node {
	if n == nil {
		return lime.Node{}
	}
	return lime.Node{Identity: lime.Identity{Name: n.Name, Domain: n.Domain}, Instance: n.Instance}
}

type MTSpec struct {
	Type    string `json:"type"`
	Subtype string `json:"subtype"`
	Suffix  string `json:"suffix,omitempty"`
}

func (m MTSpec) MT() lime.MediaType {
	return lime.MediaType{Type: m.Type, Subtype: m.Subtype, Suffix: m.Suffix}
}

type DocSpec struct {
	Kind     string                 `json:"kind"`               // text json container collection ping custom chat.presence chat.receipt chat.account chat.contact
	Declared *MTSpec                `json:"declared,omitempty"` // media type announced for this document by its parent; nil = the document's own
	Text     string                 `json:"text,omitempty"`
	JSON     map[string]interface{} `json:"json,omitempty"`
	Inner    *DocSpec               `json:"inner,omitempty"`
	Items    []DocSpec              `json:"items,omitempty"`
	ItemsNil bool                   `json:"itemsNil,omitempty"`
	Total    int                    `json:"total,omitempty"`
	ItemType *MTSpec                `json:"itemType,omitempty"` // for an empty collection
	ByValue  bool                   `json:"byValue,omitempty"`  // text: build TextDocument (value) instead of *TextDocument
}

type ReasonSpec struct {
	Code        int    `json:"code,omitempty"`
	Description string `json:"description,omitempty"`
}

func (r *ReasonSpec) Reason() *lime.Reason {
	if r == nil {
		return nil
	}
	return &lime.Reason{Code: r.Code, Description: r.Description}
}

type AuthSpec struct {
	Scheme string `json:"scheme"`
	A      string `json:"a,omitempty"` // password / key / token
	B      string `json:"b,omitempty"` // issuer
}

func (a *AuthSpec) Auth() lime.Authentication {
	if a == nil {
		return nil
	}
	switch a.Scheme {
	case "guest":
		return &lime.GuestAuthentication{}
	case "transport":
		return &lime.TransportAuthentication{}
	case "plain":
		return &lime.PlainAuthentication{Password: a.A}
	case "key":
		return &lime.KeyAuthentication{Key: a.A}
	case "external":
		return &lime.ExternalAuthentication{Token: a.A, Issuer: a.B}
	}
	panic("bad auth scheme " + a.Scheme)
}

type EnvSpec struct {
	Kind     string            `json:"kind"` // message notification request response session
	ID       string            `json:"id,omitempty"`
	From     *NodeSpec         `json:"from,omitempty"`
	PP       *NodeSpec         `json:"pp,omitempty"`
	To       *NodeSpec         `json:"to,omitempty"`
	Metadata map[string]string `json:"metadata,omitempty"`
	MetaNil  bool              `json:"metaNil,omitempty"`

	Doc *DocSpec `json:"doc,omitempty"` // message content / command resource

	Event  string      `json:"event,omitempty"`
	Reason *ReasonSpec `json:"reason,omitempty"`

	Method string `json:"method,omitempty"`
	URI    string `json:"uri,omitempty"`
	HasURI bool   `json:"hasUri,omitempty"`
	Status string `json:"status,omitempty"`

	State      string    `json:"state,omitempty"`
	EncOpts    []string  `json:"encOpts,omitempty"`
	CompOpts   []string  `json:"compOpts,omitempty"`
	SchemeOpts []string  `json:"schemeOpts,omitempty"`
	Enc        string    `json:"enc,omitempty"`
	Comp       string    `json:"comp,omitempty"`
	Scheme     string    `json:"scheme,omitempty"`
	Auth       *AuthSpec `json:"auth,omitempty"`
}

// VerifCustom is a document type registered by the harness ("registered custom types").
type VerifCustom struct {
	A string   `json:"a"`
	B int      `json:"b"`
	C []string `json:"c,omitempty"`
	D *bool    `json:"d,omitempty"`
}

func (*VerifCustom) MediaType() lime.MediaType {
	return lime.MediaType{Type: "application", Subtype: "x-verif-custom", Suffix: "json"}
}

var registerOnce sync.Once

// RegisterDocs registers the chat documents and the harness's custom type (idempotent).
func RegisterDocs() {
	registerOnce.Do(func() {
		chat.RegisterChatDocuments()
		lime.RegisterDocumentFactory(func() lime.Document { return &VerifCustom{} })
	})
}

func fromGeneric(fields map[string]interface{}, into interface{}) error {
	b, err := json.Marshal(fields)
	if err != nil {
		return err
	}
	return json.Unmarshal(b, into)
}

// Build returns the document and the media type its parent must declare for it.
func (d *DocSpec) Build() (lime.Document, lime.MediaType, error) {
	var doc lime.Document
	switch d.Kind {
	case "text":
		if d.ByValue {
			doc = lime.TextDocument(d.Text)
		} else {
			t := lime.TextDocument(d.Text)
			doc = &t
		}
	case "json":
		j := lime.JsonDocument{}
		for k, v := range d.JSON {
			j[k] = v
		}
		doc = &j
	case "ping":
		doc = &lime.Ping{}
	case "container":
		inner, mt, err := d.Inner.Build()
		if err != nil {
			return nil, lime.MediaType{}, err
		}
		doc = &lime.DocumentContainer{Type: mt, Value: inner}
	case "collection":
		c := &lime.DocumentCollection{Total: d.Total}
		if d.ItemType != nil {
			c.ItemType = d.ItemType.MT()
		}
		if !d.ItemsNil {
			c.Items = make([]lime.Document, 0, len(d.Items))
		}
		for i := range d.Items {
			it, mt, err := d.Items[i].Build()
			if err != nil {
				return nil, lime.MediaType{}, err
			}
			if i == 0 {
				c.ItemType = mt
			} else if mt != c.ItemType {
				return nil, lime.MediaType{}, fmt.Errorf("collection items declare different types")
			}
			c.Items = append(c.Items, it)
		}
		doc = c
	case "custom":
		v := &VerifCustom{}
		if err := fromGeneric(d.JSON, v); err != nil {
			return nil, lime.MediaType{}, err
		}
		doc = v
	case "chat.presence":
		v := &chat.Presence{}
		if err := fromGeneric(d.JSON, v); err != nil {
			return nil, lime.MediaType{}, err
		}
		doc = v
	case "chat.receipt":
		v := &chat.Receipt{}
		if err := fromGeneric(d.JSON, v); err != nil {
			return nil, lime.MediaType{}, err
		}
		doc = v
	case "chat.account":
		v := &chat.Account{}
		if err := fromGeneric(d.JSON, v); err != nil {
			return nil, lime.MediaType{}, err
		}
		doc = v
	case "chat.contact":
		v := &chat.Contact{}
		if err := fromGeneric(d.JSON, v); err != nil {
			return nil, lime.MediaType{}, err
		}
		doc = v
	default:
		return nil, lime.MediaType{}, fmt.Errorf("unknown doc kind %q", d.Kind)
	}
	mt := doc.MediaType()
	if d.Declared != nil {
		mt = d.Declared.MT()
	}
	return doc, mt, nil
}

// Depth returns the nesting depth of the document (1 for a leaf).
func (d *DocSpec) Depth() int {
	if d == nil {
		return 0
	}
	m := 0
	if d.Inner != nil {
		m = d.Inner.Depth()
	}
	for i := range d.Items {
		if x := d.Items[i].Depth(); x > m {
			m = x
		}
	}
	return m + 1
}

func (s *EnvSpec) base() lime.Envelope {
	e := lime.Envelope{ID: s.ID, From: s.From.Node(), PP: s.PP.Node(), To: s.To.Node()}
	if !s.MetaNil {
		e.Metadata = map[string]string{}
		for k, v := range s.Metadata {
			e.Metadata[k] = v
		}
	}
	return e
}

// Build turns the spec into a library envelope (*lime.Message, ...).
func (s *EnvSpec) Build() (interface{}, error) {
	switch s.Kind {
	case "message":
		doc, mt, err := s.Doc.Build()
		if err != nil {
			return nil, err
		}
		return &lime.Message{Envelope: s.base(), Type: mt, Content: doc}, nil
	case "notification":
		return &lime.Notification{Envelope: s.base(), Event: lime.NotificationEvent(s.Event), Reason: s.Reason.Reason()}, nil
	case "request", "response":
		cmd := lime.Command{Envelope: s.base(), Method: lime.CommandMethod(s.Method)}
		if s.Doc != nil {
			doc, mt, err := s.Doc.Build()
			if err != nil {
				return nil, err
			}
			cmd.Resource = doc
			cmd.Type = &mt
		}
		if s.Kind == "request" {
			r := &lime.RequestCommand{Command: cmd}
			if s.HasURI {
				u, err := lime.ParseLimeURI(s.URI)
				if err != nil {
					return nil, fmt.Errorf("uri %q: %w", s.URI, err)
				}
				r.URI = u
			}
			return r, nil
		}
		return &lime.ResponseCommand{Command: cmd, Status: lime.CommandStatus(s.Status), Reason: s.Reason.Reason()}, nil
	case "session":
		ses := &lime.Session{Envelope: s.base(), State: lime.SessionState(s.State),
			Encryption: lime.SessionEncryption(s.Enc), Compression: lime.SessionCompression(s.Comp),
			Scheme: lime.AuthenticationScheme(s.Scheme), Reason: s.Reason.Reason()}
		for _, o := range s.EncOpts {
			ses.EncryptionOptions = append(ses.EncryptionOptions, lime.SessionEncryption(o))
		}
		for _, o := range s.CompOpts {
			ses.CompressionOptions = append(ses.CompressionOptions, lime.SessionCompression(o))
		}
		for _, o := range s.SchemeOpts {
			ses.SchemeOptions = append(ses.SchemeOptions, lime.AuthenticationScheme(o))
		}
		if s.Auth != nil {
			ses.Authentication = s.Auth.Auth()
		}
		return ses, nil
	}
	return nil, fmt.Errorf("unknown envelope kind %q", s.Kind)
}

// NewOfKind returns an empty envelope value of the kind, for the typed decoders.
func NewOfKind(kind string) interface{} {
	switch kind {
	case "message":
		return &lime.Message{}
	case "notification":
		return &lime.Notification{}
	case "request":
		return &lime.RequestCommand{}
	case "response":
		return &lime.ResponseCommand{}
	case "session":
		return &lime.Session{}
	}
	panic("kind " + kind)
}

var AllKinds = []string{"message", "notification", "request", "response", "session"}
