package harness

import (
	"os"
	"testing"
)

func TestMain(m *testing.M) {
	RegisterDocs()
	code := m.Run()
	FlushAll()
	os.Exit(code)
}
