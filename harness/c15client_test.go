package harness

// C15 through the high-level Client (real time): the server accepts the connection and then says nothing, so the Client's
// own background listener is in the middle of an establishment that cannot finish. Every Client operation that takes a
// context - Establish, SendMessage, SendNotification, SendRequestCommand, ProcessCommand - still returns once its context is
// over: promptly at a deadline, and after a cancellation no later than the transport's I/O poll.

import (
	"context"
	"fmt"
	"sync"
	"testing"
	"time"

	lime "github.com/takenet/lime-go"
)

type c15ClientCase struct {
	Transport string `json:"transport"` // inproc | tcp
	Op        string `json:"op"`
	End       string `json:"end"` // deadline | cancel
	AtMs      int    `json:"atMs"`
	Calls     int    `json:"calls"` // the operation is issued this many times, one after the other
}

func runC15Client(c *c15ClientCase) (lateMs int64, which int, errText string) {
	var mu sync.Mutex
	var keep []interface{ Close() error }
	cfg := lime.NewClientConfig()
	cfg.Node = lime.Node{Identity: lime.Identity{Name: "alice", Domain: "cli.example"}, Instance: "home"}
	cfg.NewTransport = func(context.Context) (lime.Transport, error) {
		mu.Lock()
		defer mu.Unlock()
		if c.Transport == "inproc" {
			ct, st := lime.VerifNewInProcessTransportPair(lime.InProcessAddr("c15-silent"), 8)
			keep = append(keep, st)
			return ct, nil
		}
		cl, sv := Pipe(PipeOpts{})
		keep = append(keep, sv) // the server end stays open and silent
		return lime.VerifNewTCPTransport(cl, nil, false), nil
	}
	client := lime.NewClient(cfg, &lime.EnvelopeMux{})
	defer func() {
		done := make(chan struct{})
		go func() { _ = client.Close(); close(done) }()
		select {
		case <-done:
		case <-time.After(10 * time.Second):
		}
		mu.Lock()
		for _, k := range keep {
			_ = k.Close()
		}
		mu.Unlock()
	}()
	time.Sleep(20 * time.Millisecond) // the background listener has dialled and waits for the server's answer
	bound := int64(1000)
	if c.End == "cancel" && c.Transport == "tcp" {
		bound = 6000
	}
	for k := 0; k < c.Calls; k++ {
		var ctx context.Context
		var cancel context.CancelFunc
		at := time.Duration(c.AtMs) * time.Millisecond
		start := time.Now()
		if c.End == "deadline" {
			ctx, cancel = context.WithTimeout(context.Background(), at)
		} else {
			ctx, cancel = context.WithCancel(context.Background())
			time.AfterFunc(at, cancel)
		}
		done := make(chan error, 1)
		go func() {
			var err error
			switch c.Op {
			case "establish":
				err = client.Establish(ctx)
			case "send-message":
				err = client.SendMessage(ctx, c13Message("m"))
			case "send-notification":
				n := &lime.Notification{Event: lime.NotificationEventReceived}
				n.ID = "n1"
				err = client.SendNotification(ctx, n)
			case "send-request":
				r := &lime.RequestCommand{}
				r.ID, r.Method = "r1", lime.CommandMethodGet
				r.SetURIString("/ping")
				err = client.SendRequestCommand(ctx, r)
			default:
				r := &lime.RequestCommand{}
				r.ID, r.Method = fmt.Sprintf("p%d", k), lime.CommandMethodGet
				r.SetURIString("/ping")
				_, err = client.ProcessCommand(ctx, r)
			}
			done <- err
		}()
		select {
		case err := <-done:
			cancel()
			late := time.Since(start.Add(at)).Milliseconds()
			if err == nil {
				return 0, k, "returned nil although no session can exist"
			}
			if late > bound {
				return late, k, err.Error()
			}
		case <-time.After(at + time.Duration(bound)*time.Millisecond + 2*time.Second):
			cancel()
			return -1, k, "never returned"
		}
	}
	return 0, -1, ""
}

func TestC15ClientSilentServer(t *testing.T) {
	rec := NewRecorder("C15", "TestC15ClientSilentServer")
	defer rec.Finish(t)
	sh, nsh := Shard()
	idx := 0
	for _, tr := range []string{"inproc", "tcp"} {
		for _, op := range []string{"establish", "send-message", "send-notification", "send-request", "process-command"} {
			for _, end := range []string{"deadline", "cancel"} {
				for _, at := range []int{30, 300} {
					idx++
					if idx%nsh != sh {
						continue
					}
					c := &c15ClientCase{Transport: tr, Op: op, End: end, AtMs: at, Calls: 3}
					if tr == "tcp" && end == "cancel" {
						c.Calls = 1 // each takes up to one I/O poll (5 s)
						if at != 30 && !Thorough() {
							continue
						}
					}
					rec.Journal(c)
					o := &Outcome{NonTrivial: true}
					o.Class("client-entry-point/silent-server")
					late, k, e := runC15Client(c)
					switch {
					case late < 0:
						o.Fail("C15/never-returned/client."+op+"/"+tr+"/"+end, "call #%d of Client.%s did not return after its context was over (server silent during the handshake)", k, op)
					case late > 0:
						o.Fail("C15/late/client."+op+"/"+tr+"/"+end, "call #%d of Client.%s returned %d ms after its context was over: %s", k, op, late, e)
					case e != "":
						o.Fail("C15/client-returned-nil/"+op, "%s", e)
					}
					rec.Eval(c, o)
				}
			}
		}
	}
	rec.Note("exhaustive", "true")
}
