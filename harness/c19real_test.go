//go:build go1.25

package harness

import (
	"context"
	"fmt"
	"net"
	"sync"
	"syscall"
	"testing"
	"time"

	lime "github.com/takenet/lime-go"
)

// Real sockets (TCP, WebSocket): faults the harness can cause from the server side of a real Server — finish, fail, and an
// abrupt drop of the server's connection — in real time; busy-looping is measured as process CPU time during an idle window.

func cpuTime() time.Duration {
	var ru syscall.Rusage
	_ = syscall.Getrusage(syscall.RUSAGE_SELF, &ru)
	return time.Duration(ru.Utime.Nano() + ru.Stime.Nano())
}

type c19RealCase struct {
	Kind   string   `json:"kind"`   // tcp | ws
	Faults []string `json:"faults"` // server-finish | server-fail | server-drop
}

func runC19Real(c *c19RealCase) (*c19Obs, []int64) {
	obs := &c19Obs{}
	var cpu []int64
	var mu sync.Mutex
	handledBy := map[string]string{}
	var sessions []*lime.ServerChannel
	var sessionIDs []string
	cfg := lime.NewServerConfig()
	cfg.Node = srvNode
	cfg.SchemeOpts = []lime.AuthenticationScheme{lime.AuthenticationSchemeGuest}
	cfg.EncryptOpts = []lime.SessionEncryption{lime.SessionEncryptionNone}
	cfg.ChannelBufferSize = 4
	cfg.Authenticate = func(context.Context, lime.Identity, lime.Authentication) (*lime.AuthenticationResult, error) {
		return lime.MemberAuthenticationResult(), nil
	}
	cfg.Register = func(_ context.Context, n lime.Node, _ *lime.ServerChannel) (lime.Node, error) { return n, nil }
	cfg.Established = func(id string, ch *lime.ServerChannel) {
		mu.Lock()
		sessions = append(sessions, ch)
		sessionIDs = append(sessionIDs, id)
		mu.Unlock()
	}
	smux := &lime.EnvelopeMux{}
	smux.MessageHandlerFunc(nil, func(ctx context.Context, m *lime.Message, _ lime.Sender) error {
		sid, _ := lime.ContextSessionID(ctx)
		mu.Lock()
		handledBy[m.ID] = sid
		mu.Unlock()
		return nil
	})
	port, err := FreePort()
	if err != nil {
		obs.Note = "skip: " + err.Error()
		return obs, nil
	}
	addr := &net.TCPAddr{IP: net.IPv4(127, 0, 0, 1), Port: port}
	var bl lime.BoundListener
	if c.Kind == "ws" {
		bl = lime.NewBoundListener(lime.NewWebsocketTransportListener(&lime.WebsocketConfig{ConnBuffer: 4}), addr)
	} else {
		bl = lime.NewBoundListener(lime.NewTCPTransportListener(&lime.TCPConfig{ConnBuffer: 4}), addr)
	}
	server := lime.NewServer(cfg, smux, bl)
	done := make(chan error, 1)
	go func() { done <- server.ListenAndServe() }()
	clientGot := map[string]bool{}
	cmux := &lime.EnvelopeMux{}
	cmux.MessageHandlerFunc(nil, func(_ context.Context, m *lime.Message, _ lime.Sender) error {
		mu.Lock()
		clientGot[m.ID] = true
		mu.Unlock()
		return nil
	})
	ccfg := lime.NewClientConfig()
	ccfg.Node = lime.Node{Identity: lime.Identity{Name: "alice", Domain: "cli.example"}, Instance: "home"}
	ccfg.ChannelBufferSize = 4
	ccfg.CompSelector = lime.NoneCompressionSelector
	ccfg.EncryptSelector = lime.NoneEncryptionSelector
	ccfg.Authenticator = lime.GuestAuthenticator
	ccfg.NewTransport = func(ctx context.Context) (lime.Transport, error) { return DialReal(ctx, c.Kind, addr) }
	client := lime.NewClient(ccfg, cmux)
	defer func() {
		_ = client.Close()
		_ = server.Close()
		select {
		case <-done:
		case <-time.After(10 * time.Second):
		}
	}()
	ectx, ecancel := context.WithTimeout(context.Background(), 10*time.Second)
	err = client.Establish(ectx)
	ecancel()
	if err != nil {
		obs.Note = "skip: initial establish: " + err.Error()
		return obs, nil
	}
	waitFor := func(d time.Duration, cond func() bool) bool {
		deadline := time.Now().Add(d)
		for time.Now().Before(deadline) {
			if cond() {
				return true
			}
			time.Sleep(5 * time.Millisecond)
		}
		return cond()
	}
	waitFor(2*time.Second, func() bool { mu.Lock(); defer mu.Unlock(); return len(sessions) > 0 })
	bound := time.Second
	if c.Kind == "tcp" {
		bound = 5 * time.Second
	}
	for fi, f := range c.Faults {
		mu.Lock()
		if len(sessions) == 0 {
			mu.Unlock()
			obs.Note = "harness: no session"
			break
		}
		sc := sessions[len(sessions)-1]
		known := map[string]bool{}
		for _, id := range sessionIDs {
			known[id] = true
		}
		mu.Unlock()
		fctx, fc := context.WithTimeout(context.Background(), 2*time.Second)
		switch f {
		case "server-finish":
			_ = sc.FinishSession(fctx)
		case "server-fail":
			_ = sc.FailSession(fctx, &lime.Reason{Code: 3, Description: "bye"})
		case "server-drop":
			_ = sc.Close()
		}
		fc()
		// (c) the listener must not spin while the application is idle
		time.Sleep(150 * time.Millisecond)
		c0 := cpuTime()
		time.Sleep(400 * time.Millisecond)
		used := cpuTime() - c0
		cpu = append(cpu, used.Milliseconds())
		r := c19Round{Fault: f, Spinning: used > 250*time.Millisecond}
		id := fmt.Sprintf("probe-%d", fi)
		ctx, cancel := context.WithTimeout(context.Background(), bound+10*time.Second)
		t0 := time.Now()
		err := client.SendMessage(ctx, c13Message(id))
		cancel()
		r.SendLatencyMs = time.Since(t0).Milliseconds()
		if err != nil {
			r.SendErr = err.Error()
		}
		waitFor(2*time.Second, func() bool { mu.Lock(); defer mu.Unlock(); _, ok := handledBy[id]; return ok })
		mu.Lock()
		sid, handled := handledBy[id]
		r.ProbeHandled = handled
		r.NewSession = handled && !known[sid]
		r.SessionsAfter = len(sessionIDs)
		newest := sessions[len(sessions)-1]
		mu.Unlock()
		pid := fmt.Sprintf("push-%d", fi)
		pctx, pc := context.WithTimeout(context.Background(), 2*time.Second)
		_ = newest.SendMessage(pctx, c13Message(pid))
		pc()
		r.PushHandled = waitFor(2*time.Second, func() bool { mu.Lock(); defer mu.Unlock(); return clientGot[pid] })
		obs.Rounds = append(obs.Rounds, r)
	}
	return obs, cpu
}

func TestC19Real(t *testing.T) {
	rec := NewRecorder("C19", "TestC19Real")
	defer rec.Finish(t)
	var cases []*c19RealCase
	for _, kind := range []string{"tcp", "ws"} {
		for _, f := range []string{"server-finish", "server-fail", "server-drop"} {
			cases = append(cases, &c19RealCase{Kind: kind, Faults: []string{f}})
		}
		cases = append(cases, &c19RealCase{Kind: kind, Faults: []string{"server-drop", "server-finish", "server-drop"}})
	}
	for _, c := range cases {
		// one case at a time: CPU time is measured per process
		obs, cpu := runC19Real(c)
		o := &Outcome{NonTrivial: true}
		o.Class("real:kind=" + c.Kind)
		if len(obs.Note) > 4 && obs.Note[:5] == "skip:" {
			o.Class("real:skipped")
			rec.Eval(c, o)
			continue
		}
		vc := &c19Case{Transport: "real-" + c.Kind}
		for _, f := range c.Faults {
			vc.Faults = append(vc.Faults, c19Fault{Kind: f, Moment: "idle"})
		}
		judgeC19(vc, obs, o)
		for i, r := range obs.Rounds {
			if r.Spinning {
				o.Fail("C19/wedged-spinning/real-"+c.Kind+"/"+r.Fault, "round %d: the process burnt %d ms of CPU during a 400 ms idle window after the fault", i, cpu[i])
			}
		}
		rec.Eval(c, o)
	}
	rec.Note("exhaustive", "true")
}
