//go:build go1.25

package harness

import (
	"context"
	"errors"
	"fmt"
	"strings"
	"sync"
	"testing"
	"testing/synctest"
	"time"

	lime "github.com/takenet/lime-go"
	"pgregory.net/rapid"
)

type c06Case struct {
	Role  string   `json:"role"`          // client | server
	Stage string   `json:"stage"`         // see stagesFor
	Ops   []string `json:"ops"`           // order in which the send operations are attempted
	Buf   int      `json:"buf,omitempty"` // the channel's buffer size: 0 = 4, -1 = none (unbuffered), otherwise as given
	Via   string   `json:"via,omitempty"` // "" = the channel's own methods | handler-sender = the Sender a dispatch-loop handler was given while the session was established (client role, stages after establishment)
}

// what a handler keeps: the Sender it was called with
type keptSender struct{ s lime.Sender }

func (k keptSender) SendMessage(ctx context.Context, m *lime.Message) error {
	return k.s.SendMessage(ctx, m)
}
func (k keptSender) SendNotification(ctx context.Context, n *lime.Notification) error {
	return k.s.SendNotification(ctx, n)
}
func (k keptSender) SendRequestCommand(ctx context.Context, c *lime.RequestCommand) error {
	return k.s.SendRequestCommand(ctx, c)
}
func (k keptSender) SendResponseCommand(ctx context.Context, c *lime.ResponseCommand) error {
	return k.s.SendResponseCommand(ctx, c)
}
func (k keptSender) ProcessCommand(context.Context, *lime.RequestCommand) (*lime.ResponseCommand, error) {
	return nil, errors.New("a handler's Sender has no ProcessCommand")
}

func viaHandlerStage(stage string) bool {
	switch stage {
	case "established", "finished", "failed-after-established", "peer-closed", "finished-by-server":
		return true
	}
	return false
}

var c06Ops = []string{"SendMessage", "SendNotification", "SendRequestCommand", "SendResponseCommand", "ProcessCommand"}

func stagesFor(role string) []string {
	if role == "server" {
		return []string{"new", "negotiating", "authenticating", "in-authenticate-callback", "in-register-callback", "established", "finished", "failed-handshake", "failed-after-established", "peer-closed",
			"finish-in-progress", "fail-in-progress"}
	}
	return []string{"new-before", "new-sent", "negotiating", "in-selector-callback", "authenticating", "in-authenticator-callback", "established", "finished", "failed-handshake", "failed-after-established", "peer-closed",
		"finishing-said-at-new", "finishing-said-at-auth", "finished-by-server"}
}

func (c *c06Case) bufSize() int {
	switch {
	case c.Buf == 0:
		return 4
	case c.Buf < 0:
		return 0
	}
	return c.Buf
}

type c06Obs struct {
	Results        map[string]string `json:"results"`  // op -> "" (nil error) or error text
	WireData       []M               `json:"wireData"` // non-session envelopes this side wrote
	PeerData       int               `json:"peerData"` // data envelopes the scripted peer received
	StateAt        string            `json:"stateAt"`
	Reached        bool              `json:"reached"`                  // the stage was actually reached
	TerminalOnWire bool              `json:"terminalOnWire,omitempty"` // -in-progress stages: the peer has received the finished / failed envelope
	Note           string            `json:"note,omitempty"`
}

type sender interface {
	SendMessage(ctx context.Context, msg *lime.Message) error
	SendNotification(ctx context.Context, not *lime.Notification) error
	SendRequestCommand(ctx context.Context, cmd *lime.RequestCommand) error
	SendResponseCommand(ctx context.Context, cmd *lime.ResponseCommand) error
	ProcessCommand(ctx context.Context, cmd *lime.RequestCommand) (*lime.ResponseCommand, error)
}

func doSends(s sender, ops []string, obs *c06Obs) {
	obs.Results = map[string]string{}
	for i, op := range ops {
		ctx, cancel := context.WithTimeout(context.Background(), 200*time.Millisecond)
		var err error
		p := Protect(func() {
			switch op {
			case "SendMessage":
				m := &lime.Message{}
				m.ID = fmt.Sprintf("data-%d", i)
				m.SetContent(lime.TextDocument("x"))
				err = s.SendMessage(ctx, m)
			case "SendNotification":
				n := &lime.Notification{Event: lime.NotificationEventReceived}
				n.ID = fmt.Sprintf("data-%d", i)
				err = s.SendNotification(ctx, n)
			case "SendRequestCommand":
				r := &lime.RequestCommand{}
				r.ID = fmt.Sprintf("data-%d", i)
				r.Method = lime.CommandMethodGet
				r.SetURIString("/ping")
				err = s.SendRequestCommand(ctx, r)
			case "SendResponseCommand":
				r := &lime.ResponseCommand{Status: lime.CommandStatusSuccess}
				r.ID = fmt.Sprintf("data-%d", i)
				r.Method = lime.CommandMethodGet
				err = s.SendResponseCommand(ctx, r)
			case "ProcessCommand":
				r := &lime.RequestCommand{}
				r.ID = fmt.Sprintf("data-%d", i)
				r.Method = lime.CommandMethodGet
				r.SetURIString("/ping")
				_, err = s.ProcessCommand(ctx, r)
			}
		})
		cancel()
		switch {
		case p != "":
			obs.Results[op] = "panic: " + p
		case err != nil:
			obs.Results[op] = err.Error()
		default:
			obs.Results[op] = ""
		}
	}
}

func dataEnvelopes(capture []byte) []M {
	clear, _ := clearPrefix(capture)
	var out []M
	for _, m := range clear {
		if _, ok := m["state"]; !ok {
			out = append(out, m)
		}
	}
	return out
}

func countData(got []GotEnv) int {
	n := 0
	for _, g := range got {
		if _, ok := g.Env["state"]; !ok {
			n++
		}
	}
	return n
}

func runC06Server(c *c06Case) *c06Obs {
	obs := &c06Obs{}
	cl, sv := Pipe(PipeOpts{Capture: true})
	st := lime.VerifNewTCPTransport(sv, nil, true)
	sc := lime.NewServerChannel(st, c.bufSize(), srvNode, fixedSid)
	peer := NewRawPeer(cl)
	ctx, cancel := context.WithTimeout(context.Background(), handshakeTimeout)
	defer cancel()
	enc := []lime.SessionEncryption{lime.SessionEncryptionNone}
	if c.Stage == "negotiating" {
		enc = []lime.SessionEncryption{lime.SessionEncryptionNone, lime.SessionEncryptionTLS}
	}
	hold := make(chan struct{})
	inCB := make(chan struct{}, 2)
	auth := func(context.Context, lime.Identity, lime.Authentication) (*lime.AuthenticationResult, error) {
		if c.Stage == "in-authenticate-callback" {
			inCB <- struct{}{}
			<-hold
		}
		return lime.MemberAuthenticationResult(), nil
	}
	reg := func(_ context.Context, n lime.Node, _ *lime.ServerChannel) (lime.Node, error) {
		if c.Stage == "in-register-callback" {
			inCB <- struct{}{}
			<-hold
		}
		return n, nil
	}
	var wg sync.WaitGroup
	wg.Add(1)
	go func() {
		defer wg.Done()
		_ = sc.EstablishSession(ctx, []lime.SessionCompression{lime.SessionCompressionNone}, enc,
			[]lime.AuthenticationScheme{lime.AuthenticationSchemePlain, lime.AuthenticationSchemeGuest}, auth, reg)
	}()
	newS := M{"state": "new"}
	goodAuth := M{"id": fixedSid, "from": "alice@cli.example/home", "state": "authenticating", "scheme": "guest", "authentication": M{}}
	step := func(m M) { synctest.Wait(); _ = peer.SendEnv(m); synctest.Wait(); peer.Drain() }
	establish := func() { step(newS); step(goodAuth) }
	released := false
	release := func() {
		if !released {
			released = true
			close(hold)
		}
	}
	switch c.Stage {
	case "new":
		synctest.Wait()
	case "negotiating", "authenticating":
		step(newS)
	case "in-authenticate-callback", "in-register-callback":
		step(newS)
		_ = peer.SendEnv(goodAuth)
		<-inCB
	case "established":
		establish()
	case "finished":
		establish()
		fctx, fc := context.WithTimeout(context.Background(), time.Second)
		_ = sc.FinishSession(fctx)
		fc()
	case "failed-handshake":
		step(newS)
		step(M{"id": fixedSid, "state": "authenticating", "scheme": "key", "authentication": M{"key": "k"}}) // scheme not offered
	case "failed-after-established":
		establish()
		fctx, fc := context.WithTimeout(context.Background(), time.Second)
		_ = sc.FailSession(fctx, &lime.Reason{Code: 9, Description: "bye"})
		fc()
	case "finish-in-progress", "fail-in-progress":
		// the terminal session envelope is on the wire, the terminating call has not returned yet (on TCP it waits for the
		// receiver, up to one poll interval); the peer stays connected and idle. Another goroutine tries to send now.
		establish()
		wg.Add(1)
		go func() {
			defer wg.Done()
			fctx, fc := context.WithTimeout(context.Background(), 20*time.Second)
			defer fc()
			if c.Stage == "finish-in-progress" {
				_ = sc.FinishSession(fctx)
			} else {
				_ = sc.FailSession(fctx, &lime.Reason{Code: 9, Description: "bye"})
			}
		}()
		synctest.Wait()
		peer.Drain()
	case "peer-closed":
		establish()
		_ = cl.Close()
		synctest.Wait()
	}
	obs.StateAt = string(sc.State())
	if strings.HasSuffix(c.Stage, "-in-progress") {
		// reached when the peer has the terminal envelope in hand; the state the channel shows is what is being judged
		for _, g := range peer.Got {
			if st, _ := g.Env["state"].(string); st == "finished" || st == "failed" {
				obs.TerminalOnWire = true
			}
		}
	}
	want := map[string]string{"new": "new", "negotiating": "negotiating", "authenticating": "authenticating", "in-authenticate-callback": "authenticating",
		"in-register-callback": "authenticating", "established": "established", "finished": "finished", "failed-handshake": "failed", "failed-after-established": "failed", "peer-closed": "established"}
	obs.Reached = obs.StateAt == want[c.Stage]
	if c.Stage == "in-authenticate-callback" || c.Stage == "in-register-callback" {
		// the harness sits inside the callback: the peer has not been told anything about an established session, whatever
		// state the channel has already put itself in
		obs.Reached = true
	}
	if strings.HasSuffix(c.Stage, "-in-progress") {
		obs.Reached = obs.TerminalOnWire
	}
	doSends(sc, c.Ops, obs)
	synctest.Wait()
	peer.Drain()
	obs.WireData = dataEnvelopes(sv.Captured())
	obs.PeerData = countData(peer.Got)
	release()
	cancel()
	_ = cl.Close()
	wg.Wait()
	_ = sc.Close()
	_ = sv.Close()
	time.Sleep(6 * time.Second)
	synctest.Wait()
	return obs
}

func runC06Client(c *c06Case) *c06Obs {
	obs := &c06Obs{}
	cl, sv := Pipe(PipeOpts{Capture: true})
	ct := lime.VerifNewTCPTransport(cl, nil, false)
	cc := lime.NewClientChannel(ct, c.bufSize())
	peer := NewRawPeer(sv)
	ctx, cancel := context.WithTimeout(context.Background(), handshakeTimeout)
	defer cancel()
	hold := make(chan struct{})
	inCB := make(chan struct{}, 2)
	encSel := func(o []lime.SessionEncryption) lime.SessionEncryption {
		if c.Stage == "in-selector-callback" {
			inCB <- struct{}{}
			<-hold
		}
		return lime.SessionEncryptionNone
	}
	authr := func([]lime.AuthenticationScheme, lime.Authentication) lime.Authentication {
		if c.Stage == "in-authenticator-callback" {
			inCB <- struct{}{}
			<-hold
		}
		return &lime.GuestAuthentication{}
	}
	var wg sync.WaitGroup
	start := func() {
		wg.Add(1)
		go func() {
			defer wg.Done()
			_ = Protect(func() {
				_, _ = cc.EstablishSession(ctx, lime.NoneCompressionSelector, encSel, lime.Identity{Name: "alice", Domain: "cli.example"}, authr, "home")
			})
		}()
		synctest.Wait()
		peer.Drain()
	}
	from := NodeText(srvNode)
	opts := M{"id": "A", "from": from, "state": "negotiating", "encryptionOptions": []string{"none", "tls"}, "compressionOptions": []string{"none"}}
	authReq := M{"id": "A", "from": from, "state": "authenticating", "schemeOptions": []string{"guest"}}
	est := M{"id": "A", "from": from, "to": "alice@cli.example/home", "state": "established"}
	step := func(m M) { _ = peer.SendEnv(m); synctest.Wait(); peer.Drain() }
	var snd sender = cc
	lctx, lcancel := context.WithCancel(context.Background())
	defer lcancel()
	establish := func() {
		start()
		step(authReq)
		step(est)
		if c.Via == "handler-sender" {
			// a dispatch loop runs; its message handler keeps the Sender it is given
			kept := make(chan lime.Sender, 1)
			mux := &lime.EnvelopeMux{}
			mux.MessageHandlerFunc(nil, func(_ context.Context, _ *lime.Message, s lime.Sender) error {
				select {
				case kept <- s:
				default:
				}
				return nil
			})
			wg.Add(1)
			go func() {
				defer wg.Done()
				_ = Protect(func() { _ = mux.ListenClient(lctx, cc) })
			}()
			step(M{"id": "m0", "from": from, "type": "text/plain", "content": "hello"})
			select {
			case s := <-kept:
				snd = keptSender{s}
			default:
				obs.Note = "harness: the handler was not called"
			}
		}
	}
	released := false
	release := func() {
		if !released {
			released = true
			close(hold)
		}
	}
	switch c.Stage {
	case "new-before":
	case "new-sent":
		start()
	case "negotiating":
		start()
		step(opts)
	case "in-selector-callback":
		start()
		_ = peer.SendEnv(opts)
		<-inCB
	case "authenticating":
		start()
		step(authReq)
	case "in-authenticator-callback":
		start()
		_ = peer.SendEnv(authReq)
		<-inCB
	case "established":
		establish()
	case "finished":
		establish()
		done := make(chan struct{})
		go func() {
			fctx, fc := context.WithTimeout(context.Background(), time.Second)
			_, _ = cc.FinishSession(fctx)
			fc()
			close(done)
		}()
		synctest.Wait()
		peer.Drain()
		step(M{"id": "A", "from": from, "state": "finished"})
		<-done
	case "failed-handshake":
		start()
		step(M{"id": "A", "from": from, "state": "failed", "reason": M{"code": 1, "description": "no"}})
	case "failed-after-established":
		establish()
		step(M{"id": "A", "from": from, "state": "failed", "reason": M{"code": 1, "description": "no"}})
	case "finished-by-server":
		// the server ends the session on its own: nobody on this side asked for it or waits for it
		establish()
		step(M{"id": "A", "from": from, "state": "finished"})
	case "finishing-said-at-new":
		// a server that answers the handshake with a session in state finishing: never established, whatever the channel makes of it
		start()
		step(M{"id": "A", "from": from, "state": "finishing"})
	case "finishing-said-at-auth":
		start()
		step(authReq)
		step(M{"id": "A", "from": from, "state": "finishing"})
	case "peer-closed":
		establish()
		_ = sv.Close()
		synctest.Wait()
	}
	obs.StateAt = string(cc.State())
	if strings.HasPrefix(c.Stage, "finishing-said") {
		obs.Reached = obs.StateAt != "established" // whatever state the channel chose, the session was never established
	}
	want := map[string]string{"new-before": "new", "new-sent": "new", "negotiating": "negotiating", "in-selector-callback": "negotiating", "authenticating": "authenticating",
		"in-authenticator-callback": "authenticating", "established": "established", "finished": "finished", "failed-handshake": "failed", "failed-after-established": "failed", "peer-closed": "established"}
	if !strings.HasPrefix(c.Stage, "finishing-said") {
		obs.Reached = obs.StateAt == want[c.Stage]
	}
	if c.Stage == "failed-after-established" || c.Stage == "failed-handshake" || c.Stage == "finished-by-server" {
		// the peer has sent the failed session and everything has settled: the session has failed, whatever the channel
		// made of the envelope
		obs.Reached = true
	}
	doSends(snd, c.Ops, obs)
	synctest.Wait()
	peer.Drain()
	obs.WireData = dataEnvelopes(cl.Captured())
	obs.PeerData = countData(peer.Got)
	release()
	cancel()
	lcancel()
	_ = sv.Close()
	wg.Wait()
	_ = cc.Close()
	_ = cl.Close()
	time.Sleep(6 * time.Second)
	synctest.Wait()
	return obs
}

func judgeC06Sends(c *c06Case, obs *c06Obs, o *Outcome) {
	o.Class("role=" + c.Role)
	o.Class("stage=" + c.Stage)
	o.Class(fmt.Sprintf("channel-buffer=%d", c.bufSize()))
	if c.Via != "" {
		o.Class("via=" + c.Via)
	}
	if strings.HasPrefix(obs.Note, "harness:") {
		o.Fail("C06/harness/"+c.Role+"/"+c.Stage, "%s", obs.Note)
		return
	}
	if !obs.Reached {
		o.Class("stage-not-reached")
		o.Fail("C06/harness/stage-not-reached/"+c.Role+"/"+c.Stage, "state at injection time is %q", obs.StateAt)
		return
	}
	o.NonTrivial = c.Stage != "established" && !strings.HasPrefix(c.Stage, "new")
	if c.Stage == "established" {
		for _, op := range c.Ops {
			r := obs.Results[op]
			if op == "ProcessCommand" {
				if !strings.Contains(r, "deadline") {
					o.Fail("C06/established/"+op, "ProcessCommand without a responder should end with its context's error, got %q", r)
				}
				continue
			}
			if r != "" {
				o.Fail("C06/established/send-refused/"+op, "%s failed while established: %s", op, r)
			}
		}
		if len(obs.WireData) != len(c.Ops) || obs.PeerData != len(c.Ops) {
			o.Fail("C06/established/wire-count", "%d operations, %d data envelopes written, %d seen by the peer", len(c.Ops), len(obs.WireData), obs.PeerData)
		}
		return
	}
	for _, op := range c.Ops {
		r := obs.Results[op]
		if r == "" {
			o.Fail("C06/send-accepted-outside-established/"+c.Role+"/"+c.Stage+"/"+op+viaTag(c), "%s returned nil in stage %s (state %s)", op, c.Stage, obs.StateAt)
		} else if strings.HasPrefix(r, "panic") {
			o.Fail("C06/send-panicked/"+c.Role+"/"+c.Stage+"/"+op, "%s", r)
		}
	}
	if len(obs.WireData) > 0 {
		o.Fail("C06/data-on-wire-outside-established/"+c.Role+"/"+c.Stage+viaTag(c), "in stage %s the channel wrote %d non-session envelope(s): %s", c.Stage, len(obs.WireData), short(obs.WireData[0]))
	}
}

func viaTag(c *c06Case) string {
	if c.Via == "" {
		return ""
	}
	return "/via-" + c.Via
}

func runC06(c *c06Case) *c06Obs {
	if c.Role == "server" {
		return runC06Server(c)
	}
	return runC06Client(c)
}

func TestC06Stages(t *testing.T) {
	rec := NewRecorder("C06", "TestC06Stages")
	defer rec.Finish(t)
	for _, role := range []string{"server", "client"} {
		for _, stage := range stagesFor(role) {
			// every single operation, and all five in two orders
			var opLists [][]string
			for _, op := range c06Ops {
				opLists = append(opLists, []string{op})
			}
			opLists = append(opLists, c06Ops, []string{"ProcessCommand", "SendResponseCommand", "SendRequestCommand", "SendNotification", "SendMessage"})
			for li, ops := range opLists {
				// (the channel's buffer size spread over the lists: the usual one, none at all, one)
				c := &c06Case{Role: role, Stage: stage, Ops: ops, Buf: []int{0, -1, 1}[li%3]}
				o := &Outcome{}
				var obs *c06Obs
				rec.Journal(c)
				synctest.Test(t, func(t *testing.T) { obs = runC06(c) })
				judgeC06Sends(c, obs, o)
				rec.Eval(c, o)
			}
			for _, buf := range []int{-1, 1} {
				c := &c06Case{Role: role, Stage: stage, Ops: c06Ops, Buf: buf}
				o := &Outcome{}
				var obs *c06Obs
				rec.Journal(c)
				synctest.Test(t, func(t *testing.T) { obs = runC06(c) })
				judgeC06Sends(c, obs, o)
				rec.Eval(c, o)
			}
			if role == "client" && viaHandlerStage(stage) {
				// the same through the Sender a dispatch-loop handler was given earlier and kept
				four := c06Ops[:4]
				lists := [][]string{four, {four[3], four[2], four[1], four[0]}}
				for _, op := range four {
					lists = append(lists, []string{op})
				}
				for _, ops := range lists {
					c := &c06Case{Role: role, Stage: stage, Ops: ops, Via: "handler-sender"}
					o := &Outcome{}
					var obs *c06Obs
					rec.Journal(c)
					synctest.Test(t, func(t *testing.T) { obs = runC06(c) })
					judgeC06Sends(c, obs, o)
					rec.Eval(c, o)
				}
			}
		}
	}
	rec.Note("exhaustive", "true")
}

func TestC06(t *testing.T) {
	rec := NewRecorder("C06", "TestC06")
	rapid.Check(t, func(rt *rapid.T) {
		role := rapid.SampledFrom([]string{"server", "client"}).Draw(rt, "role")
		c := &c06Case{Role: role, Stage: rapid.SampledFrom(stagesFor(role)).Draw(rt, "stage")}
		c.Ops = rapid.SliceOfNDistinct(rapid.SampledFrom(c06Ops), 1, 5, func(s string) string { return s }).Draw(rt, "ops")
		c.Buf = rapid.SampledFrom([]int{0, 0, -1, 1}).Draw(rt, "buf")
		if role == "client" && viaHandlerStage(c.Stage) && rapid.Bool().Draw(rt, "viaHandler") {
			c.Via = "handler-sender"
			c.Ops = rapid.SliceOfNDistinct(rapid.SampledFrom(c06Ops[:4]), 1, 4, func(s string) string { return s }).Draw(rt, "opsVia")
		}
		o := &Outcome{}
		var obs *c06Obs
		rec.Journal(c)
		rapid.SyncTest(rt, func(rt *rapid.T) { obs = runC06(c) })
		judgeC06Sends(c, obs, o)
		rec.Check(rt, c, o)
	})
}

// ---- receive direction: data envelopes injected into the handshake ----

func judgeC06InjectServer(c *SrvCase, obs *SrvObs, o *Outcome) {
	// position of the first injected data envelope and whether the session was established before it
	pos := -1
	for i, s := range c.Script {
		if s.Kind == "message" || s.Kind == "request" || s.Kind == "response" || s.Kind == "notification" {
			pos = i
			break
		}
	}
	if pos < 0 {
		return
	}
	m := RunServerModel(&SrvCase{Cfg: c.Cfg, Script: c.Script[:pos]}, observedNegotiation(obs))
	if m.Status != "pending" {
		return // the handshake was already over
	}
	o.NonTrivial = true
	o.Class(fmt.Sprintf("inject=%s@%d", c.Script[pos].Kind, pos))
	if obs.DataHandled > 0 {
		o.Fail("C06/pre-establishment-data-handled/server/"+c.Script[pos].Kind, "a %s injected at handshake position %d reached a handler (%d invocations)", c.Script[pos].Kind, pos, obs.DataHandled)
	}
	for _, g := range obs.Got {
		if g.Env["state"] == "established" {
			o.Fail("C06/established-after-injected-data/server/"+c.Script[pos].Kind, "the handshake went on to established after a %s was injected at position %d", c.Script[pos].Kind, pos)
		}
	}
	if obs.Established || obs.FinalState == "established" {
		o.Fail("C06/established-after-injected-data/server/"+c.Script[pos].Kind, "channel state established after a %s was injected at position %d", c.Script[pos].Kind, pos)
	}
}

func TestC06InjectServer(t *testing.T) {
	rec := NewRecorder("C06", "TestC06InjectServer")
	defer rec.Finish(t)
	sh, nsh := Shard()
	idx := 0
	for _, mode := range []string{"server", "direct"} {
		for _, cfg := range enumCfgs() {
			cfg.Mode = mode
			// progressing prefixes: every prefix of a successful handshake, then each data kind injected
			var prefixes [][]CSym
			alpha := srvAlphabet(&cfg, true)
			if cfg.Transport == "inproc" {
				alpha = inprocAlphabet(alpha)
			}
			enumScripts(cfg, alpha, 3, implNegotiates(&cfg), func(c *SrvCase) {
				if RunServerModel(c, implNegotiates(&cfg)).Status == "pending" {
					prefixes = append(prefixes, c.Script)
				}
			})
			prefixes = append(prefixes, nil)
			for _, p := range prefixes {
				for _, kind := range []string{"message", "request", "response", "notification"} {
					idx++
					if idx%nsh != sh {
						continue
					}
					c := &SrvCase{Cfg: cfg, End: "wait"}
					c.Script = append(append([]CSym(nil), p...), CSym{Kind: kind, ID: "none"})
					// afterwards the peer tries to carry on as if nothing happened
					good := CSym{Kind: "session", State: "authenticating", ID: "sid", Scheme: cfg.Schemes[0], Cred: "c1", From: peerFrom}
					if cfg.Schemes[0] == "guest" || cfg.Schemes[0] == "transport" {
						good.Cred = ""
					}
					c.Script = append(c.Script, good)
					o := &Outcome{}
					var obs *SrvObs
					rec.Journal(c)
					synctest.Test(t, func(t *testing.T) { obs = RunServerScript(c) })
					judgeC06InjectServer(c, obs, o)
					rec.Eval(c, o)
					// the pipelining peer: behind its choice of tls, in the same cleartext write, its credentials and the data envelope
					if n := len(p); n > 0 && cfg.Transport == "tcp-tls" && p[n-1].Kind == "session" && p[n-1].State == "negotiating" && p[n-1].Enc == "tls" && p[n-1].DoTLS {
						g := good
						g.Glued = true
						c2 := &SrvCase{Cfg: cfg, End: "wait"}
						c2.Script = append(append([]CSym(nil), p...), g, CSym{Kind: kind, ID: "none", Glued: true})
						o2 := &Outcome{}
						o2.Class("pipelined-behind-the-tls-choice")
						var obs2 *SrvObs
						rec.Journal(c2)
						synctest.Test(t, func(t *testing.T) { obs2 = RunServerScript(c2) })
						judgeC06InjectServer(c2, obs2, o2)
						rec.Eval(c2, o2)
					}
				}
			}
		}
	}
	rec.Note("exhaustive", "true")
}

func TestC06InjectClient(t *testing.T) {
	rec := NewRecorder("C06", "TestC06InjectClient")
	defer rec.Finish(t)
	alpha := cliAlphabet()
	prog := typicalProgression(alpha)
	kinds := []SSym{{Kind: "message"}, {Kind: "request", ID: "A"}, {Kind: "notification"}, {Kind: "response", ID: "A"}}
	for _, cfg := range []CliCase{{EncSel: "none", CompSel: "none", Auth: "guest"}, {EncSel: "first", CompSel: "first", Auth: "echo", CliTLS: true}} {
		for pos := 0; pos < len(prog); pos++ { // inject before the pos-th handshake reply (established is prog[4])
			for _, k := range kinds {
				c := cfg
				for i := 0; i < pos; i++ {
					c.Script = append(c.Script, alpha[prog[i]])
				}
				c.Script = append(c.Script, k)
				for i := pos; i < len(prog); i++ {
					c.Script = append(c.Script, alpha[prog[i]])
				}
				c.End = "eof"
				o := &Outcome{NonTrivial: true}
				o.Class(fmt.Sprintf("inject=%s@%d", k.Kind, pos))
				var obs *CliObs
				var streams int
				rec.Journal(&c)
				synctest.Test(t, func(t *testing.T) { obs, streams = runClientInject(&c) })
				if obs.SesState == "established" || obs.Established {
					o.Fail("C06/established-after-injected-data/client/"+k.Kind, "client reports established although a %s arrived at handshake position %d", k.Kind, pos)
				}
				if streams > 0 {
					o.Fail("C06/pre-establishment-data-delivered/client/"+k.Kind, "%d envelope(s) appeared on the client's inbound streams", streams)
				}
				rec.Eval(&c, o)
			}
		}
	}
	rec.Note("exhaustive", "true")
}

// runClientInject runs a client script and afterwards counts what sits on the client's inbound streams.
func runClientInject(c *CliCase) (*CliObs, int) {
	obs := RunClientScriptKeep(c)
	return obs.obs, obs.streamItems
}

func TestC06Replay(t *testing.T) {
	rec := NewRecorder("C06", "TestC06Replay")
	defer rec.Finish(t)
	for _, f := range ReplayFiles("C06") {
		var c c06Case
		if err := LoadCase(f, &c); err == nil && c.Role != "" {
			o := &Outcome{}
			var obs *c06Obs
			synctest.Test(t, func(t *testing.T) { obs = runC06(&c) })
			judgeC06Sends(&c, obs, o)
			rec.Eval(&c, o)
		}
	}
}
