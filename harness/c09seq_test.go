//go:build go1.25

package harness

import (
	"context"
	"fmt"
	"strings"
	"testing"
	"testing/synctest"
	"time"

	lime "github.com/takenet/lime-go"
	"pgregory.net/rapid"
)

// C09 over a sequence of connections on one Server with listeners of different capabilities: the offer made to each
// connection must be (configured ∩ supported by that connection), whatever connections came before.

type c09SeqCase struct {
	Comp  []string `json:"comp"`
	Enc   []string `json:"enc"`
	Conns []string `json:"conns"` // inproc | tcp, in order
}

type c09SeqObs struct {
	Note    string        `json:"note,omitempty"`
	Offers  [][2][]string `json:"offers"` // per connection: offered compression / encryption options (nil, nil when no negotiation stage)
	Stages  []bool        `json:"stages"` // per connection: a negotiation stage occurred
	CfgEnc  []string      `json:"cfgEnc"` // the configuration as the server holds it afterwards
	CfgComp []string      `json:"cfgComp"`
}

func strList(v interface{}) []string {
	var out []string
	for _, x := range listOf(v) {
		s, _ := x.(string)
		out = append(out, s)
	}
	return out
}

func runC09Seq(c *c09SeqCase) *c09SeqObs {
	obs := &c09SeqObs{}
	scfg, _ := TLSConfigs()
	fl := NewFListener(&lime.TCPConfig{TLSConfig: scfg}, PipeOpts{})
	addr := lime.InProcessAddr("c09-seq")
	cfg := lime.NewServerConfig()
	cfg.Node = srvNode
	cfg.CompOpts, cfg.EncryptOpts = toComp(c.Comp), toEnc(c.Enc)
	cfg.SchemeOpts = []lime.AuthenticationScheme{lime.AuthenticationSchemeGuest}
	cfg.Authenticate = func(context.Context, lime.Identity, lime.Authentication) (*lime.AuthenticationResult, error) {
		return lime.MemberAuthenticationResult(), nil
	}
	cfg.Register = func(_ context.Context, n lime.Node, _ *lime.ServerChannel) (lime.Node, error) { return n, nil }
	server := lime.NewServer(cfg, &lime.EnvelopeMux{}, lime.NewBoundListener(fl, FAddr), lime.NewBoundListener(lime.NewInProcessTransportListener(addr), addr))
	done := make(chan error, 1)
	go func() { done <- server.ListenAndServe() }()
	synctest.Wait()
	for _, kind := range c.Conns {
		var first M
		if kind == "inproc" {
			t, err := lime.DialInProcess(addr, 4)
			if err != nil {
				obs.Note = "harness: dial: " + err.Error()
				break
			}
			p := &InprocPeer{T: t}
			_ = p.SendEnvelope(&lime.Session{State: lime.SessionStateNew})
			synctest.Wait()
			p.Drain()
			if len(p.Got) > 0 {
				first = p.Got[0].Env
			}
			_ = t.Close()
		} else {
			cn, err := fl.Dial()
			if err != nil {
				obs.Note = "harness: dial: " + err.Error()
				break
			}
			p := NewRawPeer(cn.Client)
			_ = p.SendEnv(M{"state": "new"})
			synctest.Wait()
			p.Drain()
			if len(p.Got) > 0 {
				first = p.Got[0].Env
			}
			p.Close()
		}
		synctest.Wait()
		if first != nil && first["state"] == "negotiating" {
			obs.Stages = append(obs.Stages, true)
			obs.Offers = append(obs.Offers, [2][]string{strList(first["compressionOptions"]), strList(first["encryptionOptions"])})
		} else {
			obs.Stages = append(obs.Stages, false)
			obs.Offers = append(obs.Offers, [2][]string{nil, nil})
		}
	}
	for _, o := range cfg.EncryptOpts {
		obs.CfgEnc = append(obs.CfgEnc, string(o))
	}
	for _, o := range cfg.CompOpts {
		obs.CfgComp = append(obs.CfgComp, string(o))
	}
	_ = server.Close()
	<-done
	time.Sleep(6 * time.Second)
	synctest.Wait()
	return obs
}

func judgeC09Seq(c *c09SeqCase, obs *c09SeqObs, o *Outcome) {
	if strings.HasPrefix(obs.Note, "harness:") {
		o.Fail("C09/harness/sequence", "%s", obs.Note)
		return
	}
	kinds := map[string]bool{}
	for i, kind := range c.Conns {
		if i >= len(obs.Stages) {
			break
		}
		kinds[kind] = true
		tr := "tcp-tls"
		if kind == "inproc" {
			tr = "inproc"
		}
		offerC := intersectStr(c.Comp, capComp(tr))
		offerE := intersectStr(c.Enc, capEnc(tr))
		if obs.Stages[i] {
			o.Class("negotiation-stage")
			if !setEqS(offerC, obs.Offers[i][0]) || !setEqS(offerE, obs.Offers[i][1]) {
				o.Fail("C09/offer-depends-on-earlier-connections", "connection #%d (%s, after %v): offered %v/%v, configured %v/%v ∩ supported is %v/%v",
					i, kind, c.Conns[:i], obs.Offers[i][0], obs.Offers[i][1], c.Comp, c.Enc, offerC, offerE)
			}
		} else if len(offerC) > 1 || len(offerE) > 1 {
			o.Fail("C09/no-offer-although-choice-exists", "connection #%d (%s, after %v): no negotiation although configured ∩ supported is %v/%v", i, kind, c.Conns[:i], offerC, offerE)
		}
	}
	if strings.Join(obs.CfgEnc, ",") != strings.Join(c.Enc, ",") || strings.Join(obs.CfgComp, ",") != strings.Join(c.Comp, ",") {
		o.Fail("C09/configuration-rewritten", "configured %v/%v, after %d connections the server's configuration reads %v/%v", c.Comp, c.Enc, len(c.Conns), obs.CfgComp, obs.CfgEnc)
	}
	o.NonTrivial = len(kinds) >= 2
}

func TestC09Sequence(t *testing.T) {
	rec := NewRecorder("C09", "TestC09Sequence")
	defer rec.Finish(t)
	// exhaustive: option orders x every sequence of up to 3 connections over {inproc, tcp}
	for _, comp := range [][]string{{"none"}, {"gzip", "none"}, {"none", "gzip"}} {
		for _, enc := range [][]string{{"none"}, {"tls"}, {"none", "tls"}, {"tls", "none"}} {
			for _, seq := range allStrings([]string{"i", "t"}, 3)[1:] {
				c := &c09SeqCase{Comp: comp, Enc: enc}
				for _, ch := range seq {
					if ch == 'i' {
						c.Conns = append(c.Conns, "inproc")
					} else {
						c.Conns = append(c.Conns, "tcp")
					}
				}
				o := &Outcome{}
				var obs *c09SeqObs
				rec.Journal(c)
				synctest.Test(t, func(t *testing.T) { obs = runC09Seq(c) })
				judgeC09Seq(c, obs, o)
				rec.Eval(c, o)
			}
		}
	}
	rec.Note("exhaustive", "true")
	_ = fmt.Sprint
	_ = rapid.Bool
}
