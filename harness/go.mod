module verif/harness

go 1.23

require (
	github.com/gorilla/websocket v1.4.2
	github.com/takenet/lime-go v0.0.0
	pgregory.net/rapid v1.3.0
)

require (
	github.com/google/uuid v1.3.0 // indirect
	go.uber.org/atomic v1.9.0 // indirect
	go.uber.org/multierr v1.8.0 // indirect
	golang.org/x/sync v0.0.0-20210220032951-036812b2e83c // indirect
)

replace github.com/takenet/lime-go => /repo
