package harness

// C09 over the library's WebSocket transports (ws and wss), real time: "the two ends agree on which options are in force".
// What is in force on a WebSocket connection is decided by the connection itself - TLS under wss, none under ws - whatever
// else the client was given (a TLS configuration it has no use for, an upper-case scheme). Ground truth is the kind of
// socket the listener accepted. A client that negotiates against a scripted server offering exactly what is in force must
// get through to authentication.

import (
	"context"
	"crypto/tls"
	"fmt"
	"strings"
	"testing"
	"time"

	lime "github.com/takenet/lime-go"
)

type c09WSCase struct {
	Kind    string `json:"kind"`    // ws | wss
	CliTLS  bool   `json:"cliTLS"`  // the client is given a TLS configuration (under ws it has no use for it)
	Scheme  string `json:"scheme"`  // how the scheme is spelled in the URL: lower | upper | mixed
	Via     string `json:"via"`     // dial (DialWebsocket) | builder (ClientBuilder.UseWebsocket against a library Server)
	Scripts bool   `json:"scripts"` // dial only: the accepted end is driven by a script that runs a negotiation offering what is in force
}

type c09WSObs struct {
	Note    string `json:"note,omitempty"`
	CliEnc  string `json:"cliEnc"`
	SrvEnc  string `json:"srvEnc"`
	CliComp string `json:"cliComp"`
	SrvComp string `json:"srvComp"`
	EstErr  string `json:"estErr,omitempty"`
	State   string `json:"state,omitempty"`
}

func c09Spell(scheme, how string) string {
	switch how {
	case "upper":
		return strings.ToUpper(scheme)
	case "mixed":
		return strings.ToUpper(scheme[:1]) + scheme[1:]
	}
	return scheme
}

func runC09WS(c *c09WSCase) *c09WSObs {
	obs := &c09WSObs{}
	_, ccfg := TLSConfigs()
	var tcfg *tls.Config
	if c.CliTLS {
		tcfg = ccfg.Clone()
		tcfg.ServerName = "localhost"
	}
	host := "127.0.0.1"
	if c.Kind == "wss" {
		host = "localhost"
	}
	ctx, cancel := context.WithTimeout(context.Background(), 8*time.Second)
	defer cancel()
	if c.Via == "builder" {
		l, addr, err := NewRealListener(c.Kind, 0)
		if err != nil {
			obs.Note = "skip: " + err.Error()
			return obs
		}
		_ = l.Close() // the builder binds its own listener on that port
		scfg, _ := TLSConfigs()
		sb := lime.NewServerBuilder().Name("postmaster").Domain("srv.example").Instance("s1").EnableGuestAuthentication().
			MessageHandlerFunc(nil, func(ctx context.Context, _ *lime.Message, s lime.Sender) error { return nil })
		if c.Kind == "wss" {
			sb = sb.ListenWebsocket(addr, &lime.WebsocketConfig{TLSConfig: scfg})
		} else {
			sb = sb.ListenWebsocket(addr, &lime.WebsocketConfig{})
		}
		srv := sb.Build()
		done := make(chan error, 1)
		go func() { done <- srv.ListenAndServe() }()
		served := true
		defer func() {
			_ = srv.Close()
			if served {
				<-done
			}
		}()
		select {
		case err := <-done:
			served = false
			obs.Note = fmt.Sprintf("skip: the server did not start: %v", err)
			return obs
		case <-time.After(50 * time.Millisecond):
		}
		url := fmt.Sprintf("%s://%s:%d", c09Spell(c.Kind, c.Scheme), host, addr.Port)
		cb := lime.NewClientBuilder().UseWebsocket(url, nil, tcfg).Instance("home").GuestAuthentication()
		cli := cb.Build()
		defer func() { _ = cli.Close() }()
		var err2 error
		for i := 0; i < 40; i++ {
			ectx, ec := context.WithTimeout(ctx, 2*time.Second)
			err2 = cli.Establish(ectx)
			ec()
			if err2 == nil || ctx.Err() != nil {
				break
			}
			time.Sleep(50 * time.Millisecond)
		}
		if err2 != nil {
			obs.EstErr = err2.Error()
		} else {
			obs.State = "established"
		}
		return obs
	}
	l, addr, err := NewRealListener(c.Kind, 0)
	if err != nil {
		obs.Note = "skip: " + err.Error()
		return obs
	}
	defer func() { _ = l.Close() }()
	type res struct {
		t   lime.Transport
		err error
	}
	ch := make(chan res, 1)
	go func() {
		t, err := l.Accept(ctx)
		ch <- res{t, err}
	}()
	url := fmt.Sprintf("%s://%s:%d", c09Spell(c.Kind, c.Scheme), host, addr.Port)
	var ct lime.Transport
	for i := 0; i < 50; i++ {
		ct, err = lime.DialWebsocket(ctx, url, nil, tcfg)
		if err == nil || ctx.Err() != nil {
			break
		}
		time.Sleep(20 * time.Millisecond)
	}
	if err != nil {
		obs.Note = "skip: dial: " + err.Error()
		return obs
	}
	defer func() { _ = ct.Close() }()
	r := <-ch
	if r.err != nil {
		obs.Note = "skip: accept: " + r.err.Error()
		return obs
	}
	st := r.t
	defer func() { _ = st.Close() }()
	obs.CliEnc, obs.SrvEnc = string(ct.Encryption()), string(st.Encryption())
	obs.CliComp, obs.SrvComp = string(ct.Compression()), string(st.Compression())
	if !c.Scripts {
		return obs
	}
	// the accepted end plays a server that negotiates, offering exactly what is in force on this connection
	inForce := lime.SessionEncryptionNone
	if c.Kind == "wss" {
		inForce = lime.SessionEncryptionTLS
	}
	srvDone := make(chan string, 1)
	go func() {
		fail := func(f string, a ...interface{}) { srvDone <- fmt.Sprintf(f, a...) }
		recv := func() (*lime.Session, error) {
			e, err := st.Receive(ctx)
			if err != nil {
				return nil, err
			}
			s, ok := e.(*lime.Session)
			if !ok {
				return nil, fmt.Errorf("not a session: %T", e)
			}
			return s, nil
		}
		if _, err := recv(); err != nil {
			fail("script: new: %v", err)
			return
		}
		sid := "sid-c09ws"
		send := func(s *lime.Session) error {
			s.ID, s.From = sid, srvNode
			return st.Send(ctx, s)
		}
		if err := send(&lime.Session{State: lime.SessionStateNegotiating, EncryptionOptions: []lime.SessionEncryption{inForce}, CompressionOptions: []lime.SessionCompression{lime.SessionCompressionNone}}); err != nil {
			fail("script: offer: %v", err)
			return
		}
		ch, err := recv()
		if err != nil {
			fail("script: choice: %v", err)
			return
		}
		if ch.Encryption != inForce || ch.Compression != lime.SessionCompressionNone {
			fail("script: the client chose %q/%q from an offer of %q/none", ch.Encryption, ch.Compression, inForce)
			return
		}
		if err := send(&lime.Session{State: lime.SessionStateNegotiating, Encryption: inForce, Compression: lime.SessionCompressionNone}); err != nil {
			fail("script: confirm: %v", err)
			return
		}
		if err := send(&lime.Session{State: lime.SessionStateAuthenticating, SchemeOptions: []lime.AuthenticationScheme{lime.AuthenticationSchemeGuest}}); err != nil {
			fail("script: authenticating: %v", err)
			return
		}
		if _, err := recv(); err != nil {
			fail("script: credentials: %v", err)
			return
		}
		est := &lime.Session{State: lime.SessionStateEstablished}
		est.To = lime.Node{Identity: lime.Identity{Name: "alice", Domain: "cli.example"}, Instance: "home"}
		if err := send(est); err != nil {
			fail("script: established: %v", err)
			return
		}
		srvDone <- ""
	}()
	cc := lime.NewClientChannel(ct, 4)
	first := func(o []lime.SessionEncryption) lime.SessionEncryption {
		if len(o) > 0 {
			return o[0]
		}
		return lime.SessionEncryptionNone
	}
	ses, err := cc.EstablishSession(ctx, lime.NoneCompressionSelector, first, lime.Identity{Name: "alice", Domain: "cli.example"}, lime.GuestAuthenticator, "home")
	if err != nil {
		obs.EstErr = err.Error()
	} else if ses != nil {
		obs.State = string(ses.State)
	}
	select {
	case n := <-srvDone:
		if n != "" && obs.EstErr == "" {
			obs.EstErr = n
		}
	case <-time.After(3 * time.Second):
	}
	obs.CliEnc, obs.SrvEnc = string(ct.Encryption()), string(st.Encryption())
	_ = cc.Close()
	return obs
}

func judgeC09WS(c *c09WSCase, obs *c09WSObs, o *Outcome) {
	o.Class("kind=" + c.Kind)
	o.Class("via=" + c.Via)
	o.Class(fmt.Sprintf("client-given-tls-config=%v", c.CliTLS))
	o.Class("scheme-spelled=" + c.Scheme)
	if strings.HasPrefix(obs.Note, "skip:") {
		o.Class("skipped")
		return
	}
	o.NonTrivial = true
	truth := "none"
	if c.Kind == "wss" {
		truth = "tls"
	}
	tag := c.Kind + "/" + c.Via
	if c.Via == "dial" {
		if obs.CliEnc != obs.SrvEnc {
			o.Fail("C09/ws/ends-disagree-on-encryption/"+tag, "the client end reports %q, the accepted end %q (the connection is %s)", obs.CliEnc, obs.SrvEnc, c.Kind)
		}
		if obs.CliEnc != truth {
			o.Fail("C09/ws/client-reports-what-is-not-in-force/"+tag, "the client end reports %q on a %s connection", obs.CliEnc, c.Kind)
		}
		if obs.SrvEnc != truth {
			o.Fail("C09/ws/server-reports-what-is-not-in-force/"+tag, "the accepted end reports %q on a %s connection", obs.SrvEnc, c.Kind)
		}
		if obs.CliComp != obs.SrvComp {
			o.Fail("C09/ws/ends-disagree-on-compression/"+tag, "client %q, accepted end %q", obs.CliComp, obs.SrvComp)
		}
	}
	if c.Scripts || c.Via == "builder" {
		if obs.EstErr != "" || obs.State != "established" {
			o.Fail("C09/ws/offer-of-what-is-in-force-not-followed/"+tag, "a server that offers and confirms what is in force (%s/none) was answered with: state %q, error %q", truth, obs.State, obs.EstErr)
		}
	}
}

func TestC09WS(t *testing.T) {
	rec := NewRecorder("C09", "TestC09WS")
	defer rec.Finish(t)
	rounds := Scale(1, 6)
	for r := 0; r < rounds; r++ {
		for _, kind := range []string{"ws", "wss"} {
			for _, cliTLS := range []bool{false, true} {
				if kind == "wss" && !cliTLS {
					continue // (the test certificate is not in the system pool)
				}
				for _, sch := range []string{"lower", "upper", "mixed"} {
					for _, via := range []string{"dial", "dial-script", "builder"} {
						c := &c09WSCase{Kind: kind, CliTLS: cliTLS, Scheme: sch, Via: strings.TrimSuffix(via, "-script"), Scripts: via == "dial-script"}
						if via == "builder" && (sch != "lower" && r > 0) {
							continue
						}
						o := &Outcome{}
						rec.Journal(c)
						obs := runC09WS(c)
						judgeC09WS(c, obs, o)
						rec.Eval(c, o)
					}
				}
			}
		}
	}
	rec.Note("exhaustive", "true")
}
