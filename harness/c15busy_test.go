package harness

// C15, finishing while the peer is writing: ServerChannel.FinishSession / FailSession (and ClientChannel.FinishSession) on
// an established session whose peer sends continuously and whose application consumes, over the in-process transport and
// loopback TCP, in real time (a lock-order deadlock freezes a bubble's clock instead of showing as lateness). The call must
// return within its context's end plus the statement's bound (promptly at a deadline; 5 s for a TCP poll) plus 1 s of slack.

import (
	"context"
	"fmt"
	"sync"
	"testing"
	"time"

	lime "github.com/takenet/lime-go"
)

type c15BusyCase struct {
	Kind  string `json:"kind"` // inproc | tcp
	Call  string `json:"call"` // server-finish | server-fail | client-finish
	CtxMs int    `json:"ctxMs"`
	Round int    `json:"round"`
}

type c15BusyObs struct {
	Skip      string `json:"skip,omitempty"`
	Returned  bool   `json:"returned"`
	LatencyMs int64  `json:"latencyMs"`
	Err       string `json:"err,omitempty"`
}

func runC15Busy(c *c15BusyCase) *c15BusyObs {
	obs := &c15BusyObs{}
	var ct, st lime.Transport
	var cleanup func()
	if c.Kind == "inproc" {
		ct, st = lime.VerifNewInProcessTransportPair("c15busy", 4)
		cleanup = func() {}
	} else {
		p, err := NewRealPair("tcp")
		if err != nil {
			obs.Skip = err.Error()
			return obs
		}
		ct, st = p.Client, p.Server
		cleanup = p.Close
	}
	defer cleanup()
	cc := lime.NewClientChannel(ct, 1)
	sc := lime.NewServerChannel(st, 1, srvNode, fixedSid)
	ectx, ecancel := context.WithTimeout(context.Background(), 10*time.Second)
	var wg sync.WaitGroup
	wg.Add(1)
	var serr error
	go func() {
		defer wg.Done()
		serr = sc.EstablishSession(ectx, []lime.SessionCompression{lime.SessionCompressionNone}, []lime.SessionEncryption{lime.SessionEncryptionNone},
			[]lime.AuthenticationScheme{lime.AuthenticationSchemeGuest},
			func(context.Context, lime.Identity, lime.Authentication) (*lime.AuthenticationResult, error) {
				return lime.MemberAuthenticationResult(), nil
			}, func(_ context.Context, n lime.Node, _ *lime.ServerChannel) (lime.Node, error) { return n, nil })
	}()
	_, cerr := cc.EstablishSession(ectx, lime.NoneCompressionSelector, lime.NoneEncryptionSelector, lime.Identity{Name: "alice", Domain: "cli.example"}, lime.GuestAuthenticator, "home")
	wg.Wait()
	ecancel()
	if cerr != nil || serr != nil || !cc.Established() || !sc.Established() {
		obs.Skip = fmt.Sprintf("establish: %v / %v", cerr, serr)
		return obs
	}
	// who finishes, who writes
	var writer interface {
		SendMessage(ctx context.Context, msg *lime.Message) error
	}
	var reader interface{ MsgChan() <-chan *lime.Message }
	var call func(ctx context.Context) error
	switch c.Call {
	case "client-finish":
		writer, reader = sc, cc
		call = func(ctx context.Context) error { _, err := cc.FinishSession(ctx); return err }
		// somebody has to answer the finishing envelope
		go func() {
			for s := range scSessions(sc) {
				_ = s
			}
		}()
	case "server-fail":
		writer, reader = cc, sc
		call = func(ctx context.Context) error {
			return sc.FailSession(ctx, &lime.Reason{Code: 1, Description: "busy"})
		}
	default:
		writer, reader = cc, sc
		call = func(ctx context.Context) error { return sc.FinishSession(ctx) }
	}
	stop := make(chan struct{})
	var bg sync.WaitGroup
	bg.Add(2)
	go func() { // the peer writes without pause
		defer bg.Done()
		for i := 0; ; i++ {
			select {
			case <-stop:
				return
			default:
			}
			ctx, cancel := context.WithTimeout(context.Background(), 500*time.Millisecond)
			err := writer.SendMessage(ctx, c13Message(fmt.Sprint("w", i)))
			cancel()
			if err != nil {
				return
			}
		}
	}()
	go func() { // the application consumes
		defer bg.Done()
		for {
			select {
			case <-stop:
				return
			case _, ok := <-reader.MsgChan():
				if !ok {
					return
				}
			}
		}
	}()
	time.Sleep(2 * time.Millisecond)
	ctx, cancel := context.WithTimeout(context.Background(), time.Duration(c.CtxMs)*time.Millisecond)
	done := make(chan error, 1)
	t0 := time.Now()
	go func() { done <- call(ctx) }()
	bound := time.Duration(c.CtxMs)*time.Millisecond + time.Second
	if c.Kind == "tcp" {
		bound += 5 * time.Second
	}
	select {
	case err := <-done:
		obs.Returned = true
		if err != nil {
			obs.Err = err.Error()
		}
	case <-time.After(bound):
	}
	obs.LatencyMs = time.Since(t0).Milliseconds()
	cancel()
	close(stop)
	if obs.Returned {
		_ = cc.Close()
		_ = sc.Close()
		bg.Wait()
	}
	// a call that never returned holds its locks: the channels are abandoned (the verdict is recorded)
	return obs
}

// scSessions is a stand-in consumer that lets a ServerChannel answer a finishing client: the library's Server does this
// in its dispatch loop; here the bare channel's receiver folds the envelope and FinishSession is called for it.
func scSessions(sc *lime.ServerChannel) <-chan struct{} {
	ch := make(chan struct{})
	go func() {
		defer close(ch)
		<-sc.RcvDone()
		ctx, cancel := context.WithTimeout(context.Background(), time.Second)
		defer cancel()
		_ = sc.FinishSession(ctx)
	}()
	return ch
}

func TestC15FinishBusy(t *testing.T) {
	rec := NewRecorder("C15", "TestC15FinishBusy")
	defer rec.Finish(t)
	sh, nsh := Shard()
	idx := 0
	rounds := Scale(12, 120)
	for _, kind := range []string{"inproc", "tcp"} {
		for _, call := range []string{"server-finish", "server-fail"} {
			for _, ctxMs := range []int{300, 1500} {
				for r := 0; r < rounds; r++ {
					idx++
					if idx%nsh != sh {
						continue
					}
					c := &c15BusyCase{Kind: kind, Call: call, CtxMs: ctxMs, Round: r}
					rec.Journal(c)
					obs := runC15Busy(c)
					o := &Outcome{NonTrivial: true}
					o.Class("finish-while-peer-writes")
					o.Class("kind=" + kind)
					o.Class("call=" + call)
					if obs.Skip != "" {
						o.Class("skipped")
					} else if !obs.Returned {
						o.Fail("C15/never-returned/"+call+"/"+kind+"/peer-writing", "%s with a %d ms context on an established session whose peer keeps writing had not returned %d ms after the call", call, ctxMs, obs.LatencyMs)
					}
					rec.Eval(c, o)
				}
			}
		}
	}
}
