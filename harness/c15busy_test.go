package harness

// C15, finishing while the peer is writing: ServerChannel.FinishSession / FailSession (and ClientChannel.FinishSession) on
// an established session whose peer sends continuously and whose application consumes, over the in-process transport and
// loopback TCP, in real time (a lock-order deadlock freezes a bubble's clock instead of showing as lateness). The call must
// return within its context's end plus the statement's bound (promptly at a deadline; 5 s for a TCP poll) plus 1 s of slack.

import (
	"context"
	"fmt"
	"sync"
	"testing"
	"time"

	lime "github.com/takenet/lime-go"
)

type c15BusyCase struct {
	Kind  string `json:"kind"` // inproc | tcp
	Call  string `json:"call"` // server-finish | server-fail | client-finish
	CtxMs int    `json:"ctxMs"`
	Round int    `json:"round"`
}

type c15BusyObs struct {
	Skip      string `json:"skip,omitempty"`
	Returned  bool   `json:"returned"`
	LatencyMs int64  `json:"latencyMs"`
	Err       string `json:"err,omitempty"`
}

func runC15Busy(c *c15BusyCase) *c15BusyObs {
	obs := &c15BusyObs{}
	var ct, st lime.Transport
	var cleanup func()
	if c.Kind == "inproc" {
		ct, st = lime.VerifNewInProcessTransportPair("c15busy", 4)
		cleanup = func() {}
	} else {
		p, err := NewRealPair("tcp")
		if err != nil {
			obs.Skip = err.Error()
			return obs
		}
		ct, st = p.Client, p.Server
		cleanup = p.Close
	}
	defer cleanup()
	cc := lime.NewClientChannel(ct, 1)
	sc := lime.NewServerChannel(st, 1, srvNode, fixedSid)
	ectx, ecancel := context.WithTimeout(context.Background(), 10*time.Second)
	var wg sync.WaitGroup
	wg.Add(1)
	var serr error
	go func() {
		defer wg.Done()
		serr = sc.EstablishSession(ectx, []lime.SessionCompression{lime.SessionCompressionNone}, []lime.SessionEncryption{lime.SessionEncryptionNone},
			[]lime.AuthenticationScheme{lime.AuthenticationSchemeGuest},
			func(context.Context, lime.Identity, lime.Authentication) (*lime.AuthenticationResult, error) {
				return lime.MemberAuthenticationResult(), nil
			}, func(_ context.Context, n lime.Node, _ *lime.ServerChannel) (lime.Node, error) { return n, nil })
	}()
	_, cerr := cc.EstablishSession(ectx, lime.NoneCompressionSelector, lime.NoneEncryptionSelector, lime.Identity{Name: "alice", Domain: "cli.example"}, lime.GuestAuthenticator, "home")
	wg.Wait()
	ecancel()
	if cerr != nil || serr != nil || !cc.Established() || !sc.Established() {
		obs.Skip = fmt.Sprintf("establish: %v / %v", cerr, serr)
		return obs
	}
	// who finishes, who writes
	var writer interface {
		SendMessage(ctx context.Context, msg *lime.Message) error
	}
	var reader interface{ MsgChan() <-chan *lime.Message }
	var call func(ctx context.Context) error
	switch c.Call {
	case "client-finish":
		writer, reader = sc, cc
		call = func(ctx context.Context) error { _, err := cc.FinishSession(ctx); return err }
		// somebody has to answer the finishing envelope
		go func() {
			for s := range scSessions(sc) {
				_ = s
			}
		}()
	case "server-fail":
		writer, reader = cc, sc
		call = func(ctx context.Context) error {
			return sc.FailSession(ctx, &lime.Reason{Code: 1, Description: "busy"})
		}
	default:
		writer, reader = cc, sc
		call = func(ctx context.Context) error { return sc.FinishSession(ctx) }
	}
	stop := make(chan struct{})
	var bg sync.WaitGroup
	bg.Add(2)
	go func() { // the peer writes without pause
		defer bg.Done()
		for i := 0; ; i++ {
			select {
			case <-stop:
				return
			default:
			}
			ctx, cancel := context.WithTimeout(context.Background(), 500*time.Millisecond)
			err := writer.SendMessage(ctx, c13Message(fmt.Sprint("w", i)))
			cancel()
			if err != nil {
				return
			}
		}
	}()
	go func() { // the application consumes
		defer bg.Done()
		for {
			select {
			case <-stop:
				return
			case _, ok := <-reader.MsgChan():
				if !ok {
					return
				}
			}
		}
	}()
	time.Sleep(2 * time.Millisecond)
	ctx, cancel := context.WithTimeout(context.Background(), time.Duration(c.CtxMs)*time.Millisecond)
	done := make(chan error, 1)
	t0 := time.Now()
	go func() { done <- call(ctx) }()
	bound := time.Duration(c.CtxMs)*time.Millisecond + time.Second
	if c.Kind == "tcp" {
		bound += 5 * time.Second
	}
	select {
	case err := <-done:
		obs.Returned = true
		if err != nil {
			obs.Err = err.Error()
		}
	case <-time.After(bound):
	}
	obs.LatencyMs = time.Since(t0).Milliseconds()
	cancel()
	close(stop)
	if obs.Returned {
		_ = cc.Close()
		_ = sc.Close()
		bg.Wait()
	}
	// a call that never returned holds its locks: the channels are abandoned (the verdict is recorded)
	return obs
}

// scSessions is a stand-in consumer that lets a ServerChannel answer a finishing client: the library's Server does this
// in its dispatch loop; here the bare channel's receiver folds the envelope and FinishSession is called for it.
func scSessions(sc *lime.ServerChannel) <-chan struct{} {
	ch := make(chan struct{})
	go func() {
		defer close(ch)
		<-sc.RcvDone()
		ctx, cancel := context.WithTimeout(context.Background(), time.Second)
		defer cancel()
		_ = sc.FinishSession(ctx)
	}()
	return ch
}

func TestC15FinishBusy(t *testing.T) {
	rec := NewRecorder("C15", "TestC15FinishBusy")
	defer rec.Finish(t)
	sh, nsh := Shard()
	idx := 0
	rounds := Scale(12, 120)
	for _, kind := range []string{"inproc", "tcp"} {
		for _, call := range []string{"server-finish", "server-fail"} {
			for _, ctxMs := range []int{300, 1500} {
				for r := 0; r < rounds; r++ {
					idx++
					if idx%nsh != sh {
						continue
					}
					c := &c15BusyCase{Kind: kind, Call: call, CtxMs: ctxMs, Round: r}
					rec.Journal(c)
					obs := runC15Busy(c)
					o := &Outcome{NonTrivial: true}
					o.Class("finish-while-peer-writes")
					o.Class("kind=" + kind)
					o.Class("call=" + call)
					if obs.Skip != "" {
						o.Class("skipped")
					} else if !obs.Returned {
						o.Fail("C15/never-returned/"+call+"/"+kind+"/peer-writing", "%s with a %d ms context on an established session whose peer keeps writing had not returned %d ms after the call", call, ctxMs, obs.LatencyMs)
					}
					rec.Eval(c, o)
				}
			}
		}
	}
}

// ---- an operation that follows one whose context was already over ----

type c15AfterCase struct {
	Kind  string `json:"kind"`  // inproc | tcp
	First string `json:"first"` // the operation called with a dead context
	Then  string `json:"then"`  // the operation called next, with a 300 ms deadline, against a peer that is silent
	End   string `json:"end"`   // how the first context was over: cancelled | expired
}

func c15ChannelOp(cc *lime.ClientChannel, op string, id string) func(ctx context.Context) error {
	switch op {
	case "send-notification":
		return func(ctx context.Context) error {
			n := &lime.Notification{Event: lime.NotificationEventReceived}
			n.ID = id
			return cc.SendNotification(ctx, n)
		}
	case "send-request":
		return func(ctx context.Context) error {
			r := &lime.RequestCommand{}
			r.ID, r.Method = id, lime.CommandMethodGet
			r.SetURIString("/x")
			return cc.SendRequestCommand(ctx, r)
		}
	case "process-command":
		return func(ctx context.Context) error {
			r := &lime.RequestCommand{}
			r.ID, r.Method = id, lime.CommandMethodGet
			r.SetURIString("/x")
			_, err := cc.ProcessCommand(ctx, r)
			return err
		}
	case "finish":
		return func(ctx context.Context) error { _, err := cc.FinishSession(ctx); return err }
	}
	return func(ctx context.Context) error { return cc.SendMessage(ctx, c13Message(id)) }
}

func runC15After(c *c15AfterCase) *c15BusyObs {
	obs := &c15BusyObs{}
	var ct, st lime.Transport
	cleanup := func() {}
	if c.Kind == "inproc" {
		ct, st = lime.VerifNewInProcessTransportPair("c15after", 64)
	} else {
		p, err := NewRealPair("tcp")
		if err != nil {
			obs.Skip = err.Error()
			return obs
		}
		ct, st = p.Client, p.Server
		cleanup = p.Close
	}
	defer cleanup()
	cc := lime.NewClientChannel(ct, 4)
	sc := lime.NewServerChannel(st, 4, srvNode, fixedSid)
	ectx, ecancel := context.WithTimeout(context.Background(), 10*time.Second)
	done := make(chan error, 1)
	go func() {
		done <- sc.EstablishSession(ectx, []lime.SessionCompression{lime.SessionCompressionNone}, []lime.SessionEncryption{lime.SessionEncryptionNone},
			[]lime.AuthenticationScheme{lime.AuthenticationSchemeGuest},
			func(context.Context, lime.Identity, lime.Authentication) (*lime.AuthenticationResult, error) {
				return lime.MemberAuthenticationResult(), nil
			}, func(_ context.Context, n lime.Node, _ *lime.ServerChannel) (lime.Node, error) { return n, nil })
	}()
	_, cerr := cc.EstablishSession(ectx, lime.NoneCompressionSelector, lime.NoneEncryptionSelector, lime.Identity{Name: "alice", Domain: "cli.example"}, lime.GuestAuthenticator, "home")
	serr := <-done
	ecancel()
	if cerr != nil || serr != nil {
		obs.Skip = fmt.Sprintf("establish: %v / %v", cerr, serr)
		return obs
	}
	// the peer (the server channel) is silent: nobody answers commands or the finishing envelope
	dead, cancel := context.WithCancel(context.Background())
	if c.End == "expired" {
		cancel()
		dead, cancel = context.WithDeadline(context.Background(), time.Now().Add(-time.Second))
	}
	cancel()
	_ = c15ChannelOp(cc, c.First, "first")(dead)
	ctx, cancel2 := context.WithTimeout(context.Background(), 300*time.Millisecond)
	ret := make(chan error, 1)
	t0 := time.Now()
	go func() { ret <- c15ChannelOp(cc, c.Then, "then")(ctx) }()
	bound := 300*time.Millisecond + time.Second
	if c.Kind == "tcp" {
		bound += 5 * time.Second
	}
	select {
	case err := <-ret:
		obs.Returned = true
		if err != nil {
			obs.Err = err.Error()
		}
	case <-time.After(bound):
	}
	obs.LatencyMs = time.Since(t0).Milliseconds()
	cancel2()
	// the connection first (the channels' receivers end at once), then the channels
	cleanup()
	cleanup = func() {}
	if obs.Returned {
		go func() { _ = cc.Close() }()
		go func() { _ = sc.Close() }()
	}
	return obs
}

func TestC15AfterDeadContext(t *testing.T) {
	rec := NewRecorder("C15", "TestC15AfterDeadContext")
	defer rec.Finish(t)
	sh, nsh := Shard()
	idx := 0
	ops := []string{"send-message", "send-notification", "send-request", "process-command", "finish"}
	for _, kind := range []string{"inproc", "tcp"} {
		for _, first := range ops[:4] {
			for _, then := range ops {
				for _, end := range []string{"cancelled", "expired"} {
					idx++
					if idx%nsh != sh {
						continue
					}
					c := &c15AfterCase{Kind: kind, First: first, Then: then, End: end}
					rec.Journal(c)
					obs := runC15After(c)
					o := &Outcome{NonTrivial: true}
					o.Class("after-an-operation-with-a-dead-context")
					o.Class("kind=" + kind)
					if obs.Skip != "" {
						o.Class("skipped")
					} else if !obs.Returned {
						o.Fail("C15/never-returned/"+then+"/"+kind+"/after-dead-context", "%s with a 300 ms deadline, called after a %s whose context was already %s, had not returned %d ms later", then, first, end, obs.LatencyMs)
					}
					rec.Eval(c, o)
				}
			}
		}
	}
	rec.Note("exhaustive", "true")
}
