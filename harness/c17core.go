package harness

// C17: concurrent sessions on one Server are isolated; handlers see their own session. Core shared by virtual and real runners.

import (
	"context"
	"fmt"
	"strings"
	"sync"
	"time"

	lime "github.com/takenet/lime-go"
)

type c17Client struct {
	Transport string   `json:"transport"` // virtual: inproc | fconn ; real: inproc | tcp | ws
	Ops       []string `json:"ops"`       // m (message) q (request) n (notification); upper case: from / pp names another session's node
}

type c17Case struct {
	Clients []c17Client `json:"clients"`
	Real    bool        `json:"real,omitempty"`
	ChanBuf int         `json:"chanBuf"`
	// Broadcast: after the clients' traffic the server pushes ONE notification value and ONE message value, neither naming
	// a destination, to every session it has (what a chat server does with the channels it kept from Established)
	Broadcast bool `json:"broadcast,omitempty"`
}

type c17Handled struct {
	Tag    string `json:"tag"`
	Kind   string `json:"kind"`
	SID    string `json:"sid"`
	Remote string `json:"remote"`
	Local  string `json:"local"`
	HasAll bool   `json:"hasAll"`
}

type c17Obs struct {
	Handled     []c17Handled      `json:"handled"`
	ClientSID   []string          `json:"clientSid"`   // per client: ClientChannel.ID()
	ClientLocal []string          `json:"clientLocal"` // per client: LocalNode() announced by the server
	Replies     map[int][]string  `json:"replies"`     // per client: tags of replies received
	EstIDs      []string          `json:"estIds"`      // ids passed to the Established callback
	EstRemote   map[string]string `json:"estRemote"`   // session id -> RemoteNode() of the channel passed to Established
	Note        string            `json:"note,omitempty"`
	SendErrs    []string          `json:"sendErrs,omitempty"`
	Pushed      map[int][]string  `json:"pushed,omitempty"` // per client: the `to` of each broadcast envelope it received
}

func c17Assigned(idx int) lime.Node {
	return lime.Node{Identity: lime.Identity{Name: fmt.Sprintf("reg-%d", idx*7+3), Domain: "assigned.example"}, Instance: fmt.Sprintf("r%d", idx)}
}

func c17Candidate(idx int) lime.Node {
	return lime.Node{Identity: lime.Identity{Name: fmt.Sprintf("cli%d", idx), Domain: "cli.example"}, Instance: fmt.Sprintf("inst%d", idx)}
}

type c17Server struct {
	mu      sync.Mutex
	handled []c17Handled
	estIDs  []string
	estRem  map[string]string
	mux     *lime.EnvelopeMux
	cfg     *lime.ServerConfig
	chans   []*lime.ServerChannel
}

func newC17Server(chanBuf int) *c17Server {
	s := &c17Server{estRem: map[string]string{}, mux: &lime.EnvelopeMux{}}
	rec := func(ctx context.Context, tag, kind string) {
		sid, ok1 := lime.ContextSessionID(ctx)
		rn, ok2 := lime.ContextSessionRemoteNode(ctx)
		ln, ok3 := lime.ContextSessionLocalNode(ctx)
		s.mu.Lock()
		s.handled = append(s.handled, c17Handled{Tag: tag, Kind: kind, SID: sid, Remote: NodeText(rn), Local: NodeText(ln), HasAll: ok1 && ok2 && ok3})
		s.mu.Unlock()
	}
	s.mux.MessageHandlerFunc(nil, func(ctx context.Context, m *lime.Message, snd lime.Sender) error {
		rec(ctx, m.ID, "m")
		r := &lime.Message{}
		r.ID = "re-" + m.ID
		r.SetContent(lime.TextDocument("echo " + m.ID))
		return snd.SendMessage(ctx, r)
	})
	s.mux.RequestCommandHandlerFunc(nil, func(ctx context.Context, q *lime.RequestCommand, snd lime.Sender) error {
		rec(ctx, q.ID, "q")
		return snd.SendResponseCommand(ctx, q.SuccessResponse())
	})
	s.mux.NotificationHandlerFunc(nil, func(ctx context.Context, n *lime.Notification) error {
		rec(ctx, n.ID, "n")
		return nil
	})
	cfg := lime.NewServerConfig()
	cfg.Node = srvNode
	cfg.SchemeOpts = []lime.AuthenticationScheme{lime.AuthenticationSchemeGuest}
	cfg.EncryptOpts = []lime.SessionEncryption{lime.SessionEncryptionNone, lime.SessionEncryptionTLS}
	cfg.ChannelBufferSize = chanBuf
	cfg.Backlog = 64
	cfg.Authenticate = func(context.Context, lime.Identity, lime.Authentication) (*lime.AuthenticationResult, error) {
		return lime.MemberAuthenticationResult(), nil
	}
	cfg.Register = func(_ context.Context, cand lime.Node, _ *lime.ServerChannel) (lime.Node, error) {
		var idx int
		fmt.Sscanf(cand.Name, "cli%d", &idx)
		return c17Assigned(idx), nil
	}
	cfg.Established = func(id string, ch *lime.ServerChannel) {
		s.mu.Lock()
		s.estIDs = append(s.estIDs, id)
		s.estRem[id] = NodeText(ch.RemoteNode())
		s.chans = append(s.chans, ch)
		s.mu.Unlock()
	}
	s.cfg = cfg
	return s
}

type c17ClientRun struct {
	idx     int
	ch      *lime.ClientChannel
	mu      sync.Mutex
	replies []string
	pushed  []string
}

// c17RunClients establishes every client concurrently, runs their traffic, and collects the replies they receive.
func c17RunClients(c *c17Case, dial func(kind string, idx int) (lime.Transport, error), obs *c17Obs) []*c17ClientRun {
	runs := make([]*c17ClientRun, len(c.Clients))
	var wg sync.WaitGroup
	var mu sync.Mutex
	for i := range c.Clients {
		runs[i] = &c17ClientRun{idx: i}
		wg.Add(1)
		go func(i int) {
			defer wg.Done()
			tr, err := dial(c.Clients[i].Transport, i)
			if err != nil {
				mu.Lock()
				obs.Note = "harness: dial: " + err.Error()
				mu.Unlock()
				return
			}
			ch := lime.NewClientChannel(tr, c.ChanBuf)
			ctx, cancel := context.WithTimeout(context.Background(), 20*time.Second)
			cand := c17Candidate(i)
			ses, err := ch.EstablishSession(ctx, lime.NoneCompressionSelector, lime.NoneEncryptionSelector, cand.Identity, lime.GuestAuthenticator, cand.Instance)
			cancel()
			if err != nil || ses.State != lime.SessionStateEstablished {
				mu.Lock()
				obs.Note = fmt.Sprintf("harness: client %d could not establish: %v", i, err)
				mu.Unlock()
				_ = ch.Close()
				return
			}
			runs[i].ch = ch
		}(i)
	}
	wg.Wait()
	if obs.Note != "" {
		return runs
	}
	// reply collectors
	for _, r := range runs {
		r := r
		go func() {
			for m := range r.ch.MsgChan() {
				r.mu.Lock()
				if strings.HasPrefix(m.ID, "bc-") {
					r.pushed = append(r.pushed, NodeText(m.To))
				} else {
					r.replies = append(r.replies, m.ID)
				}
				r.mu.Unlock()
			}
		}()
		go func() {
			for m := range r.ch.RespCmdChan() {
				r.mu.Lock()
				r.replies = append(r.replies, "re-"+m.ID)
				r.mu.Unlock()
			}
		}()
		go func() {
			for n := range r.ch.NotChan() {
				if strings.HasPrefix(n.ID, "bc-") {
					r.mu.Lock()
					r.pushed = append(r.pushed, NodeText(n.To))
					r.mu.Unlock()
				}
			}
		}()
		go func() {
			for range r.ch.ReqCmdChan() {
			}
		}()
	}
	// traffic, all clients at once
	for i, r := range runs {
		wg.Add(1)
		go func(i int, r *c17ClientRun) {
			defer wg.Done()
			for seq, k := range c.Clients[i].Ops {
				tag := fmt.Sprintf("c%d-%d-%s", i, seq, k)
				ctx, cancel := context.WithTimeout(context.Background(), 30*time.Second)
				var err error
				// upper case: the envelope names somebody else (another session's registered node) as its sender or delegate; the
				// session it arrives on, and hence the handler's context, is still this client's
				other := c17Assigned((i + 1) % (len(c.Clients) + 1))
				switch k {
				case "m", "M":
					m := &lime.Message{}
					m.ID = tag
					m.SetContent(lime.TextDocument("from " + tag))
					if k == "M" {
						m.From = other
					}
					err = r.ch.SendMessage(ctx, m)
				case "q", "Q":
					q := &lime.RequestCommand{}
					q.ID, q.Method = tag, lime.CommandMethodGet
					q.SetURIString("/echo")
					if k == "Q" {
						q.PP = other
					}
					err = r.ch.SendRequestCommand(ctx, q)
				default:
					n := &lime.Notification{Event: lime.NotificationEventConsumed}
					n.ID = tag
					if k == "N" {
						n.From = lime.Node{Identity: other.Identity}
					}
					err = r.ch.SendNotification(ctx, n)
				}
				cancel()
				if err != nil {
					mu.Lock()
					obs.SendErrs = append(obs.SendErrs, tag+": "+err.Error())
					mu.Unlock()
				}
			}
		}(i, r)
	}
	wg.Wait()
	return runs
}

func c17Expected(c *c17Case) (handled int, replies int) {
	for _, cl := range c.Clients {
		for _, k := range cl.Ops {
			handled++
			if k != "n" && k != "N" {
				replies++
			}
		}
	}
	return
}

func judgeC17(c *c17Case, obs *c17Obs, o *Outcome) {
	kinds := map[string]bool{}
	for _, cl := range c.Clients {
		kinds[cl.Transport] = true
		o.Class("transport=" + cl.Transport)
	}
	o.Class(fmt.Sprintf("clients=%d", len(c.Clients)))
	if c.Real {
		o.Class("real-sockets")
	}
	if strings.HasPrefix(obs.Note, "harness:") || strings.HasPrefix(obs.Note, "skip:") {
		if strings.HasPrefix(obs.Note, "skip:") {
			o.Class("skipped")
			return
		}
		if c.Real && (strings.Contains(obs.Note, "i/o timeout") || strings.Contains(obs.Note, "context deadline exceeded")) {
			// real sockets on a busy machine: a dial or a handshake that ran into its time budget decides nothing (in virtual
			// time, where nothing can be slow, the same is a violation)
			o.Class("inconclusive-handshake-timeout")
			return
		}
		if strings.Contains(obs.Note, "could not establish") {
			// every client dials a working server: a session that cannot be established is a symptom, not a harness problem
			o.Fail("C17/session-not-established", "%s", obs.Note)
		} else {
			o.Fail("C17/harness", "%s", obs.Note)
		}
		return
	}
	o.NonTrivial = len(c.Clients) >= 3 && len(kinds) >= 2
	if len(obs.SendErrs) > 0 {
		o.Fail("C17/send-failed", "%v", obs.SendErrs[0])
	}
	// session ids: distinct, equal to the announced ones, equal to the Established callback ids
	seen := map[string]int{}
	for i, sid := range obs.ClientSID {
		if sid == "" {
			o.Fail("C17/empty-session-id", "client %d has an empty session id", i)
		}
		if j, dup := seen[sid]; dup {
			o.Fail("C17/session-id-shared", "clients %d and %d were given the same session id %q", j, i, sid)
		}
		seen[sid] = i
		if want := NodeText(c17Assigned(i)); obs.ClientLocal[i] != want {
			o.Fail("C17/announced-node-crossed", "client %d was told it is %q, registration assigned %q", i, obs.ClientLocal[i], want)
		}
	}
	est := map[string]bool{}
	for _, id := range obs.EstIDs {
		if est[id] {
			o.Fail("C17/established-callback-twice", "Established fired twice for %q", id)
		}
		est[id] = true
		if i, ok := seen[id]; !ok {
			o.Fail("C17/established-id-unknown", "Established fired for %q which no client was told", id)
		} else if obs.EstRemote[id] != NodeText(c17Assigned(i)) {
			o.Fail("C17/established-channel-crossed", "Established(%q) was handed a channel whose remote node is %q, expected %q", id, obs.EstRemote[id], NodeText(c17Assigned(i)))
		}
	}
	if len(est) != len(obs.ClientSID) {
		o.Fail("C17/established-callback-count", "%d sessions, Established fired for %d", len(obs.ClientSID), len(est))
	}
	// handler context values
	handledTags := map[string]int{}
	for _, h := range obs.Handled {
		handledTags[h.Tag]++
		var i int
		fmt.Sscanf(h.Tag, "c%d-", &i)
		if i < 0 || i >= len(obs.ClientSID) {
			o.Fail("C17/handled-unknown-tag", "%q", h.Tag)
			continue
		}
		if !h.HasAll {
			o.Fail("C17/context-values-missing", "handler for %s ran without session values in its context", h.Tag)
		}
		if h.SID != obs.ClientSID[i] {
			o.Fail("C17/context-session-id-crossed", "envelope %s from client %d was handled with session id %q, the client's is %q", h.Tag, i, h.SID, obs.ClientSID[i])
		}
		if h.Remote != NodeText(c17Assigned(i)) {
			o.Fail("C17/context-remote-node-crossed", "envelope %s handled with remote node %q, expected %q", h.Tag, h.Remote, NodeText(c17Assigned(i)))
		}
		if h.Local != NodeText(srvNode) {
			o.Fail("C17/context-local-node", "envelope %s handled with local node %q", h.Tag, h.Local)
		}
	}
	// what the server pushes to everybody names nobody, or the session it arrives on
	if c.Broadcast {
		o.Class("server-broadcast")
		for i := range c.Clients {
			if i >= len(obs.ClientLocal) {
				break
			}
			if len(obs.Pushed[i]) != 2 && c.Real {
				o.Class("broadcast-not-seen-within-the-time-budget") // real sockets on a busy machine: decides nothing
			} else if len(obs.Pushed[i]) != 2 {
				o.Fail("C17/broadcast-not-received", "client %d received %d of the 2 envelopes the server pushed to every session", i, len(obs.Pushed[i]))
			}
			for _, to := range obs.Pushed[i] {
				if to != "" && to != obs.ClientLocal[i] {
					o.Fail("C17/broadcast-carries-another-sessions-node", "client %d (announced as %q) received a pushed envelope addressed to %q", i, obs.ClientLocal[i], to)
				}
			}
		}
	}
	// replies: each client receives exactly its own
	for i, cl := range c.Clients {
		want := map[string]int{}
		for seq, k := range cl.Ops {
			tag := fmt.Sprintf("c%d-%d-%s", i, seq, k)
			if handledTags[tag] != 1 {
				o.Fail("C17/handled-count", "envelope %s was handled %d times", tag, handledTags[tag])
			}
			if k != "n" && k != "N" {
				want["re-"+tag]++
			}
		}
		got := map[string]int{}
		for _, r := range obs.Replies[i] {
			got[r]++
			if !strings.HasPrefix(r, fmt.Sprintf("re-c%d-", i)) {
				o.Fail("C17/reply-crossed-sessions", "client %d received %q", i, r)
			}
		}
		for tag, n := range want {
			if got[tag] != n {
				o.Fail("C17/reply-missing-or-duplicated", "client %d: reply %q arrived %d times, expected %d", i, tag, got[tag], n)
				break
			}
		}
	}
}

// c17Broadcast: the server pushes one notification value and one message value to every session.
func c17Broadcast(srv *c17Server) {
	srv.mu.Lock()
	chans := append([]*lime.ServerChannel(nil), srv.chans...)
	srv.mu.Unlock()
	n := &lime.Notification{Event: lime.NotificationEventReceived}
	n.ID = "bc-n"
	m := &lime.Message{}
	m.ID = "bc-m"
	m.SetContent(lime.TextDocument("to everybody"))
	for _, ch := range chans {
		ctx, cancel := context.WithTimeout(context.Background(), 5*time.Second)
		_ = ch.SendNotification(ctx, n)
		_ = ch.SendMessage(ctx, m)
		cancel()
	}
}

func c17Collect(c *c17Case, srv *c17Server, runs []*c17ClientRun, obs *c17Obs) {
	obs.Replies = map[int][]string{}
	obs.Pushed = map[int][]string{}
	for i, r := range runs {
		if r == nil || r.ch == nil {
			obs.ClientSID = append(obs.ClientSID, "")
			obs.ClientLocal = append(obs.ClientLocal, "")
			continue
		}
		obs.ClientSID = append(obs.ClientSID, r.ch.ID())
		obs.ClientLocal = append(obs.ClientLocal, NodeText(r.ch.LocalNode()))
		r.mu.Lock()
		obs.Replies[i] = append([]string(nil), r.replies...)
		obs.Pushed[i] = append([]string(nil), r.pushed...)
		r.mu.Unlock()
	}
	srv.mu.Lock()
	obs.Handled = append([]c17Handled(nil), srv.handled...)
	obs.EstIDs = append([]string(nil), srv.estIDs...)
	obs.EstRemote = map[string]string{}
	for k, v := range srv.estRem {
		obs.EstRemote[k] = v
	}
	srv.mu.Unlock()
}
