package harness

// C18 over the library's own loopback listeners (TCP, WebSocket), real time: raw peers connect while the Server is being
// closed. Whatever the moment, a peer whose connection was accepted is either served (it gets an answer to its new-session
// envelope) or sees its connection end; it is never left on an open connection that nobody serves. ListenAndServe returns
// the server-closed error and no serving goroutine stays behind.

import (
	"context"
	"errors"
	"fmt"
	"net"
	"strings"
	"sync"
	"testing"
	"time"

	"github.com/gorilla/websocket"
	lime "github.com/takenet/lime-go"
	"pgregory.net/rapid"
)

type c18RealCase struct {
	Kind       string `json:"kind"` // tcp | tcp-tls | ws
	ConnBuffer int    `json:"connBuffer"`
	Backlog    int    `json:"backlog"`
	Dialers    int    `json:"dialers"`
	DialAtUs   []int  `json:"dialAtUs"` // per dialer: microseconds after the start
	CloseAtUs  int    `json:"closeAtUs"`
	Speak      bool   `json:"speak"`             // dialers send a new-session envelope
	Overlap    bool   `json:"overlap,omitempty"` // with cycles > 1: the next serve call starts right after Close returned, not after the previous serve call returned
	Cycles     int    `json:"cycles,omitempty"`  // > 1: the same Server value is served and closed that many times (same peers each time)
	// WSRaw (ws only): the peers do not get as far as a WebSocket connection - silent (connected, nothing sent) | half (an upgrade
	// request that stops before its end) | refused (a plain HTTP request, which is answered and kept alive)
	WSRaw string `json:"wsRaw,omitempty"`
}

type c18RealObs struct {
	Note      string
	CloseErr  string
	ServeErr  string
	Connected int
	Served    int // got bytes back
	Ended     int // saw EOF / reset
	Stranded  int // connected, neither served nor ended within the bound and the second look after it
	Late      int // served or ended only during the second look (a busy machine): decides nothing
	Left      int
	LeftStack string
}

func runC18Real(c *c18RealCase) *c18RealObs {
	obs := &c18RealObs{}
	scfg, _ := TLSConfigs()
	var l lime.TransportListener
	port, err := FreePort()
	if err != nil {
		obs.Note = "skip: " + err.Error()
		return obs
	}
	addr := &net.TCPAddr{IP: net.IPv4(127, 0, 0, 1), Port: port}
	switch c.Kind {
	case "tcp":
		l = lime.NewTCPTransportListener(&lime.TCPConfig{ConnBuffer: c.ConnBuffer})
	case "tcp-tls":
		l = lime.NewTCPTransportListener(&lime.TCPConfig{ConnBuffer: c.ConnBuffer, TLSConfig: scfg})
	case "ws":
		l = lime.NewWebsocketTransportListener(&lime.WebsocketConfig{ConnBuffer: c.ConnBuffer})
	}
	cfg := lime.NewServerConfig()
	cfg.Node = srvNode
	cfg.Backlog = c.Backlog
	cfg.SchemeOpts = []lime.AuthenticationScheme{lime.AuthenticationSchemeGuest}
	cfg.Authenticate = func(context.Context, lime.Identity, lime.Authentication) (*lime.AuthenticationResult, error) {
		return lime.MemberAuthenticationResult(), nil
	}
	cfg.Register = func(_ context.Context, n lime.Node, _ *lime.ServerChannel) (lime.Node, error) { return n, nil }
	server := lime.NewServer(cfg, &lime.EnvelopeMux{}, lime.NewBoundListener(l, addr))
	cycles := c.Cycles
	if cycles < 1 {
		cycles = 1
	}
	var mu sync.Mutex
	var pending []func()
	defer func() {
		for _, f := range pending {
			f()
		}
	}()
	for cycle := 0; cycle < cycles; cycle++ {
		done := make(chan error, 1)
		go func() {
			if p := Protect(func() { done <- server.ListenAndServe() }); p != "" {
				done <- errors.New("panic: " + p)
			}
		}()
		// wait for the port to answer
		up := false
		for i := 0; i < 200; i++ {
			if cn, err := net.DialTimeout("tcp", addr.String(), 200*time.Millisecond); err == nil {
				_ = cn.Close()
				up = true
				break
			}
			select {
			case err := <-done:
				obs.Note = "skip: server did not start: " + fmt.Sprint(err)
				return obs
			default:
			}
			time.Sleep(5 * time.Millisecond)
		}
		if !up {
			_ = server.Close()
			obs.Note = "skip: port never answered"
			return obs
		}
		var wg sync.WaitGroup
		start := time.Now()
		for i := 0; i < c.Dialers; i++ {
			wg.Add(1)
			go func(i int) {
				defer wg.Done()
				time.Sleep(time.Until(start.Add(time.Duration(c.DialAtUs[i]) * time.Microsecond)))
				if c.Kind == "ws" && c.WSRaw == "" {
					d := websocket.Dialer{Subprotocols: []string{"lime"}, HandshakeTimeout: 2 * time.Second}
					wc, _, err := d.Dial(fmt.Sprintf("ws://127.0.0.1:%d", port), nil)
					if err != nil {
						return
					}
					defer wc.Close()
					mu.Lock()
					obs.Connected++
					mu.Unlock()
					if c.Speak {
						_ = wc.WriteMessage(websocket.TextMessage, []byte(`{"state":"new"}`))
					}
					_ = wc.SetReadDeadline(time.Now().Add(8 * time.Second))
					_, msg, err := wc.ReadMessage()
					var ne net.Error
					late := false
					if len(msg) == 0 && errors.As(err, &ne) && ne.Timeout() {
						// nothing within the bound: on a machine that is busy enough that proves little, a connection that is really
						// left behind stays open for good - look again (the raw connection: a timeout has spoilt the WebSocket reader)
						late = true
						_ = wc.UnderlyingConn().SetReadDeadline(time.Now().Add(12 * time.Second))
						buf := make([]byte, 64)
						var n int
						n, err = wc.UnderlyingConn().Read(buf)
						msg = buf[:n]
					}
					mu.Lock()
					defer mu.Unlock()
					switch {
					case late && !(errors.As(err, &ne) && ne.Timeout()):
						obs.Late++
					case len(msg) > 0:
						obs.Served++
					case errors.As(err, &ne) && ne.Timeout():
						obs.Stranded++
					default:
						obs.Ended++
					}
					return
				}
				cn, err := net.DialTimeout("tcp", addr.String(), time.Second)
				if err != nil {
					return
				}
				defer cn.Close()
				mu.Lock()
				obs.Connected++
				mu.Unlock()
				switch {
				case c.Kind == "ws" && c.WSRaw == "half":
					_, _ = cn.Write([]byte("GET / HTTP/1.1\r\nHost: 127.0.0.1\r\nUpgrade: websocket\r\nConnection: Upgrade\r\n"))
				case c.Kind == "ws" && c.WSRaw == "refused":
					_, _ = cn.Write([]byte("GET / HTTP/1.1\r\nHost: 127.0.0.1\r\n\r\n"))
				case c.Kind == "ws":
				case c.Speak:
					_, _ = cn.Write([]byte(`{"state":"new"}` + "\n"))
				}
				// a silent peer in the middle of its handshake is let go when the server's blocked Receive notices the cancellation: one I/O poll (5 s)
				_ = cn.SetReadDeadline(time.Now().Add(8 * time.Second))
				buf := make([]byte, 512)
				n, err := cn.Read(buf)
				if c.Kind == "ws" && c.WSRaw == "refused" && n > 0 {
					// answered (with a refusal) and kept alive by the listener's HTTP server: what counts is the end
					for err == nil {
						n, err = cn.Read(buf)
					}
					n = 0
				}
				var ne net.Error
				late := false
				if n == 0 && errors.As(err, &ne) && ne.Timeout() {
					// (as above: look again before calling the connection left behind)
					late = true
					_ = cn.SetReadDeadline(time.Now().Add(12 * time.Second))
					n, err = cn.Read(buf)
				}
				mu.Lock()
				defer mu.Unlock()
				switch {
				case late && !(errors.As(err, &ne) && ne.Timeout()):
					obs.Late++
				case n > 0:
					obs.Served++
				case errors.As(err, &ne) && ne.Timeout():
					obs.Stranded++
				default:
					obs.Ended++
				}
			}(i)
		}
		time.Sleep(time.Until(start.Add(time.Duration(c.CloseAtUs) * time.Microsecond)))
		if cerr := server.Close(); cerr != nil && strings.Contains(cerr.Error(), "not listening") {
			obs.CloseErr = cerr.Error()
		}
		waitServe := func(done chan error) {
			select {
			case err := <-done:
				if e := fmt.Sprint(err); obs.ServeErr == "" || e != lime.ErrServerClosed.Error() {
					obs.ServeErr = e
				}
			case <-time.After(10 * time.Second):
				obs.ServeErr = "ListenAndServe did not return"
			}
		}
		if c.Overlap && cycle+1 < cycles {
			// the application serves again as soon as Close has returned, without waiting for the previous serve call to come back
			prev := done
			pending = append(pending, func() { waitServe(prev) })
		} else {
			waitServe(done)
		}
		wg.Wait()
		if obs.ServeErr != lime.ErrServerClosed.Error() {
			break
		}
	}
	for i := 0; i < 40; i++ {
		if obs.Left, obs.LeftStack = serverGoroutines(); obs.Left == 0 {
			break
		}
		time.Sleep(50 * time.Millisecond)
	}
	return obs
}

func judgeC18Real(c *c18RealCase, obs *c18RealObs, o *Outcome) {
	o.Class("real-listener=" + c.Kind)
	if c.WSRaw != "" {
		o.Class("ws-peers-short-of-an-upgrade=" + c.WSRaw)
	}
	o.Class(fmt.Sprintf("connBuffer=%d", c.ConnBuffer))
	if c.Cycles > 1 {
		o.Class("served-again-after-close")
	}
	if obs.Note != "" {
		o.Class("skipped")
		return
	}
	if obs.Served > 0 {
		o.Class("some-served")
	}
	if obs.Ended > 0 {
		o.Class("some-ended-unserved")
	}
	if obs.Connected == 0 {
		o.Class("nobody-connected")
	}
	if obs.Late > 0 {
		o.Class("some-ended-only-after-the-first-bound")
	}
	o.NonTrivial = obs.Ended > 0 || (obs.Served > 0 && obs.Served < obs.Connected)
	if c.Overlap {
		o.Class("serve-again-before-the-previous-call-returned")
	}
	if obs.CloseErr != "" {
		o.Fail("C18/real/close-says-not-listening", "Close answered %q while a serve call was running", obs.CloseErr)
	}
	if obs.ServeErr != lime.ErrServerClosed.Error() {
		o.Fail("C18/real/serve-result", "ListenAndServe returned %q", obs.ServeErr)
	}
	if obs.Stranded > 0 {
		o.Fail("C18/real/connection-neither-served-nor-closed/"+c.Kind, "%d of %d connected peers were left on an open connection that nobody serves (no byte and no end within 20 s after they connected; the server was closed long before)", obs.Stranded, obs.Connected)
	}
	if obs.Left > 0 {
		o.Fail("C18/real/goroutine-left/"+c.Kind, "%d serving goroutine(s) left: %s", obs.Left, obs.LeftStack)
	}
}

func TestC18RealAccept(t *testing.T) {
	rec := NewRecorder("C18", "TestC18RealAccept")
	rapid.Check(t, func(rt *rapid.T) {
		c := &c18RealCase{
			Kind:       rapid.SampledFrom([]string{"tcp", "tcp", "tcp-tls", "ws", "ws"}).Draw(rt, "kind"),
			ConnBuffer: rapid.SampledFrom([]int{0, 1, 4, 32}).Draw(rt, "connBuffer"),
			Backlog:    rapid.SampledFrom([]int{0, 1, 8}).Draw(rt, "backlog"),
			Dialers:    rapid.IntRange(1, 24).Draw(rt, "dialers"),
			Speak:      rapid.IntRange(0, 4).Draw(rt, "speak") > 0,
		}
		if rapid.IntRange(0, 3).Draw(rt, "again") == 0 {
			c.Cycles = rapid.IntRange(2, 3).Draw(rt, "cycles")
			c.Overlap = rapid.Bool().Draw(rt, "overlap")
		}
		if c.Kind == "ws" {
			c.WSRaw = rapid.SampledFrom([]string{"", "", "silent", "half", "refused"}).Draw(rt, "wsRaw")
		}
		c.CloseAtUs = rapid.IntRange(200, 6000).Draw(rt, "closeAt")
		// half of the cases: everybody dials within a few hundred microseconds before the closing (the queues are full then)
		burst := rapid.Bool().Draw(rt, "burst")
		for i := 0; i < c.Dialers; i++ {
			if burst {
				c.DialAtUs = append(c.DialAtUs, max(0, c.CloseAtUs-rapid.IntRange(0, 600).Draw(rt, "before")))
			} else {
				c.DialAtUs = append(c.DialAtUs, rapid.IntRange(0, c.CloseAtUs+300).Draw(rt, "dialAt"))
			}
		}
		o := &Outcome{}
		judgeC18Real(c, runC18Real(c), o)
		rec.Check(rt, c, o)
	})
}

// TestC18WSRaw: a WebSocket listener is closed while peers are connected that have not got as far as an upgrade (silent, in the
// middle of their request, or refused and kept alive): they belong to the listener's HTTP server, and they are let go with it.
func TestC18WSRaw(t *testing.T) {
	rec := NewRecorder("C18", "TestC18WSRaw")
	defer rec.Finish(t)
	for _, raw := range []string{"silent", "half", "refused"} {
		for _, closeAt := range []int{30000, 150000} {
			for _, cycles := range []int{1, 2} {
				c := &c18RealCase{Kind: "ws", ConnBuffer: 4, Backlog: 4, Dialers: 3, DialAtUs: []int{0, 1000, closeAt - 2000}, CloseAtUs: closeAt, WSRaw: raw, Cycles: cycles}
				o := &Outcome{}
				rec.Journal(c)
				judgeC18Real(c, runC18Real(c), o)
				rec.Eval(c, o)
			}
		}
	}
	rec.Note("exhaustive", "true")
}

// TestC18ListenerRestart: the library's listeners are started and closed again and again, as fast as possible (a Server that
// is served again right after Close does exactly this): nothing panics.
func TestC18ListenerRestart(t *testing.T) {
	rec := NewRecorder("C18", "TestC18ListenerRestart")
	defer rec.Finish(t)
	for _, kind := range []string{"tcp", "ws"} {
		c := map[string]interface{}{"listener": kind, "rounds": Scale(3000, 30000)}
		rec.Journal(c)
		o := &Outcome{NonTrivial: true}
		o.Class("listener-restart=" + kind)
		port, err := FreePort()
		if err != nil {
			o.Class("skipped")
			rec.Eval(c, o)
			continue
		}
		addr := &net.TCPAddr{IP: net.IPv4(127, 0, 0, 1), Port: port}
		var l lime.TransportListener
		if kind == "tcp" {
			l = lime.NewTCPTransportListener(&lime.TCPConfig{ConnBuffer: 1})
		} else {
			l = lime.NewWebsocketTransportListener(&lime.WebsocketConfig{ConnBuffer: 1})
		}
		rounds := Scale(3000, 30000)
		if kind == "ws" {
			rounds /= 10
		}
		if p := Protect(func() {
			for i := 0; i < rounds; i++ {
				if err := l.Listen(context.Background(), addr); err != nil {
					continue
				}
				_ = l.Close()
			}
		}); p != "" {
			o.Fail("C18/listener-restart/panic/"+kind, "%s", p)
		}
		rec.Eval(c, o)
	}
}

// slowStopListener wraps a listener whose accept loop takes its time to notice that the server is closing.
type slowStopListener struct {
	lime.TransportListener
	gate chan struct{}
}

func (l *slowStopListener) Accept(ctx context.Context) (lime.Transport, error) {
	t, err := l.TransportListener.Accept(ctx)
	if err != nil {
		<-l.gate
	}
	return t, err
}

// TestC18ServeAgainEarly: Close, then ListenAndServe again while the previous serve call has not come back yet (its accept
// loop is slow to stop), then that call returns, then Close: both serve calls return the server-closed error and Close never
// claims that nothing is listening.
func TestC18ServeAgainEarly(t *testing.T) {
	rec := NewRecorder("C18", "TestC18ServeAgainEarly")
	defer rec.Finish(t)
	for _, kind := range []string{"tcp", "ws"} {
		c := map[string]interface{}{"listener": kind}
		rec.Journal(c)
		o := &Outcome{NonTrivial: true}
		o.Class("serve-again-early=" + kind)
		port, err := FreePort()
		if err != nil {
			o.Class("skipped")
			rec.Eval(c, o)
			continue
		}
		addr := &net.TCPAddr{IP: net.IPv4(127, 0, 0, 1), Port: port}
		var inner lime.TransportListener
		if kind == "tcp" {
			inner = lime.NewTCPTransportListener(nil)
		} else {
			inner = lime.NewWebsocketTransportListener(nil)
		}
		sl := &slowStopListener{TransportListener: inner, gate: make(chan struct{})}
		cfg := lime.NewServerConfig()
		cfg.SchemeOpts = []lime.AuthenticationScheme{lime.AuthenticationSchemeGuest}
		srv := lime.NewServer(cfg, &lime.EnvelopeMux{}, lime.NewBoundListener(sl, addr))
		first, second := make(chan error, 1), make(chan error, 1)
		go func() { first <- srv.ListenAndServe() }()
		time.Sleep(50 * time.Millisecond)
		if err := srv.Close(); err != nil && !strings.Contains(err.Error(), "use of closed") {
			o.Fail("C18/serve-again/first-close", "first Close: %v", err)
		}
		go func() { second <- srv.ListenAndServe() }() // the first call is still held up by its slow accept loop
		time.Sleep(50 * time.Millisecond)
		close(sl.gate) // now the first call comes back
		select {
		case err := <-first:
			if err != lime.ErrServerClosed {
				o.Fail("C18/serve-again/first-serve-result", "first ListenAndServe returned %v", err)
			}
		case <-time.After(5 * time.Second):
			o.Fail("C18/serve-again/first-serve-never-returned", "the first ListenAndServe did not return")
		}
		time.Sleep(20 * time.Millisecond)
		if err := srv.Close(); err != nil && strings.Contains(err.Error(), "not listening") {
			o.Fail("C18/serve-again/close-says-not-listening", "Close answered %q while the second serve call is running", err)
		}
		select {
		case err := <-second:
			if err != lime.ErrServerClosed {
				o.Fail("C18/serve-again/second-serve-result", "second ListenAndServe returned %v", err)
			}
		case <-time.After(5 * time.Second):
			o.Fail("C18/serve-again/second-serve-never-returned", "the second ListenAndServe did not return after Close")
			_ = inner.Close()
		}
		rec.Eval(c, o)
	}
}
