package harness

// C13, client-initiated finish under load: many bare ClientChannels finish their sessions at the same time (in-process
// transport, real time, all cores busy), again and again. Every FinishSession must return the finished session, leave the
// channel in state finished and its transport disconnected. The races between the caller of FinishSession and the channel's own
// receiver goroutine are narrow; the load is what opens them.

import (
	"context"
	"fmt"
	"strings"
	"sync"
	"testing"
	"time"

	lime "github.com/takenet/lime-go"
)

type c13StressCase struct {
	Workers int `json:"workers"`
	Rounds  int `json:"rounds"`
	ChanBuf int `json:"chanBuf"`
}

func TestC13FinishStress(t *testing.T) {
	rec := NewRecorder("C13", "TestC13FinishStress")
	defer rec.Finish(t)
	sh, _ := Shard()
	for _, buf := range []int{0, 1, 8} {
		c := &c13StressCase{Workers: 48, Rounds: Scale(250, 2500), ChanBuf: buf}
		rec.Journal(c)
		o := &Outcome{NonTrivial: true}
		o.Class("client-finish-under-load")
		var mu sync.Mutex
		fails := map[string]string{}
		var wg sync.WaitGroup
		for w := 0; w < c.Workers; w++ {
			wg.Add(1)
			go func(w int) {
				defer wg.Done()
				for r := 0; r < c.Rounds; r++ {
					ct, st := lime.VerifNewInProcessTransportPair(lime.InProcessAddr(fmt.Sprintf("c13s-%d-%d-%d", sh, w, r)), 4)
					cc := lime.NewClientChannel(ct, c.ChanBuf)
					sc := lime.NewServerChannel(st, c.ChanBuf, srvNode, fixedSid)
					ctx, cancel := context.WithTimeout(context.Background(), 10*time.Second)
					done := make(chan error, 1)
					go func() {
						done <- sc.EstablishSession(ctx, []lime.SessionCompression{lime.SessionCompressionNone}, []lime.SessionEncryption{lime.SessionEncryptionNone},
							[]lime.AuthenticationScheme{lime.AuthenticationSchemeGuest},
							func(context.Context, lime.Identity, lime.Authentication) (*lime.AuthenticationResult, error) {
								return lime.MemberAuthenticationResult(), nil
							}, func(_ context.Context, n lime.Node, _ *lime.ServerChannel) (lime.Node, error) { return n, nil })
					}()
					_, cerr := cc.EstablishSession(ctx, lime.NoneCompressionSelector, lime.NoneEncryptionSelector, lime.Identity{Name: "alice", Domain: "cli.example"}, lime.GuestAuthenticator, "home")
					serr := <-done
					if cerr != nil || serr != nil {
						cancel()
						continue
					}
					// every other round the session is busy first: commands whose deadlines end about when their responses
					// arrive (the server answers at once); whatever becomes of them, the session must still finish cleanly
					if r%2 == 1 {
						// the client keeps consuming (late responses end up on its response stream)
						go func() {
							for range cc.RespCmdChan() {
							}
						}()
						go func() {
							for req := range sc.ReqCmdChan() {
								resp := &lime.ResponseCommand{Status: lime.CommandStatusSuccess}
								resp.ID, resp.Method = req.ID, req.Method
								actx, ac := context.WithTimeout(context.Background(), time.Second)
								_ = sc.SendResponseCommand(actx, resp)
								ac()
							}
						}()
						for k := 0; k < 6; k++ {
							req := &lime.RequestCommand{}
							req.ID, req.Method = fmt.Sprintf("pc-%d", k), lime.CommandMethodGet
							req.SetURIString("/ping")
							pctx, pc := context.WithTimeout(context.Background(), time.Duration((w*7+r*3+k*11)%40)*time.Microsecond)
							_, _ = cc.ProcessCommand(pctx, req)
							pc()
						}
					}
					// the server side answers a finishing client the way Server does
					go func() {
						<-sc.RcvDone()
						fctx, fc := context.WithTimeout(context.Background(), 2*time.Second)
						_ = sc.FinishSession(fctx)
						fc()
					}()
					ses, err := cc.FinishSession(ctx)
					cancel()
					what := ""
					switch {
					case err != nil:
						what = "FinishSession failed: " + errClassStr(err.Error())
					case ses == nil || ses.State != lime.SessionStateFinished:
						what = "FinishSession returned a session that is not finished"
					case cc.State() != lime.SessionStateFinished:
						what = "state " + string(cc.State()) + " after FinishSession"
					}
					closed := make(chan struct{})
					go func() {
						_ = cc.Close()
						_ = sc.Close()
						close(closed)
					}()
					select {
					case <-closed:
					case <-time.After(8 * time.Second):
						if what == "" {
							what = "closing the channels after the session finished does not return"
						}
					}
					if what != "" {
						mu.Lock()
						fails[what] = fmt.Sprintf("worker %d round %d (connected=%v)", w, r, ct.Connected())
						mu.Unlock()
						if strings.Contains(what, "does not return") || strings.Contains(what, "deadline") {
							return // this worker has seen enough: every further round would wait as long
						}
					}
				}
			}(w)
		}
		wg.Wait()
		for what, where := range fails {
			o.Fail("C13/client-finish-under-load/"+what, "%s: %s", where, what)
		}
		rec.Eval(c, o)
	}
}
