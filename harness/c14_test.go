//go:build go1.25

package harness

import (
	"testing"
	"testing/synctest"

	"pgregory.net/rapid"
)

func TestC14Enum(t *testing.T) {
	rec := NewRecorder("C14", "TestC14Enum")
	defer rec.Finish(t)
	w := StartSpinWatch("C14")
	defer w.Stop()
	sh, nsh := Shard()
	idx := 0
	for _, cfg := range enumCfgs() {
		cfg.Mode = "server"
		alpha := srvAlphabet(&cfg, false)
		if cfg.Transport == "inproc" {
			alpha = inprocAlphabet(alpha)
		}
		enumScripts(cfg, alpha, Scale(4, 5), implNegotiates(&cfg), func(c0 *SrvCase) {
			for _, end := range []string{"eof", "wait", "close-now", "cut"} {
				idx++
				if idx%nsh != sh {
					continue
				}
				c := &SrvCase{Cfg: c0.Cfg, Script: c0.Script, End: end}
				c.Cfg.CtxErr = idx%2 == 0                                                    // every other case: callback errors that wrap a context error
				c.Cfg.CutInAuth = idx%5 == 0 && c.Cfg.Transport != "inproc" && end == "wait" // the peer is reset while Authenticate runs
				o := &Outcome{}
				var obs *SrvObs
				rec.Journal(c)
				w.Case(c)
				synctest.Test(t, func(t *testing.T) { obs = RunServerScript(c) })
				judgeC14(c, obs, o)
				rec.Eval(c, o)
			}
		})
	}
	rec.Note("exhaustive", "true")
}

func TestC14(t *testing.T) {
	rec := NewRecorder("C14", "TestC14")
	w := StartSpinWatch("C14")
	defer w.Stop()
	rapid.Check(t, func(rt *rapid.T) {
		c := genSrvCase(rt, []string{"server"})
		c.End = rapid.SampledFrom([]string{"eof", "wait", "wait", "silence", "close-now", "cut"}).Draw(rt, "end14")
		if c.Cfg.Transport != "inproc" && rapid.IntRange(0, 5).Draw(rt, "cutInAuth") == 0 {
			c.Cfg.CutInAuth = true
		}
		o := &Outcome{}
		rec.Journal(c)
		w.Case(c)
		var obs *SrvObs
		rapid.SyncTest(rt, func(rt *rapid.T) { obs = RunServerScript(c) })
		judgeC14(c, obs, o)
		rec.Check(rt, c, o)
	})
}

func TestC14Replay(t *testing.T) {
	rec := NewRecorder("C14", "TestC14Replay")
	defer rec.Finish(t)
	for _, f := range ReplayFiles("C14") {
		var c SrvCase
		if err := LoadCase(f, &c); err != nil || len(c.Script) == 0 {
			continue
		}
		o := &Outcome{}
		var obs *SrvObs
		synctest.Test(t, func(t *testing.T) { obs = RunServerScript(&c) })
		judgeC14(&c, obs, o)
		rec.Eval(&c, o)
	}
}
