package harness

// C13 after an abandoned send (real sockets: WebSocket, secure WebSocket, TCP): the side that is about to end the session
// has just had a send given up through its context while it was being written (the peer was not reading). Whatever that did
// to the stream, ending the session still releases everything on the initiator's side - its transport is disconnected when the
// terminating call returns, its receiver ends - and the peer, once it reads again, sees the session or at least the connection
// end; nothing is left waiting on an open connection.

import (
	"context"
	"fmt"
	"strings"
	"sync"
	"testing"
	"time"

	lime "github.com/takenet/lime-go"
)

type c13AbandonCase struct {
	Kind string `json:"kind"` // ws | wss | tcp
	How  string `json:"how"`  // server-finish | server-fail | server-close
}

func TestC13AfterAbandonedSend(t *testing.T) {
	rec := NewRecorder("C13", "TestC13AfterAbandonedSend")
	defer rec.Finish(t)
	sh, nsh := Shard()
	idx := 0
	for _, kind := range []string{"ws", "wss", "tcp"} {
		for _, how := range []string{"server-finish", "server-fail", "server-close"} {
			idx++
			if idx%nsh != sh {
				continue
			}
			c := &c13AbandonCase{Kind: kind, How: how}
			rec.Journal(c)
			o := &Outcome{NonTrivial: true}
			o.Class("after-abandoned-send/" + kind)
			pair, err := NewRealPair(kind)
			if err != nil {
				o.Class("skipped")
				rec.Eval(c, o)
				continue
			}
			cc := lime.NewClientChannel(pair.Client, 1)
			sc := lime.NewServerChannel(pair.Server, 1, srvNode, fixedSid)
			ectx, ecancel := context.WithTimeout(context.Background(), 10*time.Second)
			var wg sync.WaitGroup
			var serr error
			wg.Add(1)
			go func() {
				defer wg.Done()
				serr = sc.EstablishSession(ectx, []lime.SessionCompression{lime.SessionCompressionNone}, []lime.SessionEncryption{pair.Server.Encryption()},
					[]lime.AuthenticationScheme{lime.AuthenticationSchemeGuest},
					func(context.Context, lime.Identity, lime.Authentication) (*lime.AuthenticationResult, error) {
						return lime.MemberAuthenticationResult(), nil
					}, func(_ context.Context, n lime.Node, _ *lime.ServerChannel) (lime.Node, error) { return n, nil })
			}()
			_, cerr := cc.EstablishSession(ectx, lime.NoneCompressionSelector, func([]lime.SessionEncryption) lime.SessionEncryption { return pair.Client.Encryption() },
				lime.Identity{Name: "alice", Domain: "cli.example"}, lime.GuestAuthenticator, "home")
			wg.Wait()
			ecancel()
			if cerr != nil || serr != nil {
				o.Class("skipped")
				pair.Close()
				rec.Eval(c, o)
				continue
			}
			// the client does not consume for now: the server's big messages fill the buffers and one send is given up half way
			payload := strings.Repeat("p", 1<<20)
			gaveUp := false
			for k := 0; k < 64 && !gaveUp; k++ {
				m := &lime.Message{}
				m.ID = fmt.Sprintf("big-%d", k)
				m.SetContent(lime.TextDocument(payload))
				ctx, cancel := context.WithCancel(context.Background())
				tm := time.AfterFunc(150*time.Millisecond, cancel)
				if err := sc.SendMessage(ctx, m); err != nil {
					gaveUp = true
				}
				tm.Stop()
				cancel()
			}
			if !gaveUp {
				o.Class("no-send-was-given-up")
			}
			// the server ends the session
			done := make(chan struct{})
			go func() {
				defer close(done)
				tctx, tcancel := context.WithTimeout(context.Background(), 3*time.Second)
				defer tcancel()
				switch how {
				case "server-finish":
					_ = sc.FinishSession(tctx)
				case "server-fail":
					_ = sc.FailSession(tctx, &lime.Reason{Code: 1, Description: "bye"})
				default:
					_ = sc.Close()
				}
			}()
			select {
			case <-done:
			case <-time.After(15 * time.Second):
				o.Fail("C13/after-abandoned-send/terminating-call-never-returns/"+kind, "%s did not return within 15 s", how)
			}
			if pair.Server.Connected() {
				o.Fail("C13/after-abandoned-send/initiator-still-connected/"+kind, "the server's transport is still connected after %s returned (a send had been given up before: %v)", how, gaveUp)
			}
			select {
			case <-sc.RcvDone():
			case <-time.After(8 * time.Second):
				o.Fail("C13/after-abandoned-send/initiator-receiver-still-running/"+kind, "the server channel's receiver has not ended 8 s after %s", how)
			}
			// the client reads again: its session must end (terminal envelope or the end of the connection), it is not left waiting
			go func() {
				for range cc.MsgChan() {
				}
			}()
			select {
			case <-cc.RcvDone():
			case <-time.After(10 * time.Second):
				o.Fail("C13/after-abandoned-send/peer-left-waiting/"+kind, "10 s after %s the client's receiver still waits on its connection (client transport connected: %v)", how, pair.Client.Connected())
			}
			_ = cc.Close()
			_ = sc.Close()
			pair.Close()
			rec.Eval(c, o)
		}
	}
	rec.Note("exhaustive", "true")
}
