package harness

// C02 on the WebSocket receive path: a raw WebSocket peer (gorilla client, no lime code) sends text frames taken from the C02
// corpus, the hostile constants and their single-point mutations to a library WebSocket listener; the accepted transport's
// Receive must answer every frame with an envelope or an error, never a panic (a crash of the process is attributed by the
// driver), and whatever it returns must re-encode and decode to an equal envelope.

import (
	"context"
	"encoding/json"
	"fmt"
	"testing"
	"time"

	"github.com/gorilla/websocket"
	lime "github.com/takenet/lime-go"
)

type c02WSCase struct {
	Frame string `json:"frame"`
}

func TestC02WS(t *testing.T) {
	rec := NewRecorder("C02", "TestC02WS")
	defer rec.Finish(t)
	sh, nsh := Shard()
	l, addr, err := NewRealListener("ws", 0)
	if err != nil {
		t.Skipf("no loopback: %v", err)
	}
	defer l.Close()
	var tr lime.Transport
	var conn *websocket.Conn
	connect := func() bool {
		if conn != nil {
			_ = conn.Close()
		}
		if tr != nil {
			_ = tr.Close()
		}
		var err error
		for i := 0; i < 50; i++ {
			conn, _, err = websocket.DefaultDialer.Dial(fmt.Sprintf("ws://127.0.0.1:%d", addr.Port), map[string][]string{"Sec-WebSocket-Protocol": {"lime"}})
			if err == nil {
				break
			}
			time.Sleep(10 * time.Millisecond)
		}
		if err != nil {
			return false
		}
		ctx, cancel := context.WithTimeout(context.Background(), 5*time.Second)
		defer cancel()
		tr, err = l.Accept(ctx)
		return err == nil
	}
	if !connect() {
		t.Skip("cannot connect a raw websocket peer")
	}
	defer func() { _ = conn.Close(); _ = tr.Close() }()
	// frames: whole-document scalars and nulls, the corpus, the hostile constants, and single-point mutations of a few members
	frames := []string{"null", " null ", "[]", "[null]", "{}", "1", "\"x\"", "true", "{\"state\":null}", "{\"id\":null,\"method\":null}", ""}
	corpus := c02Corpus(Scale(20, 200), 1)
	for _, b := range corpus {
		frames = append(frames, string(b))
	}
	for ci, b := range corpus {
		if ci%7 != 0 {
			continue
		}
		if root, err := parseJTree(b); err == nil && root.count() < 40 {
			for idx := 0; idx < root.count(); idx++ {
				for op := 0; op < numMutOps(); op += 3 {
					if m := mutate(root, idx, op); m != nil {
						frames = append(frames, string(m.Bytes()))
					}
				}
			}
		}
	}
	for i, f := range frames {
		if i%nsh != sh {
			continue
		}
		c := &c02WSCase{Frame: f}
		rec.Journal(c)
		o := &Outcome{NonTrivial: true}
		o.Class("websocket-frame")
		if err := conn.WriteMessage(websocket.TextMessage, []byte(f)); err != nil {
			if !connect() {
				t.Fatalf("lost the raw peer: %v", err)
			}
			continue
		}
		ctx, cancel := context.WithTimeout(context.Background(), 5*time.Second)
		var e interface{}
		var rerr error
		p := Protect(func() { e, rerr = TReceive(ctx, tr) })
		cancel()
		switch {
		case p != "":
			o.Fail("C02/panic/websocket-receive/"+panicClass(p), "Receive panicked on frame %s: %s", truncate(f, 200), p)
		case rerr != nil:
			o.Class("refused")
		default:
			o.Class("accepted")
			b, err := json.Marshal(e)
			if err != nil {
				o.Fail("C02/restable/reencode-error/websocket", "accepted frame %s cannot be encoded again: %v", truncate(f, 200), err)
			} else {
				x := NewOfKind(KindOf(e))
				if err := json.Unmarshal(b, x); err != nil {
					o.Fail("C02/restable/redecode-error/websocket", "accepted frame %s re-encodes to %s which is refused: %v", truncate(f, 200), truncate(string(b), 200), err)
				} else if d := EqualEnvelopes(e, x); d != "" {
					o.Fail("C02/restable/diff/websocket", "accepted frame %s changes when re-encoded: %s", truncate(f, 200), d)
				}
			}
		}
		rec.Eval(c, o)
		if rerr != nil || p != "" || !tr.Connected() {
			// a refused frame may leave the reader in an error state: start over with a fresh connection
			if !connect() {
				t.Fatalf("cannot reconnect the raw peer")
			}
		}
	}
}
