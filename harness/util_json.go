package harness

import "encoding/json"

func jsonUnmarshalBytes(b []byte, into interface{}) error { return json.Unmarshal(b, into) }

func rawJSON(s string) json.RawMessage {
	if s == "" {
		return json.RawMessage("null")
	}
	return json.RawMessage(s)
}
