package harness

// Real loopback sockets: TCP, TCP+TLS, WebSocket, secure WebSocket. Used in real time (outside synctest bubbles).

import (
	"context"
	"crypto/tls"
	"errors"
	"fmt"
	"net"
	"sync"
	"time"

	lime "github.com/takenet/lime-go"
)

var portMu sync.Mutex
var nextPortHint int

// FreePort returns a loopback TCP port that was free a moment ago.
func FreePort() (int, error) {
	portMu.Lock()
	defer portMu.Unlock()
	l, err := net.Listen("tcp", "127.0.0.1:0")
	if err != nil {
		return 0, err
	}
	p := l.Addr().(*net.TCPAddr).Port
	_ = l.Close()
	return p, nil
}

type RealPair struct {
	Client   lime.Transport
	Server   lime.Transport
	Listener lime.TransportListener
	Kind     string
}

func (p *RealPair) Close() {
	if p.Client != nil {
		_ = p.Client.Close()
	}
	if p.Server != nil {
		_ = p.Server.Close()
	}
	if p.Listener != nil {
		_ = p.Listener.Close()
	}
}

// NewRealListener starts a listener of the given kind (tcp | tcp-tls | ws | wss) on a fresh loopback port.
// For tcp-tls the listener's transports carry a TLS configuration (encryption is negotiated later, or forced by the caller).
func NewRealListener(kind string, readLimit int64) (lime.TransportListener, *net.TCPAddr, error) {
	scfg, _ := TLSConfigs()
	for attempt := 0; attempt < 5; attempt++ {
		port, err := FreePort()
		if err != nil {
			return nil, nil, err
		}
		addr := &net.TCPAddr{IP: net.IPv4(127, 0, 0, 1), Port: port}
		var l lime.TransportListener
		switch kind {
		case "tcp":
			l = lime.NewTCPTransportListener(&lime.TCPConfig{ReadLimit: readLimit, ConnBuffer: 16})
		case "tcp-tls":
			l = lime.NewTCPTransportListener(&lime.TCPConfig{ReadLimit: readLimit, TLSConfig: scfg, ConnBuffer: 16})
		case "ws":
			l = lime.NewWebsocketTransportListener(&lime.WebsocketConfig{ConnBuffer: 16})
		case "wss":
			l = lime.NewWebsocketTransportListener(&lime.WebsocketConfig{TLSConfig: scfg, ConnBuffer: 16})
		default:
			return nil, nil, fmt.Errorf("unknown kind %s", kind)
		}
		if err := l.Listen(context.Background(), addr); err != nil {
			continue
		}
		return l, addr, nil
	}
	return nil, nil, errors.New("could not bind a loopback port")
}

// DialReal connects a client transport to a listener started by NewRealListener.
func DialReal(ctx context.Context, kind string, addr *net.TCPAddr) (lime.Transport, error) {
	_, ccfg := TLSConfigs()
	switch kind {
	case "tcp":
		return lime.DialTcp(ctx, addr, nil)
	case "tcp-tls":
		return lime.DialTcp(ctx, addr, &lime.TCPConfig{TLSConfig: ccfg})
	case "ws":
		return lime.DialWebsocket(ctx, fmt.Sprintf("ws://127.0.0.1:%d", addr.Port), nil, nil)
	case "wss":
		c := ccfg.Clone()
		c.ServerName = "localhost"
		return lime.DialWebsocket(ctx, fmt.Sprintf("wss://localhost:%d", addr.Port), nil, c)
	}
	return nil, fmt.Errorf("unknown kind %s", kind)
}

// NewRealPair returns a connected pair of raw transports (no session). For tcp-tls both ends are upgraded to TLS.
func NewRealPair(kind string) (*RealPair, error) {
	l, addr, err := NewRealListener(kind, 0)
	if err != nil {
		return nil, err
	}
	p := &RealPair{Listener: l, Kind: kind}
	ctx, cancel := context.WithTimeout(context.Background(), 5*time.Second)
	defer cancel()
	type res struct {
		t   lime.Transport
		err error
	}
	ch := make(chan res, 1)
	go func() {
		t, err := l.Accept(ctx)
		ch <- res{t, err}
	}()
	var ct lime.Transport
	for i := 0; i < 50; i++ {
		ct, err = DialReal(ctx, kind, addr)
		if err == nil {
			break
		}
		time.Sleep(20 * time.Millisecond)
	}
	if err != nil {
		_ = l.Close()
		return nil, err
	}
	r := <-ch
	if r.err != nil {
		_ = ct.Close()
		_ = l.Close()
		return nil, r.err
	}
	p.Client, p.Server = ct, r.t
	if kind == "tcp-tls" {
		var wg sync.WaitGroup
		var e1, e2 error
		wg.Add(2)
		go func() { defer wg.Done(); e1 = p.Client.SetEncryption(ctx, lime.SessionEncryptionTLS) }()
		go func() { defer wg.Done(); e2 = p.Server.SetEncryption(ctx, lime.SessionEncryptionTLS) }()
		wg.Wait()
		if e1 != nil || e2 != nil {
			p.Close()
			return nil, fmt.Errorf("tls upgrade: %v %v", e1, e2)
		}
	}
	return p, nil
}

var _ = tls.VersionTLS12
