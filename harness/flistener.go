package harness

// FListener is a lime.TransportListener that hands out the real TCP transport (server role) over in-memory pipes.
// The harness keeps both raw ends, so it can observe closure exactly and script the client side byte by byte.

import (
	"context"
	"errors"
	"net"
	"sync"

	lime "github.com/takenet/lime-go"
)

type FListener struct {
	mu      sync.Mutex
	cfg     *lime.TCPConfig
	queue   chan lime.Transport
	done    chan struct{}
	started bool
	closed  bool
	Conns   []*FLConn // every connection ever dialled
	opts    PipeOpts
}

// FLConn is one dialled connection: Client is the harness/client end, Server the end wrapped by the server transport.
type FLConn struct {
	Client    *FConn
	Server    *FConn
	Transport lime.Transport // the server-side transport handed to Accept
}

func NewFListener(cfg *lime.TCPConfig, opts PipeOpts) *FListener {
	return &FListener{cfg: cfg, queue: make(chan lime.Transport, 1024), done: make(chan struct{}), opts: opts}
}

func (l *FListener) Listen(_ context.Context, _ net.Addr) error {
	l.mu.Lock()
	defer l.mu.Unlock()
	if l.started {
		return errors.New("flistener: already started")
	}
	l.started = true
	return nil
}

func (l *FListener) Accept(ctx context.Context) (lime.Transport, error) {
	select {
	case <-ctx.Done():
		return nil, ctx.Err()
	case <-l.done:
		return nil, errors.New("flistener: closed")
	case t := <-l.queue:
		return t, nil
	}
}

func (l *FListener) Close() error {
	l.mu.Lock()
	defer l.mu.Unlock()
	if l.closed {
		return errors.New("flistener: already closed")
	}
	l.closed = true
	close(l.done)
	// connections still waiting in the backlog are refused, as a kernel does when a listening socket is closed
	for {
		select {
		case t := <-l.queue:
			_ = t.Close()
		default:
			return nil
		}
	}
}

var ErrRefused = errors.New("flistener: connection refused")

// Dial creates a new connection and queues its server side for Accept. It fails when the listener is closed or not started.
func (l *FListener) Dial() (*FLConn, error) {
	l.mu.Lock()
	defer l.mu.Unlock()
	if l.closed || !l.started {
		return nil, ErrRefused
	}
	c, s := Pipe(l.opts)
	conn := &FLConn{Client: c, Server: s, Transport: lime.VerifNewTCPTransport(s, l.cfg, true)}
	select {
	case l.queue <- conn.Transport:
	default:
		return nil, ErrRefused
	}
	l.Conns = append(l.Conns, conn)
	return conn, nil
}

// DialTransport dials and wraps the client end in the real TCP transport (client role).
func (l *FListener) DialTransport(cfg *lime.TCPConfig) (lime.Transport, *FLConn, error) {
	c, err := l.Dial()
	if err != nil {
		return nil, nil, err
	}
	return lime.VerifNewTCPTransport(c.Client, cfg, false), c, nil
}

// FAddr is the address to bind an FListener to in a lime.BoundListener (must be a non-zero value).
var FAddr net.Addr = fAddr("fconn-listener")
