package harness

// Ordered JSON tree with systematic structural mutations (used by C02).

import (
	"bytes"
	"encoding/json"
	"fmt"
	"io"
	"strconv"
)

type jnode struct {
	kind byte // 'o' object, 'a' array, 'v' scalar (raw text in val)
	keys []string
	kids []*jnode
	val  string
}

func jscalar(raw string) *jnode { return &jnode{kind: 'v', val: raw} }

func parseJTree(b []byte) (*jnode, error) {
	dec := json.NewDecoder(bytes.NewReader(b))
	dec.UseNumber()
	n, err := parseJNode(dec)
	if err != nil {
		return nil, err
	}
	if _, err := dec.Token(); err != io.EOF {
		return nil, fmt.Errorf("trailing data")
	}
	return n, nil
}

func parseJNode(dec *json.Decoder) (*jnode, error) {
	tok, err := dec.Token()
	if err != nil {
		return nil, err
	}
	switch t := tok.(type) {
	case json.Delim:
		switch t {
		case '{':
			n := &jnode{kind: 'o'}
			for dec.More() {
				kt, err := dec.Token()
				if err != nil {
					return nil, err
				}
				k, _ := kt.(string)
				kid, err := parseJNode(dec)
				if err != nil {
					return nil, err
				}
				n.keys = append(n.keys, k)
				n.kids = append(n.kids, kid)
			}
			_, err := dec.Token()
			return n, err
		case '[':
			n := &jnode{kind: 'a'}
			for dec.More() {
				kid, err := parseJNode(dec)
				if err != nil {
					return nil, err
				}
				n.kids = append(n.kids, kid)
			}
			_, err := dec.Token()
			return n, err
		}
		return nil, fmt.Errorf("unexpected delimiter %v", t)
	case string:
		q, _ := json.Marshal(t)
		return jscalar(string(q)), nil
	case json.Number:
		return jscalar(t.String()), nil
	case bool:
		return jscalar(strconv.FormatBool(t)), nil
	case nil:
		return jscalar("null"), nil
	}
	return nil, fmt.Errorf("unexpected token %T", tok)
}

func (n *jnode) write(buf *bytes.Buffer) {
	switch n.kind {
	case 'o':
		buf.WriteByte('{')
		for i, k := range n.keys {
			if i > 0 {
				buf.WriteByte(',')
			}
			q, _ := json.Marshal(k)
			buf.Write(q)
			buf.WriteByte(':')
			n.kids[i].write(buf)
		}
		buf.WriteByte('}')
	case 'a':
		buf.WriteByte('[')
		for i, k := range n.kids {
			if i > 0 {
				buf.WriteByte(',')
			}
			k.write(buf)
		}
		buf.WriteByte(']')
	default:
		buf.WriteString(n.val)
	}
}

func (n *jnode) Bytes() []byte {
	var buf bytes.Buffer
	n.write(&buf)
	return buf.Bytes()
}

func (n *jnode) clone() *jnode {
	c := &jnode{kind: n.kind, val: n.val}
	c.keys = append([]string(nil), n.keys...)
	for _, k := range n.kids {
		c.kids = append(c.kids, k.clone())
	}
	return c
}

// count returns the number of nodes in the tree.
func (n *jnode) count() int {
	c := 1
	for _, k := range n.kids {
		c += k.count()
	}
	return c
}

// subtrees lists every node in pre-order.
func (n *jnode) subtrees() []*jnode {
	out := []*jnode{n}
	for _, k := range n.kids {
		out = append(out, k.subtrees()...)
	}
	return out
}

// locate returns the parent and child index of the idx-th node in pre-order (parent nil for the root).
func (n *jnode) locate(idx int) (parent *jnode, child int, node *jnode) {
	cur := 0
	var walk func(p *jnode, ci int, x *jnode) bool
	walk = func(p *jnode, ci int, x *jnode) bool {
		if cur == idx {
			parent, child, node = p, ci, x
			return true
		}
		cur++
		for i, k := range x.kids {
			if walk(x, i, k) {
				return true
			}
		}
		return false
	}
	walk(nil, 0, n)
	return
}

var replacementScalars = []string{"null", "0", "1.5", `""`, `"x"`, "true", "[]", "{}", "[null]", `{"a":null}`, "-1", `"/"`, `"a/b"`, "1e400"}

// mutation operators applied at one node
const (
	mDelete = iota
	mWrap
	mAlien
	mDupKey
	mSwapSibling
	mReplaceBase // + index into replacementScalars
)

func numMutOps() int { return mReplaceBase + len(replacementScalars) }

func replacementNode(i int) *jnode {
	n, err := parseJTree([]byte(replacementScalars[i]))
	if err != nil {
		return jscalar(replacementScalars[i]) // e.g. 1e400 stays raw
	}
	return n
}

// mutate returns a mutated copy of root (op applied at node idx), or nil if the operator does not apply there.
func mutate(root *jnode, idx, op int) *jnode {
	c := root.clone()
	p, ci, x := c.locate(idx)
	if x == nil {
		return nil
	}
	set := func(nn *jnode) *jnode {
		if p == nil {
			return nn
		}
		p.kids[ci] = nn
		return c
	}
	switch {
	case op == mDelete:
		if p == nil {
			return nil
		}
		p.kids = append(p.kids[:ci], p.kids[ci+1:]...)
		if p.kind == 'o' {
			p.keys = append(p.keys[:ci], p.keys[ci+1:]...)
		}
		return c
	case op == mWrap:
		return set(&jnode{kind: 'a', kids: []*jnode{x}})
	case op == mAlien:
		if x.kind != 'o' {
			return nil
		}
		x.keys = append(x.keys, "alienField")
		x.kids = append(x.kids, jscalar("1"))
		return c
	case op == mDupKey:
		if p == nil || p.kind != 'o' {
			return nil
		}
		p.keys = append(p.keys, p.keys[ci])
		p.kids = append(p.kids, jscalar("null"))
		return c
	case op == mSwapSibling:
		if p == nil || len(p.kids) < 2 {
			return nil
		}
		j := (ci + 1) % len(p.kids)
		p.kids[ci], p.kids[j] = p.kids[j], p.kids[ci]
		return c
	case op >= mReplaceBase && op < numMutOps():
		return set(replacementNode(op - mReplaceBase))
	}
	return nil
}

// splice replaces node idx of root with a copy of donor.
func splice(root *jnode, idx int, donor *jnode) *jnode {
	c := root.clone()
	p, ci, x := c.locate(idx)
	if x == nil {
		return nil
	}
	if p == nil {
		return donor.clone()
	}
	p.kids[ci] = donor.clone()
	return c
}
