package harness

// C01 under concurrency: several goroutines encode and decode their own envelopes at the same time (a node serves one
// connection per goroutine). Every round trip must be the one a single goroutine gets: the envelope that comes back equals the
// one that went in. Values are generated with the same generator as TestC01, from seeds derived from VERIF_SEED.

import (
	"encoding/json"
	"fmt"
	"sync"
	"testing"
)

type c01ConcCase struct {
	Goroutines int `json:"goroutines"`
	PerG       int `json:"perGoroutine"`
	Round      int `json:"round"`
}

func TestC01Concurrent(t *testing.T) {
	rec := NewRecorder("C01", "TestC01Concurrent")
	defer rec.Finish(t)
	sh, _ := Shard()
	gen := GenEnvelope(3)
	for round := 0; round < Scale(4, 40); round++ {
		c := &c01ConcCase{Goroutines: 16, PerG: 300, Round: round}
		rec.Journal(c)
		o := &Outcome{NonTrivial: true}
		o.Class("concurrent-round-trips")
		// the values are built beforehand, one goroutine at a time
		specs := make([][]*EnvSpec, c.Goroutines)
		vals := make([][]interface{}, c.Goroutines)
		for g := range specs {
			for i := 0; len(vals[g]) < c.PerG && i < 4*c.PerG; i++ {
				spec := gen.Example((seedInt()*1000+sh)*100000 + round*10000 + g*600 + i)
				v, err := spec.Build()
				if err != nil {
					continue
				}
				specs[g] = append(specs[g], spec)
				vals[g] = append(vals[g], v)
			}
		}
		var mu sync.Mutex
		var wg sync.WaitGroup
		for g := range vals {
			wg.Add(1)
			go func(g int) {
				defer wg.Done()
				for i, v := range vals[g] {
					var b []byte
					var err error
					if p := Protect(func() { b, err = json.Marshal(v) }); p != "" || err != nil {
						mu.Lock()
						o.Fail("C01/concurrent/encode/"+specs[g][i].Kind, "encoding failed under concurrency: %v %s", err, p)
						mu.Unlock()
						continue
					}
					x := NewOfKind(specs[g][i].Kind)
					if p := Protect(func() { err = json.Unmarshal(b, x) }); p != "" || err != nil {
						mu.Lock()
						o.Fail("C01/concurrent/decode/"+specs[g][i].Kind, "the encoding produced under concurrency does not decode: %v %s | wire=%s", err, p, truncate(string(b), 300))
						mu.Unlock()
						continue
					}
					if d := EqualEnvelopes(v, x); d != "" {
						mu.Lock()
						o.Fail("C01/concurrent/diff/"+specs[g][i].Kind+"/"+fieldOf(d), "round trip under concurrency: %s | wire=%s", d, truncate(string(b), 300))
						mu.Unlock()
					}
				}
			}(g)
		}
		wg.Wait()
		if len(o.Violations) > 3 {
			o.Violations = o.Violations[:3]
		}
		_ = fmt.Sprint
		rec.Eval(c, o)
	}
}
