package harness

// C02 under concurrency: a node decodes on one goroutine per connection. Several goroutines decode at once, through the typed
// decoders and through real TCP transports, inputs whose text forms (media types, nodes, URIs, enum values) have never been
// seen by the process before. The oracle is C02's: no crash of the process (attributed by the driver to this test), no panic,
// and every goroutine's verdict for an input (accepted as which kind / refused) equals the verdict a single goroutine reaches.

import (
	"bytes"
	"context"
	"fmt"
	"net"
	"sync"
	"testing"
	"time"

	lime "github.com/takenet/lime-go"
)

type c02ConcCase struct {
	Goroutines int    `json:"goroutines"`
	PerG       int    `json:"perGoroutine"`
	Via        string `json:"via"` // typed | transport
	Round      int    `json:"round"`
}

// freshInputs derives inputs from the corpus in which every media type, node and URI text is new to the process.
func freshInputs(corpus [][]byte, tag string, n int) [][]byte {
	var out [][]byte
	for i := 0; len(out) < n; i++ {
		b := corpus[i%len(corpus)]
		u := fmt.Sprintf("%s%d", tag, i)
		b = bytes.ReplaceAll(b, []byte("text/plain"), []byte("text/x-"+u))
		b = bytes.ReplaceAll(b, []byte("+json"), []byte("-"+u+"+json"))
		b = bytes.ReplaceAll(b, []byte("example.org"), []byte(u+".example.org"))
		b = bytes.ReplaceAll(b, []byte("/ping"), []byte("/ping-"+u))
		out = append(out, b)
	}
	return out
}

func verdictTyped(in []byte) string {
	v := ""
	for _, kind := range AllKinds {
		x := NewOfKind(kind)
		var err error
		if p := Protect(func() { err = jsonUnmarshalBytes(in, x) }); p != "" {
			return "panic: " + p
		}
		if err == nil {
			v += kind + ";"
		}
	}
	return v
}

func TestC02Concurrent(t *testing.T) {
	rec := NewRecorder("C02", "TestC02Concurrent")
	defer rec.Finish(t)
	corpus := c02Corpus(60, 1)
	sh, _ := Shard()
	rounds := Scale(6, 60)
	for round := 0; round < rounds; round++ {
		for _, via := range []string{"typed", "transport"} {
			c := &c02ConcCase{Goroutines: 8, PerG: 400, Via: via, Round: round}
			rec.Journal(c)
			o := &Outcome{NonTrivial: true}
			o.Class("via=" + via)
			var wg sync.WaitGroup
			var mu sync.Mutex
			verdicts := make([][]string, c.Goroutines)
			inputs := make([][][]byte, c.Goroutines)
			for g := 0; g < c.Goroutines; g++ {
				inputs[g] = freshInputs(corpus, fmt.Sprintf("s%dr%dg%d%sx", sh, round, g, via[:2]), c.PerG)
			}
			for g := 0; g < c.Goroutines; g++ {
				wg.Add(1)
				go func(g int) {
					defer wg.Done()
					var vs []string
					if via == "typed" {
						for _, in := range inputs[g] {
							vs = append(vs, verdictTyped(in))
						}
					} else {
						a, b := net.Pipe()
						tr := lime.VerifNewTCPTransport(b, nil, true)
						go func() {
							for _, in := range inputs[g] {
								if _, err := a.Write(append(append([]byte{}, in...), '\n')); err != nil {
									return
								}
							}
							_ = a.Close()
						}()
						for range inputs[g] {
							ctx, cancel := context.WithTimeout(context.Background(), 10*time.Second)
							var e interface{}
							var err error
							p := Protect(func() { e, err = TReceive(ctx, tr) })
							cancel()
							switch {
							case p != "":
								vs = append(vs, "panic: "+p)
							case err != nil:
								vs = append(vs, "error")
							default:
								vs = append(vs, fmt.Sprintf("%T", e))
							}
							if !tr.Connected() {
								break
							}
						}
						_ = tr.Close()
						_ = a.Close()
					}
					mu.Lock()
					verdicts[g] = vs
					mu.Unlock()
				}(g)
			}
			wg.Wait()
			for g := range verdicts {
				for i, v := range verdicts[g] {
					if len(v) >= 6 && v[:6] == "panic:" {
						o.Fail("C02/panic/concurrent/"+via, "goroutine %d input %d: %s | %s", g, i, v, truncate(string(inputs[g][i]), 200))
					}
				}
			}
			// afterwards, alone: the typed verdicts must be what they were under concurrency
			if via == "typed" {
				for g := range inputs {
					for i, in := range inputs[g] {
						if i < len(verdicts[g]) {
							if again := verdictTyped(in); again != verdicts[g][i] {
								o.Fail("C02/verdict-differs-under-concurrency", "input %s: %q concurrently, %q alone", truncate(string(in), 200), verdicts[g][i], again)
							}
						}
					}
				}
			}
			rec.Eval(c, o)
		}
	}
}
