//go:build go1.25

package harness

import (
	"context"
	"fmt"
	"testing"
	"testing/synctest"
	"time"

	lime "github.com/takenet/lime-go"
)

// TestC02Live sends inputs to a real Server (TCP transport over in-memory pipes): as the first bytes of a connection and
// after a session was established. The serving process must survive (a panic on a library goroutine kills this test
// binary: the driver attributes the crash to the journalled input), and a fresh client must still establish a session.
func TestC02Live(t *testing.T) {
	rec := NewRecorder("C02", "TestC02Live")
	defer rec.Finish(t)
	synctest.Test(t, func(t *testing.T) { c02Live(t, rec) })
}

func c02Live(t *testing.T, rec *Recorder) {
	sh, nsh := Shard()
	fl := NewFListener(nil, PipeOpts{})
	cfg := lime.NewServerConfig()
	cfg.Node = lime.Node{Identity: lime.Identity{Name: "postmaster", Domain: "example.org"}, Instance: "s"}
	cfg.SchemeOpts = []lime.AuthenticationScheme{lime.AuthenticationSchemeGuest}
	cfg.EncryptOpts = []lime.SessionEncryption{lime.SessionEncryptionNone}
	mux := &lime.EnvelopeMux{}
	srv := lime.NewServer(cfg, mux, lime.NewBoundListener(fl, FAddr))
	done := make(chan error, 1)
	go func() { done <- srv.ListenAndServe() }()
	defer func() { _ = srv.Close(); <-done }()

	establish := func() (*lime.ClientChannel, error) {
		var tr lime.Transport
		var err error
		for i := 0; i < 200; i++ {
			if tr, _, err = fl.DialTransport(nil); err == nil {
				break
			}
			time.Sleep(5 * time.Millisecond)
		}
		if err != nil {
			return nil, err
		}
		ch := lime.NewClientChannel(tr, 4)
		ctx, cancel := context.WithTimeout(context.Background(), 5*time.Second)
		defer cancel()
		ses, err := ch.EstablishSession(ctx, lime.NoneCompressionSelector, lime.NoneEncryptionSelector,
			lime.Identity{Name: lime.NewEnvelopeID(), Domain: "example.org"}, lime.GuestAuthenticator, "i")
		if err != nil {
			return nil, err
		}
		if ses.State != lime.SessionStateEstablished {
			return nil, fmt.Errorf("session state %s", ses.State)
		}
		return ch, nil
	}

	// inputs: the hostile constants, the corpus, and every single-point mutation of a few document-bearing members
	var inputs [][]byte
	for _, s := range c02Hostile {
		inputs = append(inputs, []byte(s))
	}
	for _, s := range c02Literals {
		inputs = append(inputs, []byte(s))
		if tr, err := parseJTree([]byte(s)); err == nil && tr.count() <= 14 {
			for idx := 0; idx < tr.count(); idx++ {
				for op := 0; op < numMutOps(); op += Scale(3, 1) {
					if m := mutate(tr, idx, op); m != nil {
						inputs = append(inputs, m.Bytes())
					}
				}
			}
		}
	}
	for _, f := range ReplayFiles("C02") {
		var c c02Case
		if LoadCase(f, &c) == nil {
			inputs = append(inputs, c.Bytes())
		}
	}
	for i, in := range inputs {
		if i%nsh != sh {
			continue
		}
		for _, when := range []string{"first-bytes", "after-establishment"} {
			c := newC02Case(in, "live/"+when)
			rec.Journal(c)
			o := &Outcome{NonTrivial: true}
			o.Class("live=" + when)
			if when == "first-bytes" {
				conn, err := fl.Dial()
				if err == nil {
					_, _ = conn.Client.Write(append(append([]byte{}, in...), '\n'))
					synctest.Wait()
					_ = conn.Client.Close()
				}
			} else {
				ch, err := establish()
				if err != nil {
					o.Fail("C02/live/cannot-establish", "before sending the input: %v", err)
				} else {
					conn := fl.Conns[len(fl.Conns)-1]
					_, _ = conn.Client.Write(append(append([]byte{}, in...), '\n'))
					synctest.Wait()
					_ = ch.Close()
				}
			}
			// the endpoint must still serve a fresh client
			ch, err := establish()
			if err != nil {
				o.Fail("C02/live/endpoint-dead", "after input %s (%s) a fresh client cannot establish a session: %v", truncate(string(in), 120), when, err)
			} else {
				_ = ch.Close()
			}
			rec.Eval(c, o)
		}
	}
}
