//go:build go1.25

package harness

import (
	"fmt"
	"testing"
	"testing/synctest"
	"time"

	lime "github.com/takenet/lime-go"
	"pgregory.net/rapid"
)

func runC17Virtual(c *c17Case) *c17Obs {
	obs := &c17Obs{}
	srv := newC17Server(c.ChanBuf)
	fl := NewFListener(nil, PipeOpts{})
	addr := lime.InProcessAddr("c17-virtual")
	server := lime.NewServer(srv.cfg, srv.mux, lime.NewBoundListener(fl, FAddr), lime.NewBoundListener(lime.NewInProcessTransportListener(addr), addr))
	done := make(chan error, 1)
	go func() { done <- server.ListenAndServe() }()
	synctest.Wait()
	dial := func(kind string, idx int) (lime.Transport, error) {
		if kind == "inproc" {
			return lime.DialInProcess(addr, 2)
		}
		t, _, err := fl.DialTransport(nil)
		return t, err
	}
	// the in-process registry is an unsynchronised global: dial in-process clients one after the other
	runs := c17RunClients(c, dialSerialised(dial), obs)
	synctest.Wait()
	if c.Broadcast && obs.Note == "" {
		c17Broadcast(srv)
		synctest.Wait()
	}
	c17Collect(c, srv, runs, obs)
	for _, r := range runs {
		if r != nil && r.ch != nil {
			_ = r.ch.Close()
		}
	}
	_ = server.Close()
	<-done
	time.Sleep(6 * time.Second)
	synctest.Wait()
	return obs
}

func genC17(rt *rapid.T, transports []string, maxClients, maxOps int) *c17Case {
	c := &c17Case{ChanBuf: rapid.SampledFrom([]int{1, 4, 32}).Draw(rt, "chanBuf"), Broadcast: rapid.Bool().Draw(rt, "broadcast")}
	n := rapid.IntRange(2, maxClients).Draw(rt, "clients")
	for i := 0; i < n; i++ {
		cl := c17Client{Transport: rapid.SampledFrom(transports).Draw(rt, "transport")}
		k := rapid.IntRange(1, maxOps).Draw(rt, "nops")
		for j := 0; j < k; j++ {
			cl.Ops = append(cl.Ops, rapid.SampledFrom([]string{"m", "m", "q", "n", "M", "Q", "N"}).Draw(rt, "op"))
		}
		c.Clients = append(c.Clients, cl)
	}
	return c
}

func TestC17(t *testing.T) {
	rec := NewRecorder("C17", "TestC17")
	rapid.Check(t, func(rt *rapid.T) {
		c := genC17(rt, []string{"inproc", "fconn", "fconn"}, 24, 20)
		o := &Outcome{}
		var obs *c17Obs
		rec.Journal(c)
		rapid.SyncTest(rt, func(rt *rapid.T) { obs = runC17Virtual(c) })
		judgeC17(c, obs, o)
		rec.Check(rt, c, o)
	})
}

func TestC17Replay(t *testing.T) {
	rec := NewRecorder("C17", "TestC17Replay")
	defer rec.Finish(t)
	for _, f := range ReplayFiles("C17") {
		var c c17Case
		if err := LoadCase(f, &c); err != nil || len(c.Clients) == 0 {
			continue
		}
		o := &Outcome{}
		var obs *c17Obs
		if c.Real {
			obs = runC17Real(&c)
		} else {
			synctest.Test(t, func(t *testing.T) { obs = runC17Virtual(&c) })
		}
		judgeC17(&c, obs, o)
		rec.Eval(&c, o)
	}
	_ = fmt.Sprint
}
