//go:build go1.25

package harness

import (
	"context"
	"encoding/json"
	"errors"
	"fmt"
	"os"
	"strings"
	"sync"
	"sync/atomic"
	"testing"
	"testing/synctest"
	"time"

	lime "github.com/takenet/lime-go"
	"pgregory.net/rapid"
)

type c13Env struct {
	dial        func(ctx context.Context) (lime.Transport, error)
	serverTrans func() []lime.Transport // server-side transports, when the harness can see them
	connsOpen   func() int
	wait        func()                                      // quiescence point
	sleep       func(time.Duration)                         // let the release bound pass
	settle      func(bound time.Duration, cond func() bool) // virtual: the bound passes; real: poll cond up to bound + slack
	encSel      lime.EncryptionSelector
}

func runC13With(c *c13Case, srv *c13Server, server *lime.Server, env *c13Env) *c13Obs {
	obs := &c13Obs{}
	bound := boundFor(c.Transport)
	var sends, stopClientTraffic int32
	reached := make(chan struct{})
	var once sync.Once
	bump := func() {
		if int(atomic.AddInt32(&sends, 1)) >= c.AfterSends {
			once.Do(func() { close(reached) })
		}
	}
	if c.AfterSends <= 0 {
		once.Do(func() { close(reached) })
	}
	ectx, ecancel := context.WithTimeout(context.Background(), 20*time.Second)
	defer ecancel()
	var cc *lime.ClientChannel
	var client *lime.Client
	var ct lime.Transport
	var consumers sync.WaitGroup
	consumersDone := make(chan struct{})
	var cliSend func(ctx context.Context, m *lime.Message) error
	var dialedMu sync.Mutex
	var dialed []lime.Transport // what the high-level Client dialled
	switch c.Wiring {
	case "client":
		cfg := lime.NewClientConfig()
		cfg.Node = lime.Node{Identity: lime.Identity{Name: "alice", Domain: "cli.example"}, Instance: "home"}
		cfg.ChannelBufferSize = c.ChanBuf
		cfg.NewTransport = func(ctx context.Context) (lime.Transport, error) {
			t, err := env.dial(ctx)
			if err == nil {
				dialedMu.Lock()
				dialed = append(dialed, t)
				dialedMu.Unlock()
			}
			return t, err
		}
		cfg.EncryptSelector = env.encSel
		cfg.CompSelector = lime.NoneCompressionSelector
		cfg.Authenticator = lime.GuestAuthenticator
		mux := &lime.EnvelopeMux{}
		mux.MessageHandlerFunc(nil, func(context.Context, *lime.Message, lime.Sender) error { return nil })
		client = lime.NewClient(cfg, mux)
		if err := client.Establish(ectx); err != nil {
			obs.Note = "harness: client establish: " + err.Error()
			_ = client.Close()
			return obs
		}
		cliSend = client.SendMessage
		close(consumersDone)
	default:
		var err error
		ct, err = env.dial(ectx)
		if err != nil {
			obs.Note = "harness: dial: " + err.Error()
			return obs
		}
		cc = lime.NewClientChannel(ct, c.ChanBuf)
		ses, err := cc.EstablishSession(ectx, lime.NoneCompressionSelector, env.encSel, lime.Identity{Name: "alice", Domain: "cli.example"}, lime.GuestAuthenticator, "home")
		if err != nil || ses.State != lime.SessionStateEstablished {
			obs.Note = fmt.Sprintf("harness: establish: %v", err)
			_ = cc.Close()
			return obs
		}
		cliSend = cc.SendMessage
		consumers.Add(4)
		go func() {
			defer consumers.Done()
			for range cc.MsgChan() {
			}
		}()
		go func() {
			defer consumers.Done()
			for range cc.NotChan() {
			}
		}()
		go func() {
			defer consumers.Done()
			for range cc.ReqCmdChan() {
			}
		}()
		go func() {
			defer consumers.Done()
			for range cc.RespCmdChan() {
			}
		}()
		go func() { consumers.Wait(); close(consumersDone) }()
	}
	var sc *lime.ServerChannel
	select {
	case sc = <-srv.estCh:
	case <-ectx.Done():
		obs.Note = "harness: the server never reported the session"
		return obs
	}
	// traffic in both directions
	var traffic sync.WaitGroup
	traffic.Add(2)
	go func() {
		defer traffic.Done()
		for i := 0; i < c.C2S; i++ {
			if c.Wiring == "client" && atomic.LoadInt32(&stopClientTraffic) != 0 {
				break // an application does not send through a Client it is closing (that would dial a new session)
			}
			ctx, cancel := context.WithTimeout(context.Background(), 2*time.Second)
			_ = cliSend(ctx, c13Message(fmt.Sprint("c2s-", i)))
			cancel()
			bump()
		}
	}()
	go func() {
		defer traffic.Done()
		for i := 0; i < c.S2C; i++ {
			ctx, cancel := context.WithTimeout(context.Background(), 2*time.Second)
			_ = sc.SendMessage(ctx, c13Message(fmt.Sprint("s2c-", i)))
			cancel()
			bump()
		}
	}()
	select {
	case <-reached:
	case <-time.After(30 * time.Second):
	}
	var unstickInitiator func()
	if c.InitiatorBusy && cc != nil && strings.HasPrefix(c.Initiator, "server") {
		g := make(chan struct{})
		srv.stuck.Store(g)
		unstickInitiator = func() { srv.stuck.Store((chan struct{})(nil)); close(g) }
		ctx, cancel := context.WithTimeout(context.Background(), 2*time.Second)
		_ = cc.SendMessage(ctx, c13Message("stick"))
		for i := 0; i < c.ChanBuf+3; i++ {
			n := &lime.Notification{Event: lime.NotificationEventReceived}
			n.ID = fmt.Sprint("busy-", i)
			_ = cc.SendNotification(ctx, n)
		}
		cancel()
		env.wait()
	}
	tctx, tcancel := context.WithTimeout(context.Background(), 10*time.Second)
	sessionTrans := env.serverTrans() // server-side transports of the session(s) that exist now (a Client may reconnect later)
	if c.Initiator == "client-close" {
		atomic.StoreInt32(&stopClientTraffic, 1)
		env.wait()
	}
	switch c.Initiator {
	case "client-finish":
		ses, err := cc.FinishSession(tctx)
		if err != nil {
			obs.TermErr = err.Error()
		} else if ses != nil {
			obs.TermSesState = string(ses.State)
		}
		obs.InitiatorConnAtRet = ct.Connected()
	case "client-close":
		var unstick func()
		if c.PeerStuck {
			// the server's dispatch loop enters a handler and stays there: the finishing envelope will not be answered
			g := make(chan struct{})
			srv.stuck.Store(g)
			unstick = func() { srv.stuck.Store((chan struct{})(nil)); close(g) }
			ctx, cancel := context.WithTimeout(context.Background(), time.Second)
			_ = client.SendMessage(ctx, c13Message("stick"))
			cancel()
			env.wait()
		}
		if err := client.Close(); err != nil {
			obs.TermErr = err.Error()
		}
		dialedMu.Lock()
		for _, t := range dialed {
			obs.InitiatorConnAtRet = obs.InitiatorConnAtRet || t.Connected()
		}
		dialedMu.Unlock()
		if unstick != nil {
			unstick()
		}
	case "server-finish":
		if err := c13Bounded(func() error { return sc.FinishSession(tctx) }); err != nil {
			obs.TermErr = err.Error()
		}
		for _, t := range sessionTrans {
			obs.InitiatorConnAtRet = obs.InitiatorConnAtRet || t.Connected()
		}
	case "server-fail":
		if err := c13Bounded(func() error { return sc.FailSession(tctx, &lime.Reason{Code: 42, Description: "go away"}) }); err != nil {
			obs.TermErr = err.Error()
		}
		for _, t := range sessionTrans {
			obs.InitiatorConnAtRet = obs.InitiatorConnAtRet || t.Connected()
		}
	case "server-close":
		if err := server.Close(); err != nil {
			obs.TermErr = err.Error()
		}
	}
	tcancel()
	if unstickInitiator != nil {
		unstickInitiator()
	}
	traffic.Wait()
	env.settle(bound, func() bool {
		if cc != nil {
			st := cc.State()
			select {
			case <-consumersDone:
			default:
				return false
			}
			if st != lime.SessionStateFinished && st != lime.SessionStateFailed {
				return false
			}
		}
		return doneClosed(sc.RcvDone())
	})
	if cc != nil {
		obs.CliState = string(cc.State())
		obs.CliRcvDone = doneClosed(cc.RcvDone())
		select {
		case <-consumersDone:
			obs.ConsumersReturned = true
			obs.CliStreamsClosed = true
		default:
			obs.CliStreamsClosed = false
		}
		obs.ClientSawTerminal = obs.CliState == "finished" || obs.CliState == "failed"
	}
	obs.SrvState = string(sc.State())
	obs.SrvRcvDone = doneClosed(sc.RcvDone())
	obs.SrvStreamsClosed = streamsClosed(sc)
	if !obs.SrvStreamsClosed && obs.SrvRcvDone {
		// the receiver closes its done signal and then its streams, one after the other: in real time this goroutine can look
		// in between (in virtual time settle has already let it finish)
		env.settle(0, func() bool { return streamsClosed(sc) })
		obs.SrvStreamsClosed = streamsClosed(sc)
	}
	if c.Initiator == "server-close" {
		for _, t := range env.serverTrans() {
			obs.InitiatorConnLater = obs.InitiatorConnLater || t.Connected()
		}
	}
	if client != nil && strings.HasPrefix(c.Initiator, "server") {
		// the high-level client closes the channel of the ended session on its own (its listener comes back for a channel)
		dialedMu.Lock()
		first := dialed[0]
		dialedMu.Unlock()
		env.settle(bound, func() bool { return !first.Connected() })
		obs.ClientKeptLost = first.Connected()
	}
	// the observing side closes its channel (the high-level client does so on its own / at Close)
	if cc != nil {
		_ = cc.Close()
	}
	if client != nil && c.Initiator != "client-close" {
		atomic.StoreInt32(&stopClientTraffic, 1)
		env.wait()
		_ = client.Close()
	}
	env.settle(bound, func() bool {
		n, _ := sessionGoroutines()
		srv.mu.Lock()
		defer srv.mu.Unlock()
		return n == 0 && srv.est == srv.fin
	})
	srv.mu.Lock()
	obs.EstCb, obs.FinCb = srv.est, srv.fin
	srv.mu.Unlock()
	obs.Serving, obs.ServingStack = sessionGoroutines()
	obs.ConnsOpen = env.connsOpen()
	return obs
}

func runC13Virtual(c *c13Case) *c13Obs {
	tls := c.Transport == "fconn-tls"
	srv := newC13Server(c.ChanBuf, tls)
	var fl *FListener
	var bl lime.BoundListener
	addr := lime.InProcessAddr("c13-virtual")
	env := &c13Env{encSel: lime.NoneEncryptionSelector, wait: synctest.Wait, sleep: time.Sleep}
	env.settle = func(bound time.Duration, _ func() bool) { time.Sleep(bound); synctest.Wait() }
	switch c.Transport {
	case "inproc":
		bl = lime.NewBoundListener(lime.NewInProcessTransportListener(addr), addr)
		env.dial = func(context.Context) (lime.Transport, error) { return lime.DialInProcess(addr, c.InprocBuf) }
		env.serverTrans = func() []lime.Transport { return nil }
		env.connsOpen = func() int { return 0 }
	default:
		var scfg, ccfg *lime.TCPConfig
		if tls {
			if c.TLS12 {
				SetTLSMax(tlsVersion12)
				defer SetTLSMax(0)
			}
			s, cl := TLSConfigs()
			scfg, ccfg = &lime.TCPConfig{TLSConfig: s}, &lime.TCPConfig{TLSConfig: cl}
			env.encSel = lime.TLSEncryptionSelector
		}
		fl = NewFListener(scfg, PipeOpts{})
		bl = lime.NewBoundListener(fl, FAddr)
		env.dial = func(context.Context) (lime.Transport, error) {
			t, _, err := fl.DialTransport(ccfg)
			return t, err
		}
		env.serverTrans = func() []lime.Transport {
			fl.mu.Lock()
			defer fl.mu.Unlock()
			var out []lime.Transport
			for _, cn := range fl.Conns {
				out = append(out, cn.Transport)
			}
			return out
		}
		env.connsOpen = func() int {
			fl.mu.Lock()
			defer fl.mu.Unlock()
			n := 0
			for _, cn := range fl.Conns {
				if !cn.Client.Closed() {
					n++
				}
				if !cn.Server.Closed() {
					n++
				}
			}
			return n
		}
	}
	server := lime.NewServer(srv.cfg, srv.mux, bl)
	done := make(chan error, 1)
	go func() { done <- server.ListenAndServe() }()
	synctest.Wait()
	obs := runC13With(c, srv, server, env)
	_ = server.Close()
	<-done
	time.Sleep(6 * time.Second)
	synctest.Wait()
	return obs
}

func genC13(rt *rapid.T, transports []string) *c13Case {
	c := &c13Case{
		Transport: rapid.SampledFrom(transports).Draw(rt, "transport"),
		Wiring:    rapid.SampledFrom([]string{"channel", "channel", "client"}).Draw(rt, "wiring"),
		ChanBuf:   rapid.SampledFrom([]int{0, 1, 8}).Draw(rt, "chanBuf"),
		InprocBuf: rapid.SampledFrom([]int{0, 1, 8}).Draw(rt, "inprocBuf"),
	}
	if c.Transport == "fconn-tls" {
		c.TLS12 = rapid.Bool().Draw(rt, "tls12")
	}
	c.InitiatorBusy = rapid.IntRange(0, 3).Draw(rt, "initiatorBusy") == 0
	if c.Wiring == "client" {
		c.Initiator = rapid.SampledFrom([]string{"client-close", "server-close", "server-finish", "server-fail"}).Draw(rt, "initiator")
		if c.Initiator == "client-close" {
			c.PeerStuck = rapid.IntRange(0, 2).Draw(rt, "peerStuck") == 0
		}
	} else {
		c.Initiator = rapid.SampledFrom([]string{"client-finish", "server-finish", "server-fail", "server-close"}).Draw(rt, "initiator")
	}
	if rapid.IntRange(0, 3).Draw(rt, "idle") != 0 {
		c.C2S = rapid.IntRange(0, 30).Draw(rt, "c2s")
		c.S2C = rapid.IntRange(0, 30).Draw(rt, "s2c")
		if c.InitiatorBusy {
			// the notifications that keep the initiator busy are sent by the harness itself; a second client sender would wait
			// for it on the channel's send lock, and a lock wait stops the virtual clock
			c.C2S = 0
		}
		c.AfterSends = rapid.IntRange(0, c.C2S+c.S2C).Draw(rt, "after")
	}
	return c
}

func TestC13(t *testing.T) {
	rec := NewRecorder("C13", "TestC13")
	rapid.Check(t, func(rt *rapid.T) {
		c := genC13(rt, []string{"inproc", "fconn", "fconn", "fconn-tls"})
		o := &Outcome{}
		var obs *c13Obs
		rec.Journal(c)
		rapid.SyncTest(rt, func(rt *rapid.T) { obs = runC13Virtual(c) })
		judgeC13(c, obs, o)
		rec.Check(rt, c, o)
	})
}

func TestC13Replay(t *testing.T) {
	rec := NewRecorder("C13", "TestC13Replay")
	defer rec.Finish(t)
	for _, f := range ReplayFiles("C13") {
		var c c13Case
		if err := LoadCase(f, &c); err != nil || c.Initiator == "" {
			continue
		}
		o := &Outcome{}
		var obs *c13Obs
		if c.Real {
			// real sockets: schedule-dependent, so a replay may be repeated (VERIF_REPS)
			for rep := 0; rep < envInt("VERIF_REPS", 1); rep++ {
				o = &Outcome{}
				obs = runC13Real(&c)
				judgeC13(&c, obs, o)
				if os.Getenv("VERIF_DEBUG") != "" && len(o.Violations) > 0 {
					b, _ := json.Marshal(obs)
					t.Logf("rep %d obs: %s", rep, b)
				}
				rec.Eval(&c, o)
			}
			continue
		}
		synctest.Test(t, func(t *testing.T) { obs = runC13Virtual(&c) })
		judgeC13(&c, obs, o)
		if os.Getenv("VERIF_DEBUG") != "" {
			b, _ := json.Marshal(obs)
			t.Logf("obs: %s", b)
		}
		rec.Eval(&c, o)
	}
}

var errC13NeverReturned = errors.New("the terminating call did not return within 60 s")

// c13Bounded runs a terminating call and gives up waiting for it after a minute (it then stays behind).
func c13Bounded(f func() error) error {
	done := make(chan error, 1)
	go func() { done <- f() }()
	select {
	case err := <-done:
		return err
	case <-time.After(60 * time.Second):
		return errC13NeverReturned
	}
}
