//go:build go1.25

package harness

// C20 through the builders: the ping auto-reply of ServerBuilder is one more request-command handler, registered at the
// position at which AutoReplyPings() is called. Every order of up to three recording handlers (catch-all, ping only, everything
// but ping, never) around it is enumerated; a session then sends pings and other requests. Each request goes to exactly the
// first handler in registration order that accepts it: the recording handler that saw it, or the auto-reply (then the client
// gets a ping response and no recording handler sees it), or nobody.

import (
	"context"
	"fmt"
	"strings"
	"sync"
	"testing"
	"testing/synctest"
	"time"

	lime "github.com/takenet/lime-go"
)

type c20BuilderCase struct {
	Order []string `json:"order"` // catchall | pingonly | nonping | never | auto, in registration order
}

type c20BuilderObs struct {
	Note      string              `json:"note,omitempty"`
	Seen      map[string][]int    `json:"seen"`      // request id -> indexes (positions in Order) of the recording handlers that saw it
	Responses map[string][]string `json:"responses"` // request id -> types of the responses the client received
}

var c20BuilderSeq int

func c20Accepts(kind string, ping bool) bool {
	switch kind {
	case "catchall":
		return true
	case "pingonly", "auto":
		return ping
	case "nonping":
		return !ping
	}
	return false
}

func runC20Builder(c *c20BuilderCase) *c20BuilderObs {
	obs := &c20BuilderObs{Seen: map[string][]int{}, Responses: map[string][]string{}}
	var mu sync.Mutex
	c20BuilderSeq++
	addr := lime.InProcessAddr(fmt.Sprintf("c20builder-%d", c20BuilderSeq))
	b := lime.NewServerBuilder().Name("postmaster").Domain("example.org").Instance("s1").EnableGuestAuthentication().ListenInProcess(addr)
	isPing := func(q *lime.RequestCommand) bool {
		return q.Method == lime.CommandMethodGet && q.URI != nil && q.URI.Path() == "/ping"
	}
	for i, kind := range c.Order {
		i, kind := i, kind
		if kind == "auto" {
			b = b.AutoReplyPings()
			continue
		}
		var pred lime.RequestCommandPredicate
		if kind != "catchall" {
			pred = func(q *lime.RequestCommand) bool { return c20Accepts(kind, isPing(q)) }
		}
		b = b.RequestCommandHandlerFunc(pred, func(_ context.Context, q *lime.RequestCommand, _ lime.Sender) error {
			mu.Lock()
			obs.Seen[q.ID] = append(obs.Seen[q.ID], i)
			mu.Unlock()
			return nil
		})
	}
	srv := b.Build()
	done := make(chan error, 1)
	go func() { done <- srv.ListenAndServe() }()
	synctest.Wait()
	tr, err := lime.DialInProcess(addr, 8)
	if err != nil {
		obs.Note = "harness: dial: " + err.Error()
		_ = srv.Close()
		<-done
		return obs
	}
	cc := lime.NewClientChannel(tr, 8)
	ctx, cancel := context.WithTimeout(context.Background(), 10*time.Second)
	ses, err := cc.EstablishSession(ctx, lime.NoneCompressionSelector, lime.NoneEncryptionSelector, lime.Identity{Name: lime.NewEnvelopeID(), Domain: "example.org"}, lime.GuestAuthenticator, "i")
	cancel()
	if err != nil || ses.State != lime.SessionStateEstablished {
		obs.Note = fmt.Sprintf("harness: establish: %v", err)
		_ = cc.Close()
		_ = srv.Close()
		<-done
		return obs
	}
	go func() {
		for r := range cc.RespCmdChan() {
			typ := "none"
			if r.Type != nil {
				typ = r.Type.String()
			}
			mu.Lock()
			obs.Responses[r.ID] = append(obs.Responses[r.ID], string(r.Status)+":"+typ)
			mu.Unlock()
		}
	}()
	for k, uri := range []string{"/ping", "/other", "/ping", "lime://example.org/ping", "/ping/deeper"} {
		q := &lime.RequestCommand{}
		q.ID, q.Method = fmt.Sprintf("q%d", k), lime.CommandMethodGet
		q.SetURIString(uri)
		ctx, cancel := context.WithTimeout(context.Background(), time.Second)
		_ = cc.SendRequestCommand(ctx, q)
		cancel()
		synctest.Wait()
	}
	// a set /ping is no ping
	q := &lime.RequestCommand{}
	q.ID, q.Method = "q-set", lime.CommandMethodSet
	q.SetURIString("/ping")
	q.SetResource(&lime.Ping{})
	ctx, cancel = context.WithTimeout(context.Background(), time.Second)
	_ = cc.SendRequestCommand(ctx, q)
	cancel()
	synctest.Wait()
	time.Sleep(100 * time.Millisecond)
	synctest.Wait()
	_ = srv.Close()
	<-done
	_ = cc.Close()
	time.Sleep(2 * time.Second)
	synctest.Wait()
	return obs
}

func judgeC20Builder(c *c20BuilderCase, obs *c20BuilderObs, o *Outcome) {
	o.Class("builder-ping-auto-reply")
	o.Class("order=" + strings.Join(c.Order, ">"))
	if obs.Note != "" {
		o.Fail("C20/harness/builder", "%s", obs.Note)
		return
	}
	o.NonTrivial = len(c.Order) >= 2
	pings := map[string]bool{"q0": true, "q2": true, "q3": true}
	for _, id := range []string{"q0", "q1", "q2", "q3", "q4", "q-set"} {
		first := -1
		for i, kind := range c.Order {
			if c20Accepts(kind, pings[id]) {
				first = i
				break
			}
		}
		wantSeen, wantPing := []int(nil), false
		if first >= 0 {
			if c.Order[first] == "auto" {
				wantPing = true
			} else {
				wantSeen = []int{first}
			}
		}
		if fmt.Sprint(obs.Seen[id]) != fmt.Sprint(wantSeen) {
			o.Fail("C20/builder/wrong-handler", "request %s (ping=%v) with handlers %v: seen by recording handlers %v, expected %v", id, pings[id], c.Order, obs.Seen[id], wantSeen)
		}
		gotPing := false
		for _, r := range obs.Responses[id] {
			if strings.Contains(r, "ping") {
				gotPing = true
			}
		}
		if gotPing != wantPing || len(obs.Responses[id]) > 1 {
			o.Fail("C20/builder/ping-reply", "request %s (ping=%v) with handlers %v: responses %v, ping auto-reply expected=%v", id, pings[id], c.Order, obs.Responses[id], wantPing)
		}
	}
}

func TestC20Builder(t *testing.T) {
	rec := NewRecorder("C20", "TestC20Builder")
	defer rec.Finish(t)
	sh, nsh := Shard()
	kinds := []string{"catchall", "pingonly", "nonping", "never"}
	var orders [][]string
	// the auto-reply alone, and at every position among one, two or three recording handlers
	var gen func(prefix []string, n int)
	gen = func(prefix []string, n int) {
		if len(prefix) == n {
			for pos := 0; pos <= n; pos++ {
				o := append(append(append([]string{}, prefix[:pos]...), "auto"), prefix[pos:]...)
				orders = append(orders, o)
			}
			return
		}
		for _, k := range kinds {
			gen(append(append([]string{}, prefix...), k), n)
		}
	}
	for n := 0; n <= Scale(2, 3); n++ {
		gen(nil, n)
	}
	for i, ord := range orders {
		if i%nsh != sh {
			continue
		}
		c := &c20BuilderCase{Order: ord}
		rec.Journal(c)
		o := &Outcome{}
		var obs *c20BuilderObs
		synctest.Test(t, func(t *testing.T) { obs = runC20Builder(c) })
		judgeC20Builder(c, obs, o)
		rec.Eval(c, o)
	}
	rec.Note("exhaustive", "true")
}
