package harness

// rapid generators for envelope specs. All randomness comes from rapid draws.

import (
	"fmt"
	"math"

	"pgregory.net/rapid"
)

var specials = []rune{'"', '\\', '/', '<', '>', '&', '\'', ' ', '\t', '\n', '\r', 0, 0x1f, 0x7f, 0x2028, 0x2029,
	0xe9, 0xdf, 0x4e2d, 0x1d11e, 0x1f600, '+', '@', ':', '?', '#', '%', '{', '}', '[', ']', ',', 0xa0, 0xfeff, 0xfffd}

// GenString: mixture of plain, special-character and arbitrary unicode strings (always valid UTF-8).
func GenString() *rapid.Generator[string] {
	return rapid.OneOf(
		rapid.StringMatching(`[a-z0-9]{0,8}`),
		rapid.StringMatching(`[a-zA-Z0-9 .,_-]{0,24}`),
		rapid.StringOfN(rapid.SampledFrom(specials), 0, 6, -1),
		rapid.StringOfN(rapid.Rune(), 0, 12, -1),
		rapid.Just(""),
	)
}

func GenNonEmpty() *rapid.Generator[string] {
	return GenString().Filter(func(s string) bool { return s != "" })
}

func stripRunes(s string, bad string) string {
	out := make([]rune, 0, len(s))
	for _, r := range s {
		skip := false
		for _, b := range bad {
			if r == b {
				skip = true
			}
		}
		if !skip {
			out = append(out, r)
		}
	}
	return string(out)
}

// GenPart: a node address part; the separators the address grammar reserves are removed.
func GenPart() *rapid.Generator[string] {
	return rapid.Map(GenString(), func(s string) string { return stripRunes(s, "@/") })
}

func GenNode() *rapid.Generator[*NodeSpec] {
	return rapid.Custom(func(t *rapid.T) *NodeSpec {
		n := &NodeSpec{}
		mask := rapid.IntRange(1, 7).Draw(t, "parts")
		if mask&1 != 0 {
			n.Name = GenPart().Draw(t, "name")
		}
		if mask&2 != 0 {
			n.Domain = GenPart().Draw(t, "domain")
		}
		if mask&4 != 0 {
			n.Instance = GenPart().Draw(t, "instance")
		}
		if *n == (NodeSpec{}) {
			return nil
		}
		return n
	})
}

func GenOptNode() *rapid.Generator[*NodeSpec] {
	return rapid.OneOf(rapid.Just[*NodeSpec](nil), GenNode())
}

func genMTPart() *rapid.Generator[string] {
	return rapid.Map(rapid.OneOf(rapid.StringMatching(`[a-z][a-z0-9.-]{0,10}`), GenNonEmpty()), func(s string) string {
		s = stripRunes(s, "/+")
		if s == "" {
			s = "x"
		}
		return s
	})
}

// foreign media types that map to the text factory (no json suffix, not registered) or to the generic JSON factory
func GenForeignMT(jsonSuffix bool) *rapid.Generator[MTSpec] {
	return rapid.Custom(func(t *rapid.T) MTSpec {
		m := MTSpec{Type: genMTPart().Draw(t, "type"), Subtype: "x-unreg-" + genMTPart().Draw(t, "subtype")}
		if jsonSuffix {
			m.Suffix = "json"
		} else if rapid.Bool().Draw(t, "suffix") {
			s := stripRunes(genMTPart().Draw(t, "sfx"), "+/")
			if s == "json" || s == "" {
				s = "xml"
			}
			m.Suffix = s
		}
		return m
	})
}

// GenJSONValue generates values exactly as encoding/json decodes them.
func GenJSONValue(depth int) *rapid.Generator[interface{}] {
	return rapid.Custom(func(t *rapid.T) interface{} {
		max := 5
		if depth <= 0 {
			max = 3
		}
		switch rapid.IntRange(0, max).Draw(t, "jkind") {
		case 0:
			return GenString().Draw(t, "s")
		case 1:
			f := rapid.OneOf(
				rapid.Map(rapid.IntRange(-1000, 1000), func(i int) float64 { return float64(i) }),
				rapid.Float64Range(-1e15, 1e15),
				rapid.SampledFrom([]float64{0, 1, -1, 0.1, 1e21, 1e-7, math.MaxFloat64, math.SmallestNonzeroFloat64, 9007199254740993, -0.5}),
			).Draw(t, "f")
			if math.IsNaN(f) || math.IsInf(f, 0) {
				f = 0
			}
			return f
		case 2:
			return rapid.Bool().Draw(t, "b")
		case 3:
			return nil
		case 4:
			n := rapid.IntRange(0, 3).Draw(t, "alen")
			a := make([]interface{}, n)
			for i := range a {
				a[i] = GenJSONValue(depth-1).Draw(t, "elem")
			}
			return a
		default:
			return map[string]interface{}(GenJSONObject(depth-1).Draw(t, "obj"))
		}
	})
}

func GenJSONObject(depth int) *rapid.Generator[map[string]interface{}] {
	return rapid.Custom(func(t *rapid.T) map[string]interface{} {
		n := rapid.IntRange(0, 4).Draw(t, "olen")
		m := map[string]interface{}{}
		for i := 0; i < n; i++ {
			m[GenString().Draw(t, "key")] = GenJSONValue(depth).Draw(t, "val")
		}
		return m
	})
}

func genBoolPtrField(t *rapid.T, m map[string]interface{}, key string) {
	if rapid.Bool().Draw(t, key+"?") {
		m[key] = rapid.Bool().Draw(t, key)
	}
}

func genStrField(t *rapid.T, m map[string]interface{}, key string) {
	if rapid.Bool().Draw(t, key+"?") {
		if s := GenNonEmpty().Draw(t, key); s != "" {
			m[key] = s
		}
	}
}

func genChatFields(t *rapid.T, kind string) map[string]interface{} {
	m := map[string]interface{}{}
	switch kind {
	case "chat.presence":
		if rapid.Bool().Draw(t, "status?") {
			m["status"] = rapid.SampledFrom([]string{"unavailable", "available", "busy", "away", "invisible"}).Draw(t, "status")
		}
		genStrField(t, m, "message")
		if rapid.Bool().Draw(t, "rr?") {
			m["routingRule"] = rapid.SampledFrom([]string{"instance", "identity", "domain", "rootDomain"}).Draw(t, "rr")
		}
		if rapid.Bool().Draw(t, "prio?") {
			m["priority"] = float64(rapid.IntRange(-5, 100).Draw(t, "prio"))
		}
		genBoolPtrField(t, m, "echo")
		genBoolPtrField(t, m, "promiscuous")
		genBoolPtrField(t, m, "roundRobin")
		if rapid.Bool().Draw(t, "inst?") {
			n := rapid.IntRange(1, 3).Draw(t, "ninst")
			l := []interface{}{}
			for i := 0; i < n; i++ {
				l = append(l, GenString().Draw(t, "inst"))
			}
			m["instances"] = l
		}
		if rapid.Bool().Draw(t, "seen?") {
			m["lastSeen"] = genTime(t)
		}
	case "chat.receipt":
		n := rapid.IntRange(0, 4).Draw(t, "nev")
		if n > 0 {
			l := []interface{}{}
			for i := 0; i < n; i++ {
				l = append(l, rapid.SampledFrom(Events).Draw(t, "ev"))
			}
			m["events"] = l
		}
	case "chat.account", "chat.contact":
		for _, k := range []string{"address", "city", "email", "phoneNumber", "gender", "culture", "firstName", "lastName", "source"} {
			genStrField(t, m, k)
		}
		if rapid.Bool().Draw(t, "identity?") {
			n := GenNode().Draw(t, "ident")
			if n != nil && (n.Name != "" || n.Domain != "") {
				m["identity"] = IdentityText(n.Node().Identity)
			}
		}
		if rapid.Bool().Draw(t, "extras?") {
			ex := map[string]interface{}{}
			for i, n := 0, rapid.IntRange(1, 3).Draw(t, "nex"); i < n; i++ {
				ex[GenString().Draw(t, "exk")] = GenString().Draw(t, "exv")
			}
			m["extras"] = ex
		}
		if rapid.Bool().Draw(t, "birth?") {
			m["birthDate"] = genTime(t)
		}
		if kind == "chat.account" {
			genStrField(t, m, "fullName")
			genStrField(t, m, "password")
			genBoolPtrField(t, m, "isTemporary")
			genBoolPtrField(t, m, "allowAnonymousSender")
			if rapid.Bool().Draw(t, "inbox?") {
				m["inboxSize"] = float64(rapid.IntRange(0, 100000).Draw(t, "inbox"))
			}
		} else {
			genStrField(t, m, "name")
			genStrField(t, m, "group")
			genBoolPtrField(t, m, "isPending")
			genBoolPtrField(t, m, "sharePresence")
			if rapid.Bool().Draw(t, "prio?") {
				m["priority"] = float64(rapid.IntRange(0, 10).Draw(t, "prio"))
			}
		}
	case "custom":
		m["a"] = GenString().Draw(t, "a")
		m["b"] = float64(rapid.IntRange(-1000000, 1000000).Draw(t, "b"))
		if rapid.Bool().Draw(t, "c?") {
			l := []interface{}{}
			for i, n := 0, rapid.IntRange(1, 3).Draw(t, "nc"); i < n; i++ {
				l = append(l, GenString().Draw(t, "c"))
			}
			m["c"] = l
		}
		genBoolPtrField(t, m, "d")
	}
	return m
}

func genTime(t *rapid.T) string {
	y := rapid.IntRange(1970, 2200).Draw(t, "year")
	mo := rapid.IntRange(1, 12).Draw(t, "month")
	d := rapid.IntRange(1, 28).Draw(t, "day")
	h := rapid.IntRange(0, 23).Draw(t, "hour")
	ns := rapid.SampledFrom([]int{0, 1, 500000000, 123456789}).Draw(t, "ns")
	frac := ""
	if ns != 0 {
		frac = fmt.Sprintf(".%09d", ns)
		for frac[len(frac)-1] == '0' {
			frac = frac[:len(frac)-1]
		}
	}
	return fmt.Sprintf("%04d-%02d-%02dT%02d:30:15%sZ", y, mo, d, h, frac)
}

var leafKinds = []string{"text", "json", "ping", "custom", "chat.presence", "chat.receipt", "chat.account", "chat.contact"}

// GenDoc generates a document spec of nesting depth at most maxDepth.
func GenDoc(maxDepth int) *rapid.Generator[*DocSpec] {
	return rapid.Custom(func(t *rapid.T) *DocSpec {
		return genDoc(t, maxDepth, "")
	})
}

func genDoc(t *rapid.T, maxDepth int, forceKind string) *DocSpec {
	kind := forceKind
	if kind == "" {
		// weights: nested kinds get about 45% when depth allows
		if maxDepth > 1 && rapid.IntRange(0, 99).Draw(t, "nest") < 45 {
			kind = rapid.SampledFrom([]string{"container", "collection"}).Draw(t, "nkind")
		} else {
			kind = rapid.SampledFrom(leafKinds).Draw(t, "lkind")
		}
	}
	d := &DocSpec{Kind: kind}
	switch kind {
	case "text":
		d.Text = GenString().Draw(t, "text")
		d.ByValue = rapid.Bool().Draw(t, "byValue")
		if rapid.IntRange(0, 3).Draw(t, "foreign") == 0 {
			m := GenForeignMT(false).Draw(t, "mt")
			d.Declared = &m
		}
	case "json":
		d.JSON = GenJSONObject(2).Draw(t, "json")
		if rapid.IntRange(0, 3).Draw(t, "foreign") == 0 {
			m := GenForeignMT(true).Draw(t, "mt")
			d.Declared = &m
		}
	case "ping":
	case "container":
		d.Inner = genDoc(t, maxDepth-1, "")
	case "collection":
		d.Total = rapid.OneOf(rapid.Just(0), rapid.IntRange(0, 50), rapid.IntRange(-3, 1<<40)).Draw(t, "total")
		n := rapid.IntRange(0, 4).Draw(t, "nitems")
		if n == 0 {
			d.ItemsNil = rapid.Bool().Draw(t, "itemsNil")
			// an empty collection still announces an item type
			proto := genDoc(t, 1, "")
			_, mt, err := proto.Build()
			if err != nil {
				t.Fatalf("generator bug: %v", err)
			}
			d.ItemType = &MTSpec{Type: mt.Type, Subtype: mt.Subtype, Suffix: mt.Suffix}
		} else {
			first := genDoc(t, maxDepth-1, "")
			d.Items = append(d.Items, *first)
			for i := 1; i < n; i++ {
				it := genDoc(t, maxDepth-1, first.Kind)
				it.Declared = first.Declared // all items are announced under one item type
				d.Items = append(d.Items, *it)
			}
		}
	default:
		d.JSON = genChatFields(t, kind)
	}
	return d
}

var (
	Events       = []string{"accepted", "dispatched", "received", "consumed", "failed"}
	Methods      = []string{"get", "set", "delete", "subscribe", "unsubscribe", "observe", "merge"}
	States       = []string{"new", "negotiating", "authenticating", "established", "finishing", "finished", "failed"}
	Statuses     = []string{"success", "failure"}
	Encryptions  = []string{"none", "tls"}
	Compressions = []string{"none", "gzip"}
	Schemes      = []string{"guest", "plain", "key", "transport", "external"}
)

func GenReason() *rapid.Generator[*ReasonSpec] {
	return rapid.Custom(func(t *rapid.T) *ReasonSpec {
		if rapid.IntRange(0, 2).Draw(t, "reason?") == 0 {
			return nil
		}
		return &ReasonSpec{
			Code:        rapid.OneOf(rapid.Just(0), rapid.IntRange(-10, 100), rapid.IntRange(0, 1<<31-1)).Draw(t, "code"),
			Description: GenString().Draw(t, "desc"),
		}
	})
}

var uriPathSeg = rapid.OneOf(
	rapid.StringMatching(`[a-z0-9._~-]{1,8}`),
	rapid.StringMatching(`[a-zA-Z0-9 %!$&'()*+,;=:@é中]{1,8}`),
	rapid.Just("ping"), rapid.Just("%2F"), rapid.Just("a b"),
)

// GenURI generates resource URIs: relative paths and absolute lime:// URIs with owner, query and escapes.
func GenURI() *rapid.Generator[string] {
	return rapid.Custom(func(t *rapid.T) string {
		s := ""
		if rapid.IntRange(0, 3).Draw(t, "abs") == 0 {
			s = "lime://"
			if rapid.Bool().Draw(t, "owner") {
				s += rapid.StringMatching(`[a-z0-9]{1,6}`).Draw(t, "user") + "@"
			}
			s += rapid.StringMatching(`[a-z0-9]{1,8}(\.[a-z]{2,3})?`).Draw(t, "host")
		}
		n := rapid.IntRange(1, 3).Draw(t, "segs")
		for i := 0; i < n; i++ {
			s += "/" + uriPathSeg.Draw(t, "seg")
		}
		if rapid.IntRange(0, 3).Draw(t, "q") == 0 {
			s += "?" + rapid.StringMatching(`[a-z]{1,4}=[a-zA-Z0-9%+ &=é]{0,6}`).Draw(t, "query")
		}
		if rapid.IntRange(0, 7).Draw(t, "f") == 0 {
			s += "#" + rapid.StringMatching(`[a-z0-9]{0,4}`).Draw(t, "frag")
		}
		return s
	})
}

func genSubset(t *rapid.T, label string, from []string) []string {
	n := rapid.IntRange(0, len(from)).Draw(t, label+"N")
	if n == 0 {
		return nil
	}
	out := make([]string, n)
	for i := range out {
		out[i] = rapid.SampledFrom(from).Draw(t, label)
	}
	return out
}

func GenAuth() *rapid.Generator[*AuthSpec] {
	return rapid.Custom(func(t *rapid.T) *AuthSpec {
		a := &AuthSpec{Scheme: rapid.SampledFrom(Schemes).Draw(t, "ascheme")}
		switch a.Scheme {
		case "plain", "key":
			a.A = GenString().Draw(t, "secret")
		case "external":
			a.A = GenString().Draw(t, "token")
			a.B = GenString().Draw(t, "issuer")
		}
		return a
	})
}

// GenEnvelope generates well-formed envelope specs of all five kinds.
func GenEnvelope(maxDepth int) *rapid.Generator[*EnvSpec] {
	return rapid.Custom(func(t *rapid.T) *EnvSpec {
		return genEnvelope(t, maxDepth, "")
	})
}

// GenEnvelopeOfKind restricts the kind.
func GenEnvelopeOfKind(maxDepth int, kind string) *rapid.Generator[*EnvSpec] {
	return rapid.Custom(func(t *rapid.T) *EnvSpec {
		return genEnvelope(t, maxDepth, kind)
	})
}

func genEnvelope(t *rapid.T, maxDepth int, kind string) *EnvSpec {
	if kind == "" {
		kind = rapid.SampledFrom(AllKinds).Draw(t, "kind")
	}
	s := &EnvSpec{Kind: kind}
	opt := rapid.IntRange(0, 31).Draw(t, "optmask")
	if opt&1 != 0 {
		s.ID = rapid.OneOf(rapid.StringMatching(`[0-9a-f]{8}-[0-9a-f]{4}`), GenNonEmpty()).Draw(t, "id")
	}
	if opt&2 != 0 {
		s.From = GenNode().Draw(t, "from")
	}
	if opt&4 != 0 {
		s.PP = GenNode().Draw(t, "pp")
	}
	if opt&8 != 0 {
		s.To = GenNode().Draw(t, "to")
	}
	if opt&16 != 0 {
		n := rapid.IntRange(0, 3).Draw(t, "nmeta")
		s.Metadata = map[string]string{}
		for i := 0; i < n; i++ {
			s.Metadata[GenString().Draw(t, "mk")] = GenString().Draw(t, "mv")
		}
	} else {
		s.MetaNil = rapid.Bool().Draw(t, "metaNil")
	}
	switch kind {
	case "message":
		s.Doc = genDoc(t, maxDepth, "")
	case "notification":
		s.Event = rapid.SampledFrom(Events).Draw(t, "event")
		s.Reason = GenReason().Draw(t, "reason")
	case "request":
		s.Method = rapid.SampledFrom(Methods).Draw(t, "method")
		s.HasURI = true // "URI ... should never be nil"
		s.URI = GenURI().Draw(t, "uri")
		if rapid.Bool().Draw(t, "res?") {
			s.Doc = genDoc(t, maxDepth, "")
		}
	case "response":
		s.Method = rapid.SampledFrom(Methods).Draw(t, "method")
		s.Status = rapid.SampledFrom(Statuses).Draw(t, "status")
		if s.Status == "failure" {
			s.Reason = GenReason().Draw(t, "reason")
		}
		if rapid.Bool().Draw(t, "res?") {
			s.Doc = genDoc(t, maxDepth, "")
		}
	case "session":
		s.State = rapid.SampledFrom(States).Draw(t, "state")
		sm := rapid.IntRange(0, 127).Draw(t, "sesmask")
		if sm&1 != 0 {
			s.EncOpts = genSubset(t, "encOpt", Encryptions)
		}
		if sm&2 != 0 {
			s.CompOpts = genSubset(t, "compOpt", Compressions)
		}
		if sm&4 != 0 {
			s.SchemeOpts = genSubset(t, "schemeOpt", Schemes)
		}
		if sm&8 != 0 {
			s.Enc = rapid.SampledFrom(Encryptions).Draw(t, "enc")
		}
		if sm&16 != 0 {
			s.Comp = rapid.SampledFrom(Compressions).Draw(t, "comp")
		}
		if sm&32 != 0 {
			s.Auth = GenAuth().Draw(t, "auth")
			s.Scheme = s.Auth.Scheme // as SetAuthentication does
		} else if sm&64 != 0 {
			s.Scheme = rapid.SampledFrom(Schemes).Draw(t, "scheme")
		}
		if s.State == "failed" || rapid.IntRange(0, 5).Draw(t, "sreason") == 0 {
			s.Reason = GenReason().Draw(t, "reason")
		}
	}
	return s
}
