package harness

import (
	"context"
	"fmt"
	"strings"
	"sync"
	"testing"
	"time"

	lime "github.com/takenet/lime-go"
)

// Real sockets, wall-clock time. Bounds: promptly at a deadline, one poll interval (5 s) for a cancellation on TCP;
// 1 s of slack on top; a late case is re-run twice in isolation and reported only if it is late every time.

type c15RealCase struct {
	Op   string `json:"op"`   // transport.receive | transport.send | listener.accept
	Kind string `json:"kind"` // tcp | tcp-tls | ws | wss
	End  string `json:"end"`  // deadline | cancel
	AtMs int    `json:"atMs"`
}

type c15RealObs struct {
	Returned  bool   `json:"returned"`
	Blocked   bool   `json:"blocked"`
	LatencyMs int64  `json:"latencyMs"`
	Err       string `json:"err,omitempty"`
	Skip      string `json:"skip,omitempty"`
}

func c15RealBound(c *c15RealCase) time.Duration {
	if c.End != "deadline" && strings.HasPrefix(c.Kind, "tcp") && c.Op != "listener.accept" {
		return 5 * time.Second
	}
	return 0
}

func runC15Real(c *c15RealCase) *c15RealObs {
	obs := &c15RealObs{}
	var op func(ctx context.Context) error
	var cleanup func()
	refill := false
	switch c.Op {
	case "listener.accept":
		l, _, err := NewRealListener(c.Kind, 0)
		if err != nil {
			obs.Skip = err.Error()
			return obs
		}
		op = func(ctx context.Context) error { _, err := l.Accept(ctx); return err }
		cleanup = func() { _ = l.Close() }
	default:
		p, err := NewRealPair(c.Kind)
		if err != nil {
			obs.Skip = err.Error()
			return obs
		}
		cleanup = p.Close
		if c.Op == "transport.receive" {
			op = func(ctx context.Context) error { _, err := TReceive(ctx, p.Client); return err }
		} else {
			refill = true
			i := 0
			op = func(ctx context.Context) error {
				i++
				m := &lime.Message{}
				m.ID = fmt.Sprint("fill-", i)
				m.SetContent(lime.TextDocument(strings.Repeat("z", 256<<10)))
				return p.Client.Send(ctx, m)
			}
		}
	}
	defer cleanup()
	at := time.Duration(c.AtMs) * time.Millisecond
	bound := c15RealBound(c)
	for attempt := 0; attempt < 400; attempt++ {
		start := time.Now()
		var ctx context.Context
		var cancel context.CancelFunc
		switch c.End {
		case "deadline":
			ctx, cancel = context.WithDeadline(context.Background(), start.Add(at))
		case "cancel+deadline":
			ctx, cancel = context.WithDeadline(context.Background(), start.Add(time.Minute))
		default:
			ctx, cancel = context.WithCancel(context.Background())
		}
		done := make(chan opResult, 1)
		go func() { err := op(ctx); done <- opResult{err, time.Now()} }()
		tEnd := start.Add(at)
		// still pending shortly before the end?
		select {
		case r := <-done:
			cancel()
			if refill && r.err == nil {
				continue
			}
			obs.Returned = true
			if r.err != nil {
				obs.Err = r.err.Error()
			}
			return obs // did not block
		case <-time.After(at - 20*time.Millisecond):
		}
		obs.Blocked = true
		time.Sleep(time.Until(tEnd))
		if c.End != "deadline" {
			cancel()
			tEnd = time.Now()
		}
		select {
		case r := <-done:
			obs.Returned = true
			obs.LatencyMs = r.at.Sub(tEnd).Milliseconds()
			if r.err != nil {
				obs.Err = r.err.Error()
			}
		case <-time.After(bound + 8*time.Second):
		}
		cancel()
		return obs
	}
	obs.Skip = "buffers never filled"
	return obs
}

type opResult struct {
	err error
	at  time.Time
}

func TestC15Real(t *testing.T) {
	rec := NewRecorder("C15", "TestC15Real")
	defer rec.Finish(t)
	var cases []*c15RealCase
	for _, kind := range []string{"tcp", "tcp-tls", "ws", "wss"} {
		for _, end := range []string{"deadline", "cancel", "cancel+deadline"} {
			cases = append(cases, &c15RealCase{Op: "transport.receive", Kind: kind, End: end, AtMs: 150})
			cases = append(cases, &c15RealCase{Op: "transport.send", Kind: kind, End: end, AtMs: 200})
			if kind == "tcp" || kind == "ws" {
				cases = append(cases, &c15RealCase{Op: "listener.accept", Kind: kind, End: end, AtMs: 150})
			}
		}
	}
	if Thorough() {
		for _, kind := range []string{"tcp", "tcp-tls", "ws", "wss"} {
			for _, at := range []int{60, 900, 2600} {
				for _, end := range []string{"deadline", "cancel"} {
					cases = append(cases, &c15RealCase{Op: "transport.receive", Kind: kind, End: end, AtMs: at})
				}
			}
		}
	}
	results := make([]*c15RealObs, len(cases))
	var wg sync.WaitGroup
	sem := make(chan struct{}, 12)
	for i, c := range cases {
		wg.Add(1)
		go func(i int, c *c15RealCase) {
			defer wg.Done()
			sem <- struct{}{}
			defer func() { <-sem }()
			results[i] = runC15Real(c)
		}(i, c)
	}
	wg.Wait()
	for i, c := range cases {
		obs := results[i]
		o := &Outcome{}
		o.Class("real:op=" + c.Op)
		o.Class("real:kind=" + c.Kind)
		o.Class("real:end=" + c.End)
		if obs.Skip != "" {
			o.Class("real:skipped")
			rec.Eval(c, o)
			continue
		}
		o.NonTrivial = obs.Blocked
		limit := c15RealBound(c) + time.Second
		late := func(ob *c15RealObs) bool { return !ob.Returned || time.Duration(ob.LatencyMs)*time.Millisecond > limit }
		if obs.Blocked && late(obs) {
			// re-run twice in isolation before reporting
			again1, again2 := runC15Real(c), runC15Real(c)
			if late(again1) && late(again2) && again1.Blocked && again2.Blocked {
				key := c.Op + "/" + c.Kind + "/" + c.End
				if !obs.Returned {
					o.Fail("C15/never-returned/"+key, "%s on %s had not returned %v + 8 s after its context ended (%s), three times", c.Op, c.Kind, c15RealBound(c), c.End)
				} else {
					o.Fail("C15/late/"+key, "%s on %s returned %d / %d / %d ms after its context ended (%s); bound %v + 1 s slack", c.Op, c.Kind, obs.LatencyMs, again1.LatencyMs, again2.LatencyMs, c.End, c15RealBound(c))
				}
			} else {
				o.Class("real:late-once-not-reproduced")
			}
		}
		// On real sockets "blocked" is only an approximation (still pending 20 ms before the end): an operation that
		// completes successfully within the bound is not a violation, so a nil result is not judged here.
		rec.Eval(c, o)
	}
}
