//go:build go1.25

package harness

// Judges (one per property) over an observed server-side handshake, and the case generators they share.

import (
	"fmt"
	"regexp"
	"runtime"
	"strings"

	lime "github.com/takenet/lime-go"
	"pgregory.net/rapid"
)

func stepOf(state string) int { return lime.SessionState(state).Step() }

func observedNegotiation(obs *SrvObs) bool {
	return len(obs.Got) > 0 && obs.Got[0].Env["state"] == "negotiating" &&
		(obs.Got[0].Env["encryptionOptions"] != nil || obs.Got[0].Env["compressionOptions"] != nil)
}

// what the authentication callback sees for an authenticating symbol
func presented(s *CSym) (scheme, cred string) {
	if s.Cred == "-" || s.Scheme == "" {
		return "", ""
	}
	if s.WrongType || s.Scheme == "guest" || s.Scheme == "transport" {
		return s.Scheme, ""
	}
	return s.Scheme, s.Cred
}

func classifySrvCase(c *SrvCase, m *ModelResult, o *Outcome) {
	o.Class("transport=" + c.Cfg.Transport)
	o.Class("mode=" + c.Cfg.Mode)
	o.Class("model=" + m.Status)
	if m.Violation != "" {
		o.Class("violation=" + m.Violation)
	}
	if m.Negotiated {
		o.Class("negotiated")
	}
	if m.TLSOn {
		o.Class("tls-upgraded")
	}
	if m.ReachedAuth {
		o.Class("reached-auth")
	}
	o.Class(fmt.Sprintf("scriptlen=%d", len(c.Script)))
}

// judgeC07: order grammar, single id, sender, monotone state, fail-closed on client violations.
func judgeC07(c *SrvCase, obs *SrvObs, o *Outcome) *ModelResult {
	m := RunServerModel(c, observedNegotiation(obs))
	if obs.PanicMsg != "" {
		o.Fail("C07/panic", "EstablishSession panicked: %s", obs.PanicMsg)
		return m
	}
	sid := obs.Sid
	if c.Cfg.Mode != "server" {
		sid = fixedSid
	}
	got := obs.Got
	for i, e := range m.Exp {
		if i >= len(got) {
			what := e.State
			if e.State == "failed" && m.Violation != "" {
				o.Fail("C07/no-failed-answer/"+m.Violation, "client violation %q must be answered with a failed session; the server sent nothing (envelopes so far: %d)", m.Violation, len(got))
			} else {
				o.Fail("C07/missing-envelope/"+what, "expected envelope #%d (%s) was never sent; got %d envelopes", i, what, len(got))
			}
			return m
		}
		if d := matchExp(e, got[i].Env, sid); d != "" {
			o.Fail("C07/envelope-mismatch/"+e.State+"/"+mismatchClass(d), "envelope #%d: %s | got %s", i, d, short(got[i].Env))
			return m
		}
	}
	extra := got[len(m.Exp):]
	if len(extra) > 0 {
		// a server may answer an aborted exchange (non-session input, callback error, silence) with one failed session
		okExtra := (m.Status == "aborted" || m.Status == "pending") && len(extra) == 1 && extra[0].Env["state"] == "failed"
		// after established: at most one finished or failed
		if m.Status == "established" && len(extra) == 1 && (extra[0].Env["state"] == "finished" || extra[0].Env["state"] == "failed") {
			okExtra = true
		}
		if okExtra {
			if extra[0].Env["id"] != sid || extra[0].Env["from"] != NodeText(srvNode) {
				o.Fail("C07/envelope-mismatch/failed/id-or-from", "trailing failed session with wrong id/from: %s", short(extra[0].Env))
			}
		} else {
			o.Fail("C07/unexpected-envelope/after-"+m.Status+"/"+fmt.Sprint(extra[0].Env["state"]), "model status %s, yet the server also sent %s", m.Status, short(extra[0].Env))
		}
	}
	for i := 1; i < len(obs.States); i++ {
		if stepOf(obs.States[i]) < stepOf(obs.States[i-1]) {
			o.Fail("C07/state-regressed", "ServerChannel.State() went %s -> %s", obs.States[i-1], obs.States[i])
			break
		}
	}
	if m.Status == "failed" && m.Violation != "" && !obs.ServerClosed {
		o.Fail("C07/not-closed-after-failed/"+m.Violation, "after answering the violation with failed, the server did not close the connection within the bound")
	}
	return m
}

var numRe = regexp.MustCompile(`[0-9a-f]{8}-[0-9a-f-]{20,}|"[^"]*"|\[[^\]]*\]`)

func mismatchClass(d string) string {
	d = numRe.ReplaceAllString(d, "_")
	if i := strings.IndexAny(d, ",|"); i > 0 {
		d = d[:i]
	}
	d = strings.TrimSpace(d)
	if len(d) > 50 {
		d = d[:50]
	}
	return d
}

// judgeC03: established (state, envelope or callback) implies a successful, matching authentication and registration.
func judgeC03(c *SrvCase, obs *SrvObs, o *Outcome) {
	estEnv := M(nil)
	estStep := len(c.Script)
	for _, g := range obs.Got {
		if g.Env["state"] == "established" {
			estEnv = g.Env
			estStep = g.Step
		}
	}
	estState := obs.Established || obs.FinalState == "established"
	for _, s := range obs.States {
		if s == "established" {
			estState = true
		}
	}
	estCb := false
	for _, e := range obs.Log {
		if e.Call == "established" {
			if e.State != "established" {
				// one root cause, one signature: the callback itself is the (false) claim of establishment
				o.Fail("C03/established-callback/state="+e.State, "the Established callback fired for a session whose state is %s", e.State)
			} else {
				estCb = true
			}
		}
	}
	for _, e := range obs.Log {
		if e.Call == "auth" && e.Scheme != "" && !containsStr(offeredSchemes(c, obs), e.Scheme) {
			o.Fail("C03/auth-called-with-unoffered-scheme", "Authenticate ran for scheme %s, offered %v", e.Scheme, offeredSchemes(c, obs))
		}
	}
	if !(estEnv != nil || estState || estCb) {
		return
	}
	o.Class("established-observed")
	if c.End == "close-now" && estStep == len(c.Script) && len(c.Script) >= 2 {
		// the last two envelopes were sent back to back before the peer vanished: an established envelope collected afterwards
		// may answer either of them. The claim must hold for one of the two readings.
		o1 := &Outcome{}
		judgeC03Established(c, obs, o1, estEnv, estStep)
		if len(o1.Violations) == 0 {
			return
		}
		o2 := &Outcome{}
		judgeC03Established(c, obs, o2, estEnv, estStep-1)
		if len(o2.Violations) == 0 {
			return
		}
		o.Violations = append(o.Violations, o1.Violations...)
		return
	}
	judgeC03Established(c, obs, o, estEnv, estStep)
}

// judgeC03Established: the session was established after the peer's first estStep envelopes; what is that claim backed by?
func judgeC03Established(c *SrvCase, obs *SrvObs, o *Outcome, estEnv M, estStep int) {
	// the peer's latest authenticating envelope
	var last *CSym
	for i := range c.Script {
		if i < len(obs.Sent) && i < estStep && c.Script[i].Kind == "session" && c.Script[i].State == "authenticating" {
			last = &c.Script[i]
		}
	}
	if last == nil {
		o.Fail("C03/established-without-authenticating", "a session was established although the peer never sent an authenticating envelope")
		return
	}
	ps, pc := presented(last)
	ident := IdentityText(last.From.Node().Identity)
	// the last auth call must be the successful one for exactly what the peer presented
	var authIdx = -1
	for i, e := range obs.Log {
		if e.Call == "auth" {
			authIdx = i
		}
	}
	if authIdx < 0 {
		o.Fail("C03/established-without-auth-call", "a session was established without any call of the authentication callback")
		return
	}
	a := obs.Log[authIdx]
	if a.Result != "member" && a.Result != "authority" && a.Result != "root" {
		o.Fail("C03/established-after-"+a.Result, "established although the last authentication result was %q", a.Result)
	}
	if a.Identity != ident || a.Scheme != ps || a.Cred != pc {
		o.Fail("C03/auth-args-mismatch", "authentication ran for (%q,%q,%q) but the peer presented (%q,%q,%q)", a.Identity, a.Scheme, a.Cred, ident, ps, pc)
	}
	if off := offeredSchemes(c, obs); !containsStr(off, last.Scheme) {
		o.Fail("C03/established-with-unoffered-scheme", "established under scheme %q, offered %v (configured %v)", last.Scheme, off, c.Cfg.Schemes)
	}
	regNode := ""
	found := false
	for _, e := range obs.Log[authIdx+1:] {
		if e.Call == "register" {
			found = true
			regNode = e.Node
			if e.Result == "error" {
				o.Fail("C03/established-after-register-error", "established although registration failed")
			}
			if e.Candidate != NodeText(last.From.Node()) {
				o.Fail("C03/register-candidate-mismatch", "register got candidate %q, the peer's from is %q", e.Candidate, NodeText(last.From.Node()))
			}
		}
	}
	if !found {
		o.Fail("C03/established-without-register", "established without a registration callback after the successful authentication")
		return
	}
	if estEnv != nil {
		to, _ := estEnv["to"].(string)
		if to != regNode {
			o.Fail("C03/established-announces-other-node", "established envelope announces %q, registration supplied %q", to, regNode)
		}
		if estEnv["from"] != NodeText(srvNode) {
			o.Fail("C03/established-from", "established envelope from %v", estEnv["from"])
		}
	}
	if obs.RemoteNode != regNode && obs.FinalState == "established" {
		o.Fail("C03/remote-node-mismatch", "RemoteNode()=%q, registration supplied %q", obs.RemoteNode, regNode)
	}
}

// servingGoroutines counts goroutines that serve a connection (handshake, dispatch loop, receiver).
var stackBuf = make([]byte, 1<<20)

func servingGoroutines() (int, string) {
	buf := stackBuf
	n := runtime.Stack(buf, true)
	cnt := 0
	which := ""
	for _, g := range strings.Split(string(buf[:n]), "\n\n") {
		if strings.Contains(g, "lime-go.(*Server).handleChannel") || strings.Contains(g, "lime-go.receiveFromTransport") ||
			strings.Contains(g, "lime-go.(*ServerChannel).EstablishSession") ||
			// ... and whatever is still inside the transport of the (one) connection of the case
			strings.Contains(g, "lime-go.(*ctxConn).") || strings.Contains(g, "lime-go.(*tcpTransport).") {
			cnt++
			if which == "" {
				which = truncate(g, 700)
			}
		}
	}
	return cnt, which
}

// ---- generators ----

var cfgLattice = struct {
	Schemes [][]string
	Enc     [][]string
}{
	Schemes: [][]string{{"guest"}, {"plain"}, {"plain", "key"}, {"guest", "plain", "external"}, {"transport"}, {"guest", "plain", "key", "transport", "external"}},
	Enc:     [][]string{{"none"}, {"none", "tls"}, {"tls"}},
}

// standardAuth: c1 member, c2 unknown, c3 roundtrip x2 then member, c4 error, c5 empty role, c6 roundtrip then unknown, c7 authority.
func standardAuth(schemes []string) map[string][]string {
	t := map[string][]string{}
	for _, s := range schemes {
		switch s {
		case "guest", "transport":
			t[s+":"] = []string{"member"}
		default:
			t[s+":c1"] = []string{"member"}
			t[s+":c2"] = []string{"unknown"}
			t[s+":c3"] = []string{"roundtrip", "roundtrip", "member"}
			t[s+":c4"] = []string{"error"}
			t[s+":c5"] = []string{"empty"}
			t[s+":c6"] = []string{"roundtrip", "unknown"}
			t[s+":c7"] = []string{"authority"}
		}
	}
	return t
}

var peerFrom = &NodeSpec{Name: "alice", Domain: "cli.example", Instance: "home"}

func unofferedScheme(schemes []string) string {
	for _, s := range Schemes {
		if !containsStr(schemes, s) {
			return s
		}
	}
	return "bogus"
}

// srvAlphabet: the representative client alphabet for a configuration (DESIGN.md appendix A).
func srvAlphabet(cfg *SrvCfg, full bool) []CSym {
	ses := func(state, id string) CSym { return CSym{Kind: "session", State: state, ID: id, From: peerFrom} }
	var a []CSym
	a = append(a, ses("new", "none"), ses("new", "other"))
	for _, ch := range [][2]string{{"none", "none"}, {"none", "tls"}, {"gzip", "none"}, {"", ""}, {"none", "bogus"}, {"none", ""}, {"", "none"}, {"", "tls"}} {
		s := ses("negotiating", "sid")
		s.Comp, s.Enc = ch[0], ch[1]
		if ch[1] == "tls" {
			s.DoTLS = true
			a = append(a, s)
			s.DoTLS = false
		}
		a = append(a, s)
	}
	wid := ses("negotiating", "other")
	wid.Comp, wid.Enc = "none", "none"
	a = append(a, wid)
	// a valid choice addressed to something other than the server's full node (its identity alone, or somebody else)
	for _, to := range []*NodeSpec{{Name: "postmaster", Domain: "srv.example"}, {Name: "mallory", Domain: "elsewhere.example", Instance: "x"}} {
		s := ses("negotiating", "sid")
		s.Comp, s.Enc, s.To = "none", "none", to
		a = append(a, s)
		s.Enc, s.DoTLS = "tls", true
		a = append(a, s)
	}
	for si, sch := range cfg.Schemes {
		creds := []string{"c1", "c2"}
		if si == 0 && full {
			creds = []string{"c1", "c2", "c3", "c4", "c5", "c6", "c7", "-"}
		} else if si == 0 {
			creds = []string{"c1", "c2", "c3", "c4", "-"}
		}
		if sch == "guest" || sch == "transport" {
			creds = []string{"", "-"}
		}
		for _, cr := range creds {
			s := ses("authenticating", "sid")
			s.Scheme, s.Cred = sch, cr
			a = append(a, s)
		}
	}
	// a reply that is right in everything but its state, which lags behind the stage the server is at
	for _, st := range []string{"new", "negotiating"} {
		lag := ses(st, "sid")
		lag.Scheme, lag.Cred, lag.ForceAuth = cfg.Schemes[0], "c1", true
		if lag.Scheme == "guest" || lag.Scheme == "transport" {
			lag.Cred = ""
		}
		a = append(a, lag)
	}
	lagc := ses("new", "sid")
	lagc.Comp, lagc.Enc = "none", "none"
	a = append(a, lagc)
	// the same good credentials with a delegation node that names somebody else
	pps := ses("authenticating", "sid")
	pps.Scheme, pps.Cred = cfg.Schemes[0], "c1"
	if pps.Scheme == "guest" || pps.Scheme == "transport" {
		pps.Cred = ""
	}
	pps.PP = &NodeSpec{Name: "mallory", Domain: "cli.example", Instance: "home"}
	a = append(a, pps)
	u := ses("authenticating", "sid")
	u.Scheme, u.Cred = unofferedScheme(cfg.Schemes), "c1"
	if u.Scheme == "guest" || u.Scheme == "transport" {
		u.Cred = ""
	}
	if u.Scheme == "bogus" {
		u.Cred = "-" // authentication data of an unknown scheme cannot be decoded at all
	}
	a = append(a, u)
	ns := ses("authenticating", "sid")
	ns.Scheme, ns.Cred = "", "-"
	a = append(a, ns)
	oid := ses("authenticating", "other")
	oid.Scheme, oid.Cred = cfg.Schemes[0], "c1"
	a = append(a, oid)
	nid := ses("authenticating", "none")
	nid.Scheme, nid.Cred = cfg.Schemes[0], "c1"
	a = append(a, nid)
	wt := ses("authenticating", "sid")
	wt.Scheme, wt.Cred, wt.WrongType = cfg.Schemes[0], "c1", true
	a = append(a, wt)
	for _, st := range []string{"established", "finishing", "finished", "failed"} {
		a = append(a, ses(st, "sid"))
	}
	a = append(a, CSym{Kind: "message", ID: "none"}, CSym{Kind: "request", ID: "none"}, CSym{Kind: "garbage"}, CSym{Kind: "malformed"})
	if full {
		a = append(a, CSym{Kind: "notification", ID: "none"}, CSym{Kind: "response", ID: "none"})
	}
	return a
}

// inprocAlphabet keeps the symbols that can be sent on the in-process transport (library envelope values, no bytes).
func inprocAlphabet(a []CSym) []CSym {
	var out []CSym
	for i := range a {
		if InprocExpressible(&a[i]) {
			out = append(out, a[i])
		}
	}
	return out
}

// enumScripts enumerates all scripts up to maxDepth over the alphabet, not extending a script past a terminal model
// state (model-guided pruning). visit receives a fresh copy.
func enumScripts(cfg SrvCfg, alphabet []CSym, maxDepth int, negotiates bool, visit func(c *SrvCase)) {
	var rec func(prefix []CSym)
	rec = func(prefix []CSym) {
		if len(prefix) > 0 {
			for _, end := range []string{"eof"} {
				c := &SrvCase{Cfg: cfg, Script: append([]CSym(nil), prefix...), End: end}
				visit(c)
			}
		}
		if len(prefix) >= maxDepth {
			return
		}
		if len(prefix) > 0 {
			m := RunServerModel(&SrvCase{Cfg: cfg, Script: prefix}, negotiates)
			if m.Status != "pending" {
				return
			}
		}
		for _, s := range alphabet {
			rec(append(append([]CSym(nil), prefix...), s))
		}
	}
	rec(nil)
}

// implNegotiates predicts whether the implementation starts with a negotiation stage (used only to guide generation).
func implNegotiates(cfg *SrvCfg) bool {
	req, c10 := NegotiationRequired(cfg)
	return req || c10
}

func genSrvCfg(rt *rapid.T, modes []string) SrvCfg {
	cfg := SrvCfg{
		Transport: rapid.SampledFrom([]string{"tcp", "tcp-tls", "tcp-tls", "inproc"}).Draw(rt, "transport"),
		Comp:      rapid.SampledFrom([][]string{{"none"}, {"none", "gzip"}, {"gzip", "none"}}).Draw(rt, "comp"),
		Enc:       rapid.SampledFrom(cfgLattice.Enc).Draw(rt, "enc"),
		Schemes:   rapid.SampledFrom(cfgLattice.Schemes).Draw(rt, "schemes"),
		Register:  rapid.SampledFrom([]string{"echo", "echo", "assign", "assign", "error"}).Draw(rt, "register"),
		Mode:      rapid.SampledFrom(modes).Draw(rt, "mode"),
		CtxErr:    rapid.Bool().Draw(rt, "ctxErr"),
	}
	if cfg.Transport == "tcp-tls" {
		cfg.TLSVia = rapid.SampledFrom([]string{"", "", "getcertificate", "getconfig"}).Draw(rt, "tlsVia")
	}
	if cfg.Transport == "inproc" {
		// the in-process transport supports neither compression nor encryption: there is nothing to negotiate
		cfg.Comp, cfg.Enc = []string{"none"}, []string{"none"}
	}
	// authentication table: per (scheme, credential) a drawn outcome list
	cfg.Auth = map[string][]string{}
	outcomes := []string{"member", "authority", "root", "unknown", "empty", "roundtrip", "error"}
	for _, s := range cfg.Schemes {
		creds := []string{"c1", "c2", "c3"}
		if s == "guest" || s == "transport" {
			creds = []string{""}
		}
		for _, cr := range creds {
			n := rapid.IntRange(1, 3).Draw(rt, "rounds")
			var l []string
			for i := 0; i < n; i++ {
				l = append(l, rapid.SampledFrom(outcomes).Draw(rt, "outcome"))
			}
			cfg.Auth[s+":"+cr] = l
		}
	}
	return cfg
}

func genSrvCase(rt *rapid.T, modes []string) *SrvCase {
	cfg := genSrvCfg(rt, modes)
	alpha := srvAlphabet(&cfg, true)
	if cfg.Transport == "inproc" {
		alpha = inprocAlphabet(alpha)
	}
	c := &SrvCase{Cfg: cfg, End: rapid.SampledFrom([]string{"eof", "eof", "eof", "silence"}).Draw(rt, "end")}
	n := rapid.IntRange(1, 8).Draw(rt, "len")
	neg := implNegotiates(&cfg)
	for i := 0; i < n; i++ {
		// bias towards symbols that keep the handshake going
		var s CSym
		if rapid.IntRange(0, 99).Draw(rt, "progress") < 65 {
			m := RunServerModel(&SrvCase{Cfg: cfg, Script: c.Script}, neg)
			var cands []CSym
			for _, x := range alpha {
				m2 := RunServerModel(&SrvCase{Cfg: cfg, Script: append(append([]CSym(nil), c.Script...), x)}, neg)
				if m.Status == "pending" && (m2.Status == "pending" || m2.Status == "established") && len(m2.Exp) > len(m.Exp) {
					cands = append(cands, x)
				}
			}
			if len(cands) > 0 {
				s = rapid.SampledFrom(cands).Draw(rt, "sym")
			} else {
				s = rapid.SampledFrom(alpha).Draw(rt, "sym")
			}
		} else {
			s = rapid.SampledFrom(alpha).Draw(rt, "sym")
		}
		if s.Kind == "session" && rapid.IntRange(0, 3).Draw(rt, "fromvar") == 0 {
			s.From = GenNode().Draw(rt, "from")
		}
		if s.Kind == "session" && rapid.IntRange(0, 4).Draw(rt, "ppvar") == 0 {
			s.PP = &NodeSpec{Name: "mallory", Domain: "cli.example", Instance: "home"}
			if rapid.Bool().Draw(rt, "ppgen") {
				s.PP = GenNode().Draw(rt, "pp")
			}
		}
		c.Script = append(c.Script, s)
		if s.Kind == "session" && s.State == "negotiating" && s.Enc == "tls" && s.DoTLS && rapid.IntRange(0, 2).Draw(rt, "glue") == 0 {
			// a peer that pipelines: cleartext credentials in the same write as its choice of tls
			var auths []CSym
			for _, x := range alpha {
				if x.Kind == "session" && x.State == "authenticating" && x.ID == "sid" && decodableSym(&x) {
					auths = append(auths, x)
				}
			}
			if len(auths) > 0 {
				g := rapid.SampledFrom(auths).Draw(rt, "glued")
				g.Glued = true
				c.Script = append(c.Script, g)
				i++
			}
		}
	}
	return c
}

// judgeC14: a handshake that fails on a serving endpoint releases the connection, its goroutines, and fires no callback.
func judgeC14(c *SrvCase, obs *SrvObs, o *Outcome) {
	m := RunServerModel(c, observedNegotiation(obs))
	classifySrvCase(c, m, o)
	o.Class("end=" + c.End)
	if c.Cfg.CutInAuth {
		for _, e := range obs.Log {
			if e.Call != "auth" {
				continue
			}
			// the peer's connection was reset while the server was busy with its credentials: whatever the callback answers,
			// the reply cannot be written, nothing is established, and the connection and its goroutines are released
			cause := "peer-reset-during-authentication"
			o.Class("cause=" + cause)
			o.NonTrivial = true
			if !obs.ServerClosed {
				o.Fail("C14/not-closed/"+cause, "the peer was reset while Authenticate ran, and the server did not close its side of the connection within the bound")
			}
			if obs.Serving > 0 {
				o.Fail("C14/goroutine-left/"+cause, "%d goroutine(s) still serving the connection after the bound: %s", obs.Serving, obs.ServingStack)
			}
			for _, e := range obs.Log {
				if e.Call == "established" || e.Call == "finished" {
					o.Fail("C14/callback-on-failed-handshake/"+e.Call, "the %s callback fired for a handshake that failed (%s)", e.Call, cause)
				}
			}
			return
		}
	}
	// A handshake has failed when the model ends failed/aborted, or when the peer vanished while the server was waiting.
	// A peer that merely stays silent has not failed (a Server imposes no handshake timeout of its own).
	failing := m.Status == "failed" || m.Status == "aborted" || (m.Status == "pending" && (c.End == "eof" || c.End == "cut" || c.End == "close-now"))
	if c.End == "close-now" && len(c.Script) > 0 {
		failing = true // the peer was gone before the server could answer its last envelope
	}
	for _, g := range obs.Got {
		if g.Env["state"] == "established" {
			// the peer was told the session is established: whatever happens afterwards is the end of an established
			// session (C13), not a failed handshake
			return
		}
	}
	// the same when the peer did not stay to read the answer (it vanished right after sending more): a prefix of its script
	// completes the handshake, so the callbacks are those of a session that was established and then ended
	for i := 1; i <= len(c.Script); i++ {
		if RunServerModel(&SrvCase{Cfg: c.Cfg, Script: c.Script[:i]}, observedNegotiation(obs)).Status == "established" {
			// ... provided the server did write its established envelope (visible in the capture of a cleartext connection): a
			// handshake whose last envelope could not be sent has not established anything
			if c.Cfg.Transport != "inproc" && !obs.PeerTLS && !strings.Contains(obs.Cleartext, `"state":"established"`) {
				o.Class("established-envelope-never-written")
				break
			}
			o.Class("established-before-the-peer-vanished")
			return
		}
	}
	if !failing {
		return
	}
	cause := m.Status
	switch {
	case m.Violation != "":
		cause = "protocol-violation"
	case m.Status == "failed":
		cause = "rejected-credentials"
	case c.End == "close-now":
		cause = "peer-vanished-before-answer"
	case m.Status == "pending" && (c.End == "eof" || c.End == "cut"):
		cause = "peer-vanished"
		if c.End == "cut" {
			cause = "peer-reset"
		}
	case m.Status == "pending" && c.End == "silence":
		cause = "peer-silent"
	case m.Status == "aborted":
		cause = abortCause(c)
	}
	if cause == "upgrade-failed" && c.End == "wait" {
		return // the client chose tls and is silent: the upgrade has not failed yet (it does after the 30 s fallback deadline)
	}
	o.Class("cause=" + cause)
	o.NonTrivial = len(c.Script) >= 2 || cause != "protocol-violation"
	if obs.PeerErr != "" && strings.HasPrefix(obs.PeerErr, "dial") {
		return
	}
	if !obs.ServerClosed {
		o.Fail("C14/not-closed/"+cause, "handshake failed (%s) but the server did not close its side of the connection within the bound (peer end=%s)", cause, c.End)
	}
	if obs.Serving > 0 {
		o.Fail("C14/goroutine-left/"+cause, "%d goroutine(s) still serving the connection after the bound: %s", obs.Serving, obs.ServingStack)
	}
	for _, e := range obs.Log {
		if e.Call == "established" || e.Call == "finished" {
			o.Fail("C14/callback-on-failed-handshake/"+e.Call, "the %s callback fired for a handshake that failed (%s)", e.Call, cause)
		}
	}
	if (cause == "protocol-violation" || cause == "rejected-credentials") && c.End == "wait" && !obs.PeerSawEOF {
		o.Fail("C14/refused-client-left-waiting/"+cause, "the refused client never observed the end of its connection")
	}
}

func abortCause(c *SrvCase) string {
	m0 := &SrvCase{Cfg: c.Cfg}
	for i := range c.Script {
		m0.Script = c.Script[:i+1]
		if RunServerModel(m0, implNegotiates(&c.Cfg)).Status == "aborted" {
			s := c.Script[i]
			switch {
			case s.Kind == "garbage" || s.Kind == "malformed" || !decodableSym(&s):
				return "undecodable-input"
			case s.Kind != "session":
				return "non-session-input"
			case s.State == "negotiating":
				return "upgrade-failed"
			default:
				ps, pc := presented(&s)
				if authOutcome(&c.Cfg, ps, pc, 0) == "error" || strings.Contains(strings.Join(c.Cfg.Auth[ps+":"+pc], ","), "error") {
					return "auth-callback-error"
				}
				return "register-callback-error"
			}
		}
	}
	return "aborted"
}

// bubbleLeftovers lists the goroutines of the current synctest bubble other than the caller (call it at the very end of a
// case, after cleanup and after letting the release bound pass): whatever is still there would outlive the case.
func bubbleLeftovers() (lib []string, other []string) {
	n := runtime.Stack(stackBuf, true)
	for i, g := range strings.Split(string(stackBuf[:n]), "\n\n") {
		if i == 0 || !strings.Contains(g, "synctest bubble") {
			continue // i == 0 is the calling goroutine
		}
		if strings.Contains(g, "internal/synctest.Run") || strings.Contains(g, "synctest.testingSynctestTest") || strings.Contains(g, "rapid.syncTestWithinRapid") {
			continue // the bubble's own machinery
		}
		if strings.Contains(g, "github.com/takenet/lime-go") {
			lib = append(lib, truncate(g, 1200))
		} else {
			other = append(other, truncate(g, 1200))
		}
	}
	return
}

// offeredSchemes: what this peer was offered - the scheme options of the authentication request the server actually sent
// it, as the peer read them off the connection; the configured list where no such request was seen. A scheme counts as
// offered only if it is in both (a server may offer less than it is configured with, never more).
func offeredSchemes(c *SrvCase, obs *SrvObs) []string {
	var wire []string
	seen := false
	for _, g := range obs.Got {
		if st, _ := g.Env["state"].(string); st != "authenticating" {
			continue
		}
		opts, ok := g.Env["schemeOptions"].([]interface{})
		if !ok {
			continue
		}
		seen = true
		wire = wire[:0]
		for _, x := range opts {
			if t, ok := x.(string); ok {
				wire = append(wire, t)
			}
		}
	}
	if !seen {
		return c.Cfg.Schemes
	}
	return intersectStr(c.Cfg.Schemes, wire)
}
