package harness

import (
	"bytes"
	"context"
	"encoding/json"
	"fmt"
	"testing"
	"time"

	lime "github.com/takenet/lime-go"
	"pgregory.net/rapid"
)

// rtRig is a long-lived pair of real TCP transports over an in-memory pipe plus a raw feeder, used to pass
// encodings through the real receive path.
type rtRig struct {
	raw     *FConn         // harness writes encoded bytes here ...
	rawRecv lime.Transport // ... and this transport's Receive decodes them
	sendT   lime.Transport // Send on this end ...
	recvT   lime.Transport // ... Receive on this one
	prev    []byte         // wire form of the previous envelope that went through rawRecv
}

func newRTRig() *rtRig {
	a, b := Pipe(PipeOpts{Capacity: 32 << 20})
	c, d := Pipe(PipeOpts{Capacity: 32 << 20})
	return &rtRig{
		raw:     a,
		rawRecv: lime.VerifNewTCPTransport(b, nil, true),
		sendT:   lime.VerifNewTCPTransport(c, nil, false),
		recvT:   lime.VerifNewTCPTransport(d, nil, true),
	}
}

func (r *rtRig) ok() bool { return r.rawRecv.Connected() && r.sendT.Connected() && r.recvT.Connected() }

// checkRoundTrip is the C01 oracle for one envelope spec.
func checkRoundTrip(spec *EnvSpec, rig *rtRig, wsVariant int, o *Outcome) {
	v, err := spec.Build()
	if err != nil {
		o.Class("generator-reject")
		return
	}
	want, err := CanonOf(v)
	if err != nil {
		o.Fail("C01/harness/canon", "%v", err)
		return
	}
	var b []byte
	if p := Protect(func() { b, err = json.Marshal(v) }); p != "" {
		o.Fail("C01/encode/panic/"+spec.Kind, "Marshal panicked: %s", p)
		return
	}
	if err != nil {
		o.Fail("C01/encode/error/"+spec.Kind, "Marshal failed: %v", err)
		return
	}
	// (3) wire shape against the independent canonical form
	if d := WireShape(spec.Kind, want, b); d != "" {
		o.Fail("C01/wire-shape/"+spec.Kind+"/"+fieldOf(d), "%s | wire=%s", d, truncate(string(b), 300))
	}
	// (1) typed decoder
	x := NewOfKind(spec.Kind)
	if p := Protect(func() { err = json.Unmarshal(b, x) }); p != "" {
		o.Fail("C01/typed-decode/panic/"+spec.Kind, "Unmarshal panicked: %s | wire=%s", p, truncate(string(b), 300))
	} else if err != nil {
		o.Fail("C01/typed-decode/error/"+spec.Kind, "Unmarshal failed: %v | wire=%s", err, truncate(string(b), 300))
	} else if d := EqualEnvelopes(v, x); d != "" {
		o.Fail("C01/typed-decode/diff/"+spec.Kind+"/"+fieldOf(d), "%s | wire=%s", d, truncate(string(b), 300))
	}
	if rig == nil {
		return
	}
	ctx, cancel := context.WithTimeout(context.Background(), 20*time.Second)
	defer cancel()
	// (2a) bytes fed to a transport's receive path, with whitespace variants around the frame
	frame := b
	switch wsVariant % 4 {
	case 0:
		frame = append(append([]byte{}, b...), '\n')
	case 1:
		frame = append([]byte(" \r\n\t"), append(append([]byte{}, b...), ' ', '\n')...)
	case 2:
		frame = append([]byte{}, b...) // no separator: next frame follows directly
	case 3:
		frame = append(append([]byte("\n\n"), b...), '\n')
	}
	// every other case: first a refused relative of the previous envelope (all of its members, then an unknown event) on the
	// same connection. The receive path must answer it with an error and hand over the next envelope unaffected by it.
	if prev := rig.prev; wsVariant%2 == 1 && len(prev) > 2 && prev[len(prev)-1] == '}' {
		sep := ","
		if len(bytes.TrimSpace(prev[1:len(prev)-1])) == 0 {
			sep = ""
		}
		tail := `"event":"#no-such-event#"}`
		if wsVariant%4 == 3 {
			// second flavour: a member of the wrong JSON type (the decoder itself refuses the value, having stored the others)
			tail = `"id":7}`
		}
		refused := append(append([]byte{}, prev[:len(prev)-1]...), []byte(sep+tail+"\n")...)
		if _, err := rig.raw.Write(refused); err != nil {
			o.Fail("C01/harness/feed", "%v", err)
			return
		}
		if e, err := TReceive(ctx, rig.rawRecv); err == nil {
			o.Fail("C01/transport-receive/refused-envelope-returned", "an envelope with an unknown event / a numeric id was returned as %T | wire=%s", e, truncate(string(refused), 300))
		}
		o.Class("after-refused-envelope")
		if !rig.rawRecv.Connected() {
			o.Class("transport-closed-by-refused-envelope")
			return
		}
	}
	rig.prev = b
	if _, err := rig.raw.Write(frame); err != nil {
		o.Fail("C01/harness/feed", "%v", err)
		return
	}
	if wsVariant%4 == 2 {
		// a JSON object is self-delimiting, but the decoder needs to see the closing brace only; nothing more to do
	}
	got, err := TReceive(ctx, rig.rawRecv)
	if err != nil {
		o.Fail("C01/transport-receive/error/"+spec.Kind, "Receive failed: %v | wire=%s", err, truncate(string(b), 300))
	} else if d := EqualEnvelopes(v, got); d != "" {
		o.Fail("C01/transport-receive/diff/"+spec.Kind+"/"+fieldOf(d), "%s | wire=%s", d, truncate(string(b), 300))
	}
	// (2b) Send on one transport, Receive on the other
	if err := TSend(ctx, rig.sendT, v); err != nil {
		o.Fail("C01/transport-send/error/"+spec.Kind, "Send failed: %v", err)
		return
	}
	got, err = TReceive(ctx, rig.recvT)
	if err != nil {
		o.Fail("C01/transport-sendrecv/error/"+spec.Kind, "Receive failed: %v | wire=%s", err, truncate(string(b), 300))
	} else if d := EqualEnvelopes(v, got); d != "" {
		o.Fail("C01/transport-sendrecv/diff/"+spec.Kind+"/"+fieldOf(d), "%s", d)
	}
}

// fieldOf extracts the top-level field name from a diff message for use in signatures.
func fieldOf(d string) string {
	// diffs look like `message.content.value: want ...` or `field "pp" missing ...`
	if i := bytes.IndexByte([]byte(d), '"'); i >= 0 && i < 8 {
		rest := d[i+1:]
		if j := bytes.IndexByte([]byte(rest), '"'); j > 0 {
			return rest[:j]
		}
	}
	end := len(d)
	for i, c := range d {
		if c == ':' || c == ' ' {
			end = i
			break
		}
	}
	path := d[:end]
	parts := bytes.Split([]byte(path), []byte("."))
	if len(parts) >= 2 {
		p := string(parts[1])
		if k := bytes.IndexByte([]byte(p), '['); k > 0 {
			p = p[:k]
		}
		return p
	}
	return "other"
}

func classifyEnv(s *EnvSpec, o *Outcome) {
	o.Class("kind=" + s.Kind)
	nopt := 0
	for _, b := range []bool{s.ID != "", s.From != nil, s.PP != nil, s.To != nil, len(s.Metadata) > 0, s.Reason != nil} {
		if b {
			nopt++
		}
	}
	if s.Doc != nil {
		d := s.Doc.Depth()
		o.Class(fmt.Sprintf("docdepth=%d", d))
		o.Class("doc=" + s.Doc.Kind)
	}
	if s.Auth != nil {
		o.Class("auth=" + s.Auth.Scheme)
	}
	o.NonTrivial = s.Doc != nil || s.Auth != nil || nopt >= 2
}

func TestC01(t *testing.T) {
	rec := NewRecorder("C01", "TestC01")
	depth := Scale(4, 7)
	var rig *rtRig
	n := 0
	rapid.Check(t, func(rt *rapid.T) {
		spec := GenEnvelope(depth).Draw(rt, "envelope")
		if rig == nil || !rig.ok() {
			rig = newRTRig()
		}
		n++
		o := &Outcome{}
		classifyEnv(spec, o)
		checkRoundTrip(spec, rig, n, o)
		if len(o.Violations) > 0 {
			rig = nil // a failed receive leaves the stream in an unknown state
		}
		rec.Check(rt, spec, o)
	})
}

// TestC01Replay re-executes saved cases without the generator library.
func TestC01Replay(t *testing.T) {
	rec := NewRecorder("C01", "TestC01Replay")
	defer rec.Finish(t)
	for _, f := range ReplayFiles("C01") {
		var spec EnvSpec
		if err := LoadCase(f, &spec); err != nil {
			t.Logf("skip %s: %v", f, err)
			continue
		}
		if spec.Kind == "" {
			continue
		}
		o := &Outcome{}
		classifyEnv(&spec, o)
		checkRoundTrip(&spec, newRTRig(), 0, o)
		rec.Eval(&spec, o)
	}
}
