//go:build go1.25

package harness

import (
	"context"
	"errors"
	"fmt"
	"runtime"
	"strings"
	"sync"
	"sync/atomic"
	"testing"
	"testing/synctest"
	"time"

	lime "github.com/takenet/lime-go"
	"pgregory.net/rapid"
)

type c18Client struct {
	Listener int    `json:"listener"`
	Stage    string `json:"stage"` // dialled | new-sent | negotiating | in-authenticate | established | established-traffic | failing | rejected
}

type c18Case struct {
	Listeners    []string    `json:"listeners"` // inproc | fconn | fconn-neg (offers none+tls, so a negotiation stage exists)
	Clients      []c18Client `json:"clients"`
	Flood        int         `json:"flood"`        // goroutines dialling (and abandoning) connections in a loop while Close runs
	CloseDelayUs int         `json:"closeDelayUs"` // pause between parking the clients and calling Close
	CloseTwice   bool        `json:"closeTwice,omitempty"`
}

type c18Obs struct {
	SrvOpen       int            `json:"srvOpen"` // server ends of accepted connections still open after Close and the release bound
	Note          string         `json:"note,omitempty"`
	ServeErr      string         `json:"serveErr"`
	ServeReturned bool           `json:"serveReturned"`
	CloseErr      string         `json:"closeErr,omitempty"`
	DialAfter     []string       `json:"dialAfter"` // per listener: "" refused, else what happened
	ClientStates  []string       `json:"clientStates"`
	ClientEst     []string       `json:"clientEst"` // session id each client saw in an established envelope ("" if none)
	EstLog        []string       `json:"estLog"`
	FinLog        []string       `json:"finLog"`
	FirstHandler  map[string]int `json:"firstHandler"` // session id -> position of the first handler invocation in the event log
	Events        []string       `json:"events"`
	Left          int            `json:"left"`
	LeftStack     string         `json:"leftStack,omitempty"`
	Panic         string         `json:"panic,omitempty"`
}

func serverGoroutines() (int, string) {
	n := runtime.Stack(stackBuf, true)
	cnt := 0
	which := ""
	for _, g := range strings.Split(string(stackBuf[:n]), "\n\n") {
		if strings.Contains(g, "lime-go.(*Server)") || strings.Contains(g, "lime-go.acceptTransports") || strings.Contains(g, "lime-go.receiveFromTransport") ||
			strings.Contains(g, "lime-go.(*EnvelopeMux).listen") || strings.Contains(g, "lime-go.(*ServerChannel).EstablishSession") {
			cnt++
			if len(which) < 3000 {
				which += truncate(g, 700) + "\n--\n"
			}
		}
	}
	return cnt, which
}

func runC18(c *c18Case) *c18Obs {
	obs := &c18Obs{FirstHandler: map[string]int{}}
	var mu sync.Mutex
	event := func(s string) {
		mu.Lock()
		obs.Events = append(obs.Events, s)
		mu.Unlock()
	}
	hold := make(chan struct{})
	var holdOnce sync.Once
	release := func() { holdOnce.Do(func() { close(hold) }) }
	cfg := lime.NewServerConfig()
	cfg.Node = srvNode
	cfg.SchemeOpts = []lime.AuthenticationScheme{lime.AuthenticationSchemeGuest, lime.AuthenticationSchemePlain}
	cfg.EncryptOpts = []lime.SessionEncryption{lime.SessionEncryptionNone}
	cfg.ChannelBufferSize = 2
	cfg.Backlog = 4
	cfg.Authenticate = func(_ context.Context, _ lime.Identity, a lime.Authentication) (*lime.AuthenticationResult, error) {
		if p, ok := a.(*lime.PlainAuthentication); ok && p.Password == "hold" {
			<-hold
		}
		return lime.MemberAuthenticationResult(), nil
	}
	cfg.Register = func(_ context.Context, n lime.Node, _ *lime.ServerChannel) (lime.Node, error) { return n, nil }
	chByID := map[string]*lime.ServerChannel{}
	cfg.Established = func(id string, ch *lime.ServerChannel) {
		mu.Lock()
		chByID[id] = ch
		mu.Unlock()
		event("est:" + id)
	}
	cfg.Finished = func(id string) { event("fin:" + id) }
	mux := &lime.EnvelopeMux{}
	mux.MessageHandlerFunc(nil, func(ctx context.Context, _ *lime.Message, _ lime.Sender) error {
		id, _ := lime.ContextSessionID(ctx)
		event("msg:" + id)
		return nil
	})
	var bls []lime.BoundListener
	fls := make([]*FListener, len(c.Listeners))
	addrs := make([]lime.InProcessAddr, len(c.Listeners))
	for i, k := range c.Listeners {
		switch k {
		case "inproc":
			addrs[i] = lime.InProcessAddr(fmt.Sprintf("c18-%d", i))
			bls = append(bls, lime.NewBoundListener(lime.NewInProcessTransportListener(addrs[i]), addrs[i]))
		case "fconn-errclose":
			// a listener whose Close works but reports an error (the stock WebSocket listener does, now and then)
			fls[i] = NewFListener(nil, PipeOpts{})
			bls = append(bls, lime.NewBoundListener(&errCloseListener{fls[i]}, FAddr))
		default:
			fls[i] = NewFListener(nil, PipeOpts{})
			bls = append(bls, lime.NewBoundListener(fls[i], FAddr))
		}
	}
	for _, k := range c.Listeners {
		if k == "fconn-neg" {
			cfg.EncryptOpts = []lime.SessionEncryption{lime.SessionEncryptionNone, lime.SessionEncryptionTLS}
		}
	}
	server := lime.NewServer(cfg, mux, bls...)
	done := make(chan error, 1)
	go func() {
		var err error
		if p := Protect(func() { err = server.ListenAndServe() }); p != "" {
			mu.Lock()
			obs.Panic = p
			mu.Unlock()
		}
		done <- err
	}()
	synctest.Wait()
	dial := func(li int) (lime.Transport, *FConn, error) {
		if fls[li] == nil {
			t, err := lime.DialInProcess(addrs[li], 2)
			return t, nil, err
		}
		t, cn, err := fls[li].DialTransport(nil)
		if err != nil {
			return nil, nil, err
		}
		return t, cn.Client, nil
	}
	type cli struct {
		cc   *lime.ClientChannel
		raw  *RawPeer
		t    lime.Transport
		stop chan struct{}
	}
	clis := make([]*cli, len(c.Clients))
	var twg sync.WaitGroup
	for i, cl := range c.Clients {
		li := cl.Listener % len(c.Listeners)
		x := &cli{stop: make(chan struct{})}
		clis[i] = x
		switch cl.Stage {
		case "established", "established-traffic", "established-deaf":
			t, _, err := dial(li)
			if err != nil {
				obs.Note = "harness: dial: " + err.Error()
				continue
			}
			x.t = t
			x.cc = lime.NewClientChannel(t, 2)
			ctx, cancel := context.WithTimeout(context.Background(), 20*time.Second)
			ses, err := x.cc.EstablishSession(ctx, lime.NoneCompressionSelector, lime.NoneEncryptionSelector, lime.Identity{Name: fmt.Sprint("u", i), Domain: "cli.example"}, lime.GuestAuthenticator, "i")
			cancel()
			if err != nil || ses.State != lime.SessionStateEstablished {
				obs.Note = fmt.Sprintf("harness: establish: %v", err)
				continue
			}
			if cl.Stage == "established-deaf" {
				// the application does not consume and the server keeps pushing until nothing more fits: when the server
				// shuts down it cannot deliver the finished envelope to this client
				synctest.Wait()
				mu.Lock()
				sch := chByID[x.cc.ID()]
				mu.Unlock()
				for k := 0; sch != nil && k < 400; k++ {
					ctx, cancel := context.WithTimeout(context.Background(), 200*time.Millisecond)
					m := c13Message(fmt.Sprintf("push-%d-%d", i, k))
					m.SetContent(lime.TextDocument(strings.Repeat("p", 8192)))
					err := sch.SendMessage(ctx, m)
					cancel()
					if err != nil {
						break
					}
				}
				continue
			}
			go func() {
				for range x.cc.MsgChan() {
				}
			}()
			if cl.Stage == "established-traffic" {
				twg.Add(1)
				go func(i int) {
					defer twg.Done()
					for k := 0; ; k++ {
						select {
						case <-x.stop:
							return
						default:
						}
						ctx, cancel := context.WithTimeout(context.Background(), time.Second)
						err := x.cc.SendMessage(ctx, c13Message(fmt.Sprintf("t%d-%d", i, k)))
						cancel()
						if err != nil {
							return
						}
						time.Sleep(100 * time.Microsecond)
					}
				}(i)
			}
		default:
			if fls[li] == nil {
				// in-process listeners only take library clients: park it as "dialled"
				t, _, err := dial(li)
				if err == nil {
					x.t = t
				}
				continue
			}
			cn, err := fls[li].Dial()
			if err != nil {
				obs.Note = "harness: dial: " + err.Error()
				continue
			}
			x.raw = NewRawPeer(cn.Client)
			switch cl.Stage {
			case "new-sent", "negotiating":
				_ = x.raw.SendEnv(M{"state": "new"})
			case "in-authenticate":
				_ = x.raw.SendEnv(M{"state": "new"})
				synctest.Wait()
				x.raw.Drain()
				sid := ""
				for _, g := range x.raw.Got {
					if id, ok := g.Env["id"].(string); ok {
						sid = id
					}
				}
				if n := len(x.raw.Got); n > 0 && x.raw.Got[n-1].Env["state"] == "negotiating" {
					_ = x.raw.SendEnv(M{"id": sid, "state": "negotiating", "encryption": "none", "compression": "none"})
					synctest.Wait()
					x.raw.Drain()
				}
				_ = x.raw.SendEnv(M{"id": sid, "from": fmt.Sprintf("h%d@cli.example/i", i), "state": "authenticating", "scheme": "plain", "authentication": M{"password": "hold"}})
			case "failing":
				_ = x.raw.SendBytes([]byte("this is not json\n"))
			case "rejected":
				// a handshake that the server answers with a failed session (unoffered scheme)
				_ = x.raw.SendEnv(M{"state": "new"})
				synctest.Wait()
				x.raw.Drain()
				sid := ""
				for _, g := range x.raw.Got {
					if id, ok := g.Env["id"].(string); ok {
						sid = id
					}
				}
				if n := len(x.raw.Got); n > 0 && x.raw.Got[n-1].Env["state"] == "negotiating" {
					_ = x.raw.SendEnv(M{"id": sid, "state": "negotiating", "encryption": "none", "compression": "none"})
					synctest.Wait()
					x.raw.Drain()
				}
				_ = x.raw.SendEnv(M{"id": sid, "from": fmt.Sprintf("r%d@cli.example/i", i), "state": "authenticating", "scheme": "key", "authentication": M{"key": "k"}})
			}
		}
	}
	synctest.Wait()
	// connection flood while Close runs
	var floodStop int32
	var fwg sync.WaitGroup
	for f := 0; f < c.Flood; f++ {
		fwg.Add(1)
		go func(f int) {
			defer fwg.Done()
			for atomic.LoadInt32(&floodStop) == 0 {
				li := f % len(c.Listeners)
				if fls[li] != nil {
					if cn, err := fls[li].Dial(); err == nil {
						_, _ = cn.Client.Write([]byte("{\"state\":\"new\"}\n"))
						runtime.Gosched()
						_ = cn.Client.Close()
					}
				} else if t, err := lime.DialInProcess(addrs[li], 1); err == nil {
					_ = t.Close()
				}
				time.Sleep(50 * time.Microsecond)
			}
		}(f)
	}
	time.Sleep(time.Duration(c.CloseDelayUs) * time.Microsecond)
	if p := Protect(func() {
		if err := server.Close(); err != nil {
			obs.CloseErr = err.Error()
		}
		if c.CloseTwice {
			_ = server.Close()
		}
	}); p != "" {
		obs.Panic = "Close: " + p
	}
	// after Close has returned a new connection is refused
	for li := range c.Listeners {
		res := ""
		if fls[li] != nil {
			if _, err := fls[li].Dial(); err == nil {
				res = "accepted a new connection"
			}
		} else if t, err := lime.DialInProcess(addrs[li], 1); err == nil {
			res = "accepted a new connection"
			_ = t.Close()
		}
		obs.DialAfter = append(obs.DialAfter, res)
	}
	atomic.StoreInt32(&floodStop, 1)
	release()
	select {
	case err := <-done:
		obs.ServeReturned = true
		if err != nil {
			obs.ServeErr = err.Error()
			if errors.Is(err, lime.ErrServerClosed) {
				obs.ServeErr = "ErrServerClosed"
			}
		}
	case <-time.After(6 * time.Second):
	}
	fwg.Wait()
	time.Sleep(6 * time.Second)
	synctest.Wait()
	for i, x := range clis {
		st, est := "", ""
		if x != nil && x.cc != nil {
			st = string(x.cc.State())
			est = x.cc.ID()
		}
		if x != nil && x.raw != nil {
			x.raw.Drain()
			for _, g := range x.raw.Got {
				if s, _ := g.Env["state"].(string); s != "" {
					st = s
					if s == "established" {
						est, _ = g.Env["id"].(string)
					}
				}
			}
		}
		obs.ClientStates = append(obs.ClientStates, st)
		obs.ClientEst = append(obs.ClientEst, est)
		_ = i
	}
	obs.Left, obs.LeftStack = serverGoroutines()
	for _, fl := range fls {
		if fl != nil {
			fl.mu.Lock()
			for _, cn := range fl.Conns {
				if !cn.Server.Closed() {
					obs.SrvOpen++
				}
			}
			fl.mu.Unlock()
		}
	}
	// the clients' own receivers are not the server's business: close them before counting? They are counted above only if they
	// belong to the server side (receiveFromTransport is shared): close the clients first and count again.
	for _, x := range clis {
		if x == nil {
			continue
		}
		close(x.stop)
		if x.cc != nil {
			_ = x.cc.Close()
		}
		if x.raw != nil {
			x.raw.Close()
		}
		if x.t != nil && x.cc == nil {
			_ = x.t.Close()
		}
	}
	twg.Wait()
	time.Sleep(6 * time.Second)
	synctest.Wait()
	obs.Left, obs.LeftStack = serverGoroutines()
	if !obs.ServeReturned {
		select {
		case <-done:
		case <-time.After(time.Minute):
		}
	}
	mu.Lock()
	for i, e := range obs.Events {
		switch {
		case strings.HasPrefix(e, "est:"):
			obs.EstLog = append(obs.EstLog, e[4:])
		case strings.HasPrefix(e, "fin:"):
			obs.FinLog = append(obs.FinLog, e[4:])
		case strings.HasPrefix(e, "msg:"):
			if _, ok := obs.FirstHandler[e[4:]]; !ok {
				obs.FirstHandler[e[4:]] = i
			}
		}
	}
	mu.Unlock()
	// drain queued but unserved connections so that nothing outlives the bubble
	for _, fl := range fls {
		if fl != nil {
			for _, cn := range fl.Conns {
				_ = cn.Client.Close()
				_ = cn.Server.Close()
			}
		}
	}
	time.Sleep(6 * time.Second)
	synctest.Wait()
	if lib, other := bubbleLeftovers(); len(lib)+len(other) > 0 {
		if len(lib) > 0 {
			obs.Left += len(lib)
			obs.LeftStack += "\nstill alive at the very end:\n" + strings.Join(lib, "\n--\n")
		} else {
			obs.Note = "harness: goroutines of the harness outlive the case:\n" + strings.Join(other, "\n--\n")
		}
	}
	return obs
}

func judgeC18(c *c18Case, obs *c18Obs, o *Outcome) {
	o.Class(fmt.Sprintf("listeners=%d", len(c.Listeners)))
	o.Class(fmt.Sprintf("flood=%v", c.Flood > 0))
	if strings.HasPrefix(obs.Note, "harness:") {
		o.Fail("C18/harness", "%s", obs.Note)
		return
	}
	mid := false
	for _, cl := range c.Clients {
		o.Class("stage=" + cl.Stage)
		if cl.Stage != "dialled" {
			mid = true
		}
	}
	o.NonTrivial = mid || c.Flood > 0
	if obs.Panic != "" {
		o.Fail("C18/panic/"+panicClass(obs.Panic), "%s", obs.Panic)
	}
	if !obs.ServeReturned {
		o.Fail("C18/serve-did-not-return", "ListenAndServe had not returned 6 s after Close")
	} else if obs.ServeErr != "ErrServerClosed" {
		o.Fail("C18/serve-returned-other-error/"+errClassStr(obs.ServeErr), "ListenAndServe returned %q, expected ErrServerClosed", obs.ServeErr)
	}
	for li, r := range obs.DialAfter {
		if r != "" {
			o.Fail("C18/listener-not-stopped/"+c.Listeners[li], "after Close returned, listener %d (%s) %s", li, c.Listeners[li], r)
		}
	}
	// ground truth: sessions whose client saw an established envelope
	truth := map[string]bool{}
	for i, id := range obs.ClientEst {
		if id != "" {
			truth[id] = true
			if i < len(c.Clients) && strings.HasPrefix(c.Clients[i].Stage, "established") && c.Clients[i].Stage != "established-deaf" && obs.ClientStates[i] != "finished" {
				o.Fail("C18/established-client-did-not-see-finished", "client %d (session %s) ended in state %q", i, id, obs.ClientStates[i])
			}
		}
	}
	est, fin := map[string]int{}, map[string]int{}
	for _, id := range obs.EstLog {
		est[id]++
	}
	for _, id := range obs.FinLog {
		fin[id]++
	}
	for id := range truth {
		if est[id] != 1 {
			o.Fail("C18/established-callback-count", "session %s reached established; Established fired %d times", id, est[id])
		}
		if fin[id] != 1 {
			o.Fail("C18/finished-callback-count", "session %s reached established; Finished fired %d times", id, fin[id])
		}
	}
	for id, n := range est {
		if !truth[id] {
			o.Fail("C18/established-callback-for-unestablished", "Established fired %d time(s) for %s, which no client saw established", n, id)
		}
	}
	for id, n := range fin {
		if !truth[id] {
			o.Fail("C18/finished-callback-for-unestablished", "Finished fired %d time(s) for %s, which no client saw established", n, id)
		}
	}
	// order: est before the first handler and before fin
	pos := map[string]int{}
	for i, e := range obs.Events {
		if _, ok := pos[e]; !ok {
			pos[e] = i
		}
	}
	for id := range truth {
		pe, okE := pos["est:"+id]
		pf, okF := pos["fin:"+id]
		if okE && okF && pf < pe {
			o.Fail("C18/finished-before-established", "session %s", id)
		}
		if ph, ok := obs.FirstHandler[id]; ok && okE && ph < pe {
			o.Fail("C18/handler-before-established-callback", "session %s: a handler ran before the Established callback", id)
		}
		if ph, ok := obs.FirstHandler[id]; ok && okF && pf < ph {
			o.Fail("C18/handler-after-finished-callback", "session %s: a handler ran after the Finished callback", id)
		}
	}
	if obs.SrvOpen > 0 {
		o.Fail("C18/connection-left-open-after-close", "%d connection(s) the server's listeners had accepted are still open on the server side after Close and the release bound: their peers are left on a connection nobody serves", obs.SrvOpen)
	}
	if obs.Left > 0 {
		o.Fail("C18/goroutine-left", "%d server goroutine(s) left after Close and the release bound:\n%s", obs.Left, obs.LeftStack)
	}
}

func genC18(rt *rapid.T) *c18Case {
	c := &c18Case{}
	nl := rapid.IntRange(1, 3).Draw(rt, "nlisteners")
	for i := 0; i < nl; i++ {
		c.Listeners = append(c.Listeners, rapid.SampledFrom([]string{"fconn", "fconn", "fconn-neg", "inproc", "fconn-errclose"}).Draw(rt, "listener"))
	}
	nc := rapid.IntRange(0, 12).Draw(rt, "nclients")
	for i := 0; i < nc; i++ {
		c.Clients = append(c.Clients, c18Client{Listener: rapid.IntRange(0, nl-1).Draw(rt, "l"),
			Stage: rapid.SampledFrom([]string{"dialled", "new-sent", "negotiating", "in-authenticate", "established", "established", "established-traffic", "established-deaf", "failing", "rejected"}).Draw(rt, "stage")})
	}
	if rapid.Bool().Draw(rt, "flood?") {
		c.Flood = rapid.IntRange(1, 8).Draw(rt, "flood")
	}
	c.CloseDelayUs = rapid.SampledFrom([]int{0, 0, 10, 100, 1000, 5000}).Draw(rt, "delay")
	c.CloseTwice = rapid.IntRange(0, 9).Draw(rt, "twice") == 0
	return c
}

func TestC18(t *testing.T) {
	rec := NewRecorder("C18", "TestC18")
	w := StartSpinWatchAfter("C18", 20)
	defer w.Stop()
	rapid.Check(t, func(rt *rapid.T) {
		c := genC18(rt)
		o := &Outcome{}
		var obs *c18Obs
		rec.Journal(c)
		w.Case(c)
		rapid.SyncTest(rt, func(rt *rapid.T) { obs = runC18(c) })
		judgeC18(c, obs, o)
		rec.Check(rt, c, o)
	})
}

func TestC18Replay(t *testing.T) {
	rec := NewRecorder("C18", "TestC18Replay")
	defer rec.Finish(t)
	for _, f := range ReplayFiles("C18") {
		var c c18Case
		if err := LoadCase(f, &c); err != nil || len(c.Listeners) == 0 {
			continue
		}
		o := &Outcome{}
		var obs *c18Obs
		synctest.Test(t, func(t *testing.T) { obs = runC18(&c) })
		judgeC18(&c, obs, o)
		rec.Eval(&c, o)
	}
}

type errCloseListener struct{ *FListener }

func (l *errCloseListener) Close() error {
	_ = l.FListener.Close()
	return errors.New("close: use of closed network connection")
}
