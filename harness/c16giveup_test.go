//go:build go1.25

package harness

import (
	"context"
	"fmt"
	"strings"
	"testing"
	"testing/synctest"
	"time"

	lime "github.com/takenet/lime-go"
	"pgregory.net/rapid"
)

// An envelope that arrives in pieces while the receiver gives up between them (its receive context expires and it asks
// again). Whatever a transport does after a given-up receive - fail for good or go on - the bound stays: no envelope
// larger than twice the limit is ever returned, one Receive never takes more than the limit off the connection, and what
// is returned is what was sent.
type c16GiveUpCase struct {
	Limit     int64 `json:"limit"`
	Size      int   `json:"size"`   // the frame that arrives in pieces
	Pieces    []int `json:"pieces"` // bytes delivered before each given-up receive; the rest arrives afterwards
	ReadChunk int   `json:"readChunk,omitempty"`
	Trace     bool  `json:"trace,omitempty"`
	Before    int   `json:"before,omitempty"` // size of a whole frame delivered (and received) first, 0 = none
}

type c16GiveUpObs struct {
	Steps   []c16Step
	GaveUp  int // receives that ended on their context with part of the frame taken
	Note    string
	TailOK  bool
	Revived bool // a receive after a given-up one returned an envelope
}

func runC16GiveUp(c *c16GiveUpCase) *c16GiveUpObs {
	obs := &c16GiveUpObs{}
	cfg := &lime.TCPConfig{ReadLimit: c.Limit}
	if c.Trace {
		cfg.TraceWriter = NewCountingTrace()
	}
	a, s := Pipe(PipeOpts{Capacity: c.Size + c.Before + 4096})
	s.SetReadChunk(c.ReadChunk)
	tr := lime.VerifNewTCPTransport(s, cfg, true)
	defer func() { a.Close(); s.Close() }()
	recv := func(d time.Duration, size int) c16Step {
		st := c16Step{Size: size}
		before := s.TotalRead()
		ctx, cancel := context.WithTimeout(context.Background(), d)
		var e interface{}
		var err error
		p := Protect(func() { e, err = TReceive(ctx, tr) })
		cancel()
		st.Consumed = s.TotalRead() - before
		switch {
		case p != "":
			st.Err = "panic: " + p
		case err != nil:
			st.Err = err.Error()
			if ctx.Err() != nil && st.Consumed > 0 {
				obs.GaveUp++
			}
		default:
			st.Accepted = true
			if m, ok := e.(*lime.Message); ok {
				if td, ok := m.Content.(*lime.TextDocument); ok {
					st.Size = len(string(*td)) + c16Base
					st.Intact = strings.Trim(string(*td), "x") == "" && strings.HasPrefix(m.ID, "f")
				}
			}
			if obs.GaveUp > 0 {
				obs.Revived = true
			}
		}
		obs.Steps = append(obs.Steps, st)
		return st
	}
	if c.Before > 0 {
		f, _ := frameOfSize(7, c.Before)
		if _, err := a.Write(f); err != nil {
			obs.Note = "harness: " + err.Error()
			return obs
		}
		recv(time.Second, len(f))
	}
	frame, _ := frameOfSize(1, c.Size)
	off := 0
	for _, p := range c.Pieces {
		if off+p >= len(frame) {
			break
		}
		if _, err := a.Write(frame[off : off+p]); err != nil {
			obs.Note = "harness: " + err.Error()
			return obs
		}
		off += p
		if st := recv(100*time.Millisecond, len(frame)); st.Accepted {
			break
		}
	}
	tail, _ := frameOfSize(2, 60)
	go func() {
		_, _ = a.Write(frame[off:])
		_, _ = a.Write(tail)
		a.CloseWrite()
	}()
	for i := 0; i < 3; i++ {
		st := recv(2*time.Second, len(frame))
		if !st.Accepted {
			break
		}
	}
	return obs
}

func judgeC16GiveUp(c *c16GiveUpCase, obs *c16GiveUpObs, o *Outcome) {
	L := effLimit(c.Limit)
	o.Class(fmt.Sprintf("limit=%d", c.Limit))
	o.Class("frame" + sizeClass(c.Size, L))
	o.Class(fmt.Sprintf("given-up-receives=%d", min(obs.GaveUp, 5)))
	if c.Trace {
		o.Class("traced")
	}
	if obs.Note != "" {
		o.Fail("C16/harness", "%s", obs.Note)
		return
	}
	if obs.Revived {
		o.Class("receive-works-after-a-given-up-one")
	} else if obs.GaveUp > 0 {
		o.Class("receive-fails-after-a-given-up-one")
	}
	for i, st := range obs.Steps {
		if strings.HasPrefix(st.Err, "panic") {
			o.Fail("C16/panic", "%s", st.Err)
			return
		}
		if st.Consumed > L {
			o.Fail("C16/receive-consumed-more-than-limit/given-up", "Receive #%d consumed %d bytes from the connection, limit %d", i, st.Consumed, L)
		}
		if st.Accepted && int64(st.Size) > 2*L {
			o.Fail("C16/oversized-accepted/given-up/"+sizeClass(st.Size, L), "an envelope of %d bytes was returned with limit %d after %d given-up receives", st.Size, L, obs.GaveUp)
		}
		if st.Accepted && !st.Intact {
			o.Fail("C16/not-intact/given-up", "Receive #%d returned an envelope that was not sent", i)
		}
	}
	o.NonTrivial = obs.GaveUp > 0 && int64(c.Size) > L
}

func c16GiveUpBody(c *c16GiveUpCase, obs **c16GiveUpObs) {
	*obs = runC16GiveUp(c)
	time.Sleep(6 * time.Second)
	synctest.Wait()
}

func c16GiveUpEval(t *testing.T, c *c16GiveUpCase) *Outcome {
	o := &Outcome{}
	var obs *c16GiveUpObs
	synctest.Test(t, func(t *testing.T) { c16GiveUpBody(c, &obs) })
	judgeC16GiveUp(c, obs, o)
	return o
}

func TestC16GiveUpSweep(t *testing.T) {
	rec := NewRecorder("C16", "TestC16GiveUpSweep")
	defer rec.Finish(t)
	sh, nsh := Shard()
	idx := 0
	for _, L := range []int64{256, 1000, 4096} {
		l := int(L)
		for _, size := range []int{l / 2, l, l + 1, 2 * l, 2*l + 1, 3 * l, 5 * l, 10 * l} {
			for _, piece := range []int{1, l / 2, l - 1, l, l + 1} {
				for _, n := range []int{1, 2, 3, 6, 24} {
					for _, v := range []int{0, 1, 2} {
						idx++
						if idx%nsh != sh {
							continue
						}
						c := &c16GiveUpCase{Limit: L, Size: size}
						for i := 0; i < n; i++ {
							c.Pieces = append(c.Pieces, piece)
						}
						switch v {
						case 1:
							c.ReadChunk, c.Before = 7, 60
						case 2:
							c.Trace = true
						}
						rec.Eval(c, c16GiveUpEval(t, c))
					}
				}
			}
		}
	}
	rec.Note("exhaustive", "true")
}

func TestC16GiveUp(t *testing.T) {
	rec := NewRecorder("C16", "TestC16GiveUp")
	rapid.Check(t, func(rt *rapid.T) {
		L := rapid.SampledFrom([]int64{256, 1000, 4096}).Draw(rt, "limit")
		c := &c16GiveUpCase{Limit: L, Trace: rapid.IntRange(0, 3).Draw(rt, "trace") == 0}
		c.Size = rapid.OneOf(rapid.IntRange(c16Base, int(L)), rapid.IntRange(int(L), int(2*L)), rapid.IntRange(int(2*L)+1, int(12*L))).Draw(rt, "size")
		n := rapid.IntRange(1, 30).Draw(rt, "pieces")
		for i := 0; i < n; i++ {
			c.Pieces = append(c.Pieces, rapid.OneOf(rapid.IntRange(1, int(L)+2), rapid.IntRange(int(L)/2, int(L))).Draw(rt, "piece"))
		}
		if rapid.Bool().Draw(rt, "chunked") {
			c.ReadChunk = rapid.IntRange(1, int(2*L)).Draw(rt, "chunk")
		}
		if rapid.Bool().Draw(rt, "before") {
			c.Before = rapid.IntRange(c16Base, int(L)).Draw(rt, "beforeSize")
		}
		o := &Outcome{}
		var obs *c16GiveUpObs
		rapid.SyncTest(rt, func(rt *rapid.T) { c16GiveUpBody(c, &obs) })
		judgeC16GiveUp(c, obs, o)
		rec.Check(rt, c, o)
	})
}
