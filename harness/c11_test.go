package harness

import (
	"context"
	"encoding/json"
	"fmt"
	"net"
	"testing"
	"time"

	lime "github.com/takenet/lime-go"
	"pgregory.net/rapid"
)

type c11Case struct {
	Src     EnvSpec     `json:"src"`     // request command or message
	Builder string      `json:"builder"` // success | success-resource | failure | notification | failed-notification | sender
	Doc     *DocSpec    `json:"doc,omitempty"`
	Reason  *ReasonSpec `json:"reason,omitempty"`
	Event   string      `json:"event,omitempty"`
}

func expectedSender(s *EnvSpec) lime.Node {
	if s.PP != nil && s.PP.Node() != (lime.Node{}) {
		return s.PP.Node()
	}
	return s.From.Node()
}

func putNode(m M, key string, n lime.Node) {
	if n != (lime.Node{}) {
		m[key] = NodeText(n)
	}
}

// runC11 builds the reply with the library and compares it with the reply computed from the statement.
func runC11(c *c11Case, rig *rtRig, o *Outcome) {
	srcV, err := c.Src.Build()
	if err != nil {
		o.Class("generator-reject")
		return
	}
	want := M{}
	if c.Src.ID != "" {
		want["id"] = c.Src.ID
	}
	putNode(want, "from", c.Src.To.Node())
	putNode(want, "to", expectedSender(&c.Src))
	var built interface{}
	kind := ""
	var doc lime.Document
	if c.Doc != nil {
		d, _, err := c.Doc.Build()
		if err != nil {
			o.Class("generator-reject")
			return
		}
		doc = d
	}
	if p := Protect(func() {
		switch c.Builder {
		case "success", "success-resource", "failure":
			req := srcV.(*lime.RequestCommand)
			kind = "response"
			want["method"] = c.Src.Method
			switch c.Builder {
			case "success":
				built = req.SuccessResponse()
				want["status"] = "success"
			case "success-resource":
				built = req.SuccessResponseWithResource(doc)
				want["status"] = "success"
				cd, _ := CanonDoc(doc)
				want["resource"] = cd
				want["type"] = MediaTypeText(doc.MediaType())
			case "failure":
				built = req.FailureResponse(c.Reason.Reason())
				want["status"] = "failure"
				if c.Reason != nil {
					want["reason"] = canonReason(c.Reason.Reason())
				}
			}
		case "notification", "failed-notification":
			msg := srcV.(*lime.Message)
			kind = "notification"
			if c.Builder == "notification" {
				built = msg.Notification(lime.NotificationEvent(c.Event))
				want["event"] = c.Event
			} else {
				built = msg.FailedNotification(c.Reason.Reason())
				want["event"] = "failed"
				if c.Reason != nil {
					want["reason"] = canonReason(c.Reason.Reason())
				}
			}
		case "sender":
			var got lime.Node
			switch v := srcV.(type) {
			case *lime.RequestCommand:
				got = v.Sender()
			case *lime.Message:
				got = v.Sender()
			}
			if got != expectedSender(&c.Src) {
				o.Fail("C11/sender", "Sender()=%q, want %q (from=%q pp=%q)", NodeText(got), NodeText(expectedSender(&c.Src)),
					NodeText(c.Src.From.Node()), NodeText(c.Src.PP.Node()))
			}
		}
	}); p != "" {
		o.Fail("C11/builder-panic/"+c.Builder, "%s", p)
		return
	}
	if built == nil {
		return
	}
	got, err := CanonOf(built)
	if err != nil {
		o.Fail("C11/harness/canon", "%v", err)
		return
	}
	if d := DiffGeneric(want, got, kind); d != "" {
		o.Fail("C11/fields/"+c.Builder+"/"+fieldOf(d), "built reply differs from the statement: %s", d)
	}
	// the built envelope must itself survive the wire: encode, typed decode, transport receive
	b, err := json.Marshal(built)
	if err != nil {
		o.Fail("C11/encode/"+c.Builder, "Marshal failed: %v", err)
		return
	}
	x := NewOfKind(kind)
	if err := json.Unmarshal(b, x); err != nil {
		o.Fail("C11/roundtrip/typed-decode-error/"+c.Builder, "%v | wire=%s", err, truncate(string(b), 300))
	} else if cx, _ := CanonOf(x); DiffGeneric(want, cx, kind) != "" {
		o.Fail("C11/roundtrip/typed-decode-diff/"+c.Builder+"/"+fieldOf(DiffGeneric(want, cx, kind)), "%s | wire=%s", DiffGeneric(want, cx, kind), truncate(string(b), 300))
	}
	if rig != nil {
		ctx, cancel := context.WithTimeout(context.Background(), 20*time.Second)
		defer cancel()
		if err := TSend(ctx, rig.sendT, built); err != nil {
			o.Fail("C11/roundtrip/send-error/"+c.Builder, "%v", err)
			return
		}
		r, err := TReceive(ctx, rig.recvT)
		if err != nil {
			o.Fail("C11/roundtrip/receive-error/"+c.Builder, "%v | wire=%s", err, truncate(string(b), 300))
		} else if KindOf(r) != kind {
			o.Fail("C11/roundtrip/receive-kind/"+c.Builder, "received a %s, want %s | wire=%s", KindOf(r), kind, truncate(string(b), 300))
		} else if cr, _ := CanonOf(r); DiffGeneric(want, cr, kind) != "" {
			o.Fail("C11/roundtrip/receive-diff/"+c.Builder+"/"+fieldOf(DiffGeneric(want, cr, kind)), "%s", DiffGeneric(want, cr, kind))
		}
	}
}

func genC11(rt *rapid.T, depth int) *c11Case {
	c := &c11Case{}
	c.Builder = rapid.SampledFrom([]string{"success", "success-resource", "failure", "notification", "failed-notification", "sender"}).Draw(rt, "builder")
	srcKind := "request"
	if c.Builder == "notification" || c.Builder == "failed-notification" || (c.Builder == "sender" && rapid.Bool().Draw(rt, "msgSender")) {
		srcKind = "message"
	}
	c.Src = *genEnvelope(rt, depth, srcKind)
	// force every from/pp/to combination to occur
	mask := rapid.IntRange(0, 7).Draw(rt, "addrMask")
	c.Src.From, c.Src.PP, c.Src.To = nil, nil, nil
	if mask&1 != 0 {
		c.Src.From = GenNode().Draw(rt, "from")
	}
	if mask&2 != 0 {
		c.Src.PP = GenNode().Draw(rt, "pp")
	}
	if mask&4 != 0 {
		c.Src.To = GenNode().Draw(rt, "to")
	}
	switch c.Builder {
	case "success-resource":
		c.Doc = genDoc(rt, depth, "")
	case "failure", "failed-notification":
		c.Reason = GenReason().Draw(rt, "breason")
	case "notification":
		c.Event = rapid.SampledFrom(Events).Draw(rt, "bevent")
	}
	return c
}

func classifyC11(c *c11Case, o *Outcome) {
	o.Class("builder=" + c.Builder)
	m := 0
	if c.Src.From != nil {
		m |= 1
	}
	if c.Src.PP != nil {
		m |= 2
	}
	if c.Src.To != nil {
		m |= 4
	}
	o.Class(fmt.Sprintf("from/pp/to=%03b", m))
	if c.Doc != nil {
		o.Class("resource=" + c.Doc.Kind)
	}
	o.NonTrivial = c.Src.PP != nil || c.Doc != nil || c.Reason != nil
}

func TestC11(t *testing.T) {
	rec := NewRecorder("C11", "TestC11")
	depth := Scale(3, 5)
	var rig *rtRig
	rapid.Check(t, func(rt *rapid.T) {
		c := genC11(rt, depth)
		if rig == nil || !rig.ok() {
			rig = newRTRig()
		}
		o := &Outcome{}
		classifyC11(c, o)
		runC11(c, rig, o)
		if len(o.Violations) > 0 {
			rig = nil
		}
		rec.Check(rt, c, o)
	})
}

func TestC11Replay(t *testing.T) {
	rec := NewRecorder("C11", "TestC11Replay")
	defer rec.Finish(t)
	for _, f := range ReplayFiles("C11") {
		if tn := CaseTest(f); tn != "" && tn != "TestC11" && tn != "TestC11Replay" {
			continue
		}
		var c c11Case
		if err := LoadCase(f, &c); err != nil || c.Builder == "" {
			continue
		}
		o := &Outcome{}
		classifyC11(&c, o)
		runC11(&c, newRTRig(), o)
		rec.Eval(&c, o)
	}
}

// ---- ping auto-reply, end to end over real loopback TCP (a serialising transport) ----

type pingCase struct {
	Role string    `json:"role"` // which side auto-replies: server | client
	ID   string    `json:"id"`
	From *NodeSpec `json:"from,omitempty"`
	PP   *NodeSpec `json:"pp,omitempty"`
	To   *NodeSpec `json:"to,omitempty"`
	URI  string    `json:"uri"`
}

func freePort(t *testing.T) int {
	l, err := net.Listen("tcp", "127.0.0.1:0")
	if err != nil {
		t.Skipf("no loopback: %v", err)
	}
	p := l.Addr().(*net.TCPAddr).Port
	l.Close()
	return p
}

func pingRequest(c *pingCase) *lime.RequestCommand {
	req := &lime.RequestCommand{}
	req.ID = c.ID
	req.From, req.PP, req.To = c.From.Node(), c.PP.Node(), c.To.Node()
	req.Method = lime.CommandMethodGet
	req.SetURIString(c.URI)
	return req
}

func judgePing(c *pingCase, resp *lime.ResponseCommand, err error, o *Outcome) {
	if err != nil {
		o.Fail("C11/ping/no-response/"+c.Role, "ProcessCommand(get %s) against an endpoint with AutoReplyPings: %v", c.URI, err)
		return
	}
	want := M{"id": c.ID, "method": "get", "status": "success", "type": "application/vnd.lime.ping+json", "resource": M{}}
	src := EnvSpec{From: c.From, PP: c.PP, To: c.To}
	putNode(want, "from", c.To.Node())
	putNode(want, "to", expectedSender(&src))
	got, _ := CanonOf(resp)
	if d := DiffGeneric(want, got, "response"); d != "" {
		o.Fail("C11/ping/fields/"+c.Role+"/"+fieldOf(d), "ping response differs: %s", d)
	}
	if _, ok := resp.Resource.(*lime.Ping); !ok && resp.Resource != nil {
		o.Fail("C11/ping/resource-kind/"+c.Role, "resource is %T", resp.Resource)
	}
}

func runPingServer(t *testing.T, cases []*pingCase, rec *Recorder) {
	port := freePort(t)
	addr := &net.TCPAddr{IP: net.IPv4(127, 0, 0, 1), Port: port}
	srv := lime.NewServerBuilder().Name("postmaster").Domain("example.org").Instance("s1").
		EnableGuestAuthentication().AutoReplyPings().ListenTCP(addr, nil).Build()
	done := make(chan error, 1)
	go func() { done <- srv.ListenAndServe() }()
	defer func() { _ = srv.Close(); <-done }()
	var tr lime.Transport
	var err error
	for i := 0; i < 100; i++ {
		ctx, cancel := context.WithTimeout(context.Background(), time.Second)
		tr, err = lime.DialTcp(ctx, addr, nil)
		cancel()
		if err == nil {
			break
		}
		time.Sleep(20 * time.Millisecond)
	}
	if err != nil {
		t.Fatalf("dial: %v", err)
	}
	ch := lime.NewClientChannel(tr, 8)
	ctx, cancel := context.WithTimeout(context.Background(), 10*time.Second)
	defer cancel()
	ses, err := ch.EstablishSession(ctx, lime.NoneCompressionSelector, lime.NoneEncryptionSelector,
		lime.Identity{Name: lime.NewEnvelopeID(), Domain: "example.org"}, lime.GuestAuthenticator, "i1")
	if err != nil || ses.State != lime.SessionStateEstablished {
		t.Fatalf("establish: %v %v", ses, err)
	}
	defer ch.Close()
	for _, c := range cases {
		o := &Outcome{NonTrivial: true}
		o.Class("ping-role=server")
		pctx, pc := context.WithTimeout(context.Background(), 2*time.Second)
		resp, err := ch.ProcessCommand(pctx, pingRequest(c))
		pc()
		judgePing(c, resp, err, o)
		rec.Eval(c, o)
		if !ch.Established() {
			return // the session did not survive; remaining cases cannot be judged on it
		}
	}
}

func runPingClient(t *testing.T, cases []*pingCase, rec *Recorder) {
	l, err := net.Listen("tcp", "127.0.0.1:0")
	if err != nil {
		t.Skipf("no loopback: %v", err)
	}
	defer l.Close()
	client := lime.NewClientBuilder().UseTCP(l.Addr(), nil).Name("cli").Domain("example.org").Instance("c1").
		GuestAuthentication().AutoReplyPings().Build()
	defer client.Close()
	go func() {
		ctx, cancel := context.WithTimeout(context.Background(), 10*time.Second)
		defer cancel()
		_ = client.Establish(ctx)
	}()
	conn, err := l.Accept()
	if err != nil {
		t.Fatalf("accept: %v", err)
	}
	st := lime.VerifNewTCPTransport(conn, nil, true)
	sc := lime.NewServerChannel(st, 8, lime.Node{Identity: lime.Identity{Name: "postmaster", Domain: "example.org"}, Instance: "s1"}, lime.NewEnvelopeID())
	ctx, cancel := context.WithTimeout(context.Background(), 10*time.Second)
	defer cancel()
	err = sc.EstablishSession(ctx, []lime.SessionCompression{lime.SessionCompressionNone}, []lime.SessionEncryption{lime.SessionEncryptionNone},
		[]lime.AuthenticationScheme{lime.AuthenticationSchemeGuest},
		func(context.Context, lime.Identity, lime.Authentication) (*lime.AuthenticationResult, error) {
			return lime.MemberAuthenticationResult(), nil
		},
		func(_ context.Context, n lime.Node, _ *lime.ServerChannel) (lime.Node, error) { return n, nil })
	if err != nil || !sc.Established() {
		t.Fatalf("server establish: %v", err)
	}
	defer sc.Close()
	for _, c := range cases {
		o := &Outcome{NonTrivial: true}
		o.Class("ping-role=client")
		pctx, pc := context.WithTimeout(context.Background(), 2*time.Second)
		resp, err := sc.ProcessCommand(pctx, pingRequest(c))
		pc()
		judgePing(c, resp, err, o)
		rec.Eval(c, o)
		if !sc.Established() {
			return
		}
	}
}

func TestC11Ping(t *testing.T) {
	rec := NewRecorder("C11", "TestC11Ping")
	defer rec.Finish(t)
	n1 := &NodeSpec{Name: "alice", Domain: "example.org", Instance: "home"}
	n2 := &NodeSpec{Name: "bob", Domain: "example.org"}
	// destinations relative to the endpoint that answers: none, its complete address, its identity only, its identity with
	// another instance, somebody else (the reply's origin is the request's destination, whatever it is)
	self := map[string]*NodeSpec{"server": {Name: "postmaster", Domain: "example.org", Instance: "s1"}, "client": {Name: "cli", Domain: "example.org", Instance: "c1"}}
	toOf := func(role, kind string) *NodeSpec {
		me := self[role]
		switch kind {
		case "self-full":
			return me
		case "self-identity":
			return &NodeSpec{Name: me.Name, Domain: me.Domain}
		case "self-other-instance":
			return &NodeSpec{Name: me.Name, Domain: me.Domain, Instance: "elsewhere"}
		case "unrelated":
			return &NodeSpec{Name: "carol", Domain: "other.example", Instance: "x"}
		}
		return nil
	}
	for _, role := range []string{"server", "client"} {
		var cs []*pingCase
		i := 0
		for mask := 0; mask < 4; mask++ {
			for _, toKind := range []string{"none", "self-full", "self-identity", "self-other-instance", "unrelated"} {
				for _, uri := range []string{"/ping", "lime://example.org/ping"} {
					c := &pingCase{ID: fmt.Sprintf("ping-%d", i), URI: uri, Role: role, To: toOf(role, toKind)}
					i++
					if mask&1 != 0 {
						c.From = n1
					}
					if mask&2 != 0 {
						c.PP = n2
					}
					cs = append(cs, c)
				}
			}
		}
		if role == "server" {
			runPingServer(t, cs, rec)
		} else {
			runPingClient(t, cs, rec)
		}
	}
	rec.Note("exhaustive", "true")
}
