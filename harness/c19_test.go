//go:build go1.25

package harness

import (
	"bytes"
	"context"
	"fmt"
	"os"
	"runtime"
	"strings"
	"sync"
	"sync/atomic"
	"testing"
	"testing/synctest"
	"time"

	lime "github.com/takenet/lime-go"
	"pgregory.net/rapid"
)

type c19Fault struct {
	Kind   string `json:"kind"`   // server-finish | server-fail | cut | half-close | reset-read | garbage | non-envelope | oversized | regress-session | eof
	Moment string `json:"moment"` // idle | during-send | during-inbound | backlog (the client's handler is stuck with inbound envelopes queued; the application sends right after the fault)
}

type c19Case struct {
	Transport string     `json:"transport"` // fconn | fconn-tls | inproc
	Faults    []c19Fault `json:"faults"`
	ChanBuf   int        `json:"chanBuf"`
	Senders   int        `json:"senders,omitempty"` // goroutines sending through the Client around a "during-send" fault (default 1)
}

type c19Round struct {
	Fault         string `json:"fault"`
	SessionsAfter int    `json:"sessionsAfter"`
	SendErr       string `json:"sendErr,omitempty"`
	SendLatencyMs int64  `json:"sendLatencyMs"`
	NewSession    bool   `json:"newSession"`   // the probe message was handled under a session id not seen before the fault
	ProbeHandled  bool   `json:"probeHandled"` // the server handler saw the probe message
	PushHandled   bool   `json:"pushHandled"`  // a message pushed by the server on the new session reached the client's handler
	Spinning      bool   `json:"spinning"`
}

type c19Obs struct {
	Note         string     `json:"note,omitempty"`
	Rounds       []c19Round `json:"rounds"`
	OKNotSent    []string   `json:"okNotSent,omitempty"`    // ids whose SendMessage returned nil but which never appeared on any connection
	OKNotHandled []string   `json:"okNotHandled,omitempty"` // ids sent after a fault had settled whose SendMessage returned nil but which no session of the server ever handled
	Sessions     int        `json:"sessions"`
	Leftover     string     `json:"leftover,omitempty"` // library goroutines alive after Client.Close, Server.Close and the release bound
}

const c19ReadLimit = 4096

// heartbeat for the real-time watchdog that lives outside the bubble
var c19Beat int64
var c19Current atomic.Value // journalled case (JSON) for the watchdog's report

func runC19(c *c19Case) *c19Obs {
	obs := &c19Obs{}
	var mu sync.Mutex
	handledBy := map[string]string{} // message id -> session id
	var sessions []*lime.ServerChannel
	var sessionIDs []string
	estCh := make(chan *lime.ServerChannel, 16)
	cfg := lime.NewServerConfig()
	cfg.Node = srvNode
	cfg.SchemeOpts = []lime.AuthenticationScheme{lime.AuthenticationSchemeGuest}
	cfg.EncryptOpts = []lime.SessionEncryption{lime.SessionEncryptionNone}
	tlsOn := c.Transport == "fconn-tls"
	if tlsOn {
		cfg.EncryptOpts = []lime.SessionEncryption{lime.SessionEncryptionTLS}
	}
	cfg.ChannelBufferSize = c.ChanBuf
	var refusing int32 // while set the server answers every handshake with a failed session (credentials revoked, say)
	cfg.Authenticate = func(context.Context, lime.Identity, lime.Authentication) (*lime.AuthenticationResult, error) {
		if atomic.LoadInt32(&refusing) != 0 {
			return lime.UnknownAuthenticationResult(), nil
		}
		return lime.MemberAuthenticationResult(), nil
	}
	cfg.Register = func(_ context.Context, n lime.Node, _ *lime.ServerChannel) (lime.Node, error) { return n, nil }
	cfg.Established = func(id string, ch *lime.ServerChannel) {
		mu.Lock()
		sessions = append(sessions, ch)
		sessionIDs = append(sessionIDs, id)
		mu.Unlock()
		select {
		case estCh <- ch:
		default:
		}
	}
	smux := &lime.EnvelopeMux{}
	var srvGate atomic.Value // chan struct{}: while set, the server's handler stays in messages whose id starts with "stall-"
	smux.MessageHandlerFunc(nil, func(ctx context.Context, m *lime.Message, _ lime.Sender) error {
		sid, _ := lime.ContextSessionID(ctx)
		mu.Lock()
		handledBy[m.ID] = sid
		mu.Unlock()
		if g, _ := srvGate.Load().(chan struct{}); g != nil && strings.HasPrefix(m.ID, "stall-") {
			<-g
		}
		return nil
	})
	openSrvGate := func() {
		if g, _ := srvGate.Load().(chan struct{}); g != nil {
			srvGate.Store((chan struct{})(nil))
			close(g)
		}
	}
	defer openSrvGate()
	stls, ctls := TLSConfigs()
	srvTCP, cliTCP := &lime.TCPConfig{ReadLimit: c19ReadLimit}, &lime.TCPConfig{ReadLimit: c19ReadLimit}
	if tlsOn {
		srvTCP.TLSConfig, cliTCP.TLSConfig = stls, ctls
	}
	fl := NewFListener(srvTCP, PipeOpts{Capture: true})
	addr := lime.InProcessAddr("c19")
	var bl lime.BoundListener
	if c.Transport == "inproc" {
		bl = lime.NewBoundListener(lime.NewInProcessTransportListener(addr), addr)
	} else {
		bl = lime.NewBoundListener(fl, FAddr)
	}
	server := lime.NewServer(cfg, smux, bl)
	done := make(chan error, 1)
	go func() { done <- server.ListenAndServe() }()
	synctest.Wait()

	// the client under test
	clientGot := map[string]bool{}
	cmux := &lime.EnvelopeMux{}
	var gate atomic.Value // chan struct{}: while set, the client's handler waits on it
	cmux.MessageHandlerFunc(nil, func(_ context.Context, m *lime.Message, _ lime.Sender) error {
		if g, _ := gate.Load().(chan struct{}); g != nil {
			<-g
		}
		mu.Lock()
		clientGot[m.ID] = true
		mu.Unlock()
		return nil
	})
	ccfg := lime.NewClientConfig()
	ccfg.Node = lime.Node{Identity: lime.Identity{Name: "alice", Domain: "cli.example"}, Instance: "home"}
	ccfg.ChannelBufferSize = c.ChanBuf
	ccfg.CompSelector = lime.NoneCompressionSelector
	ccfg.EncryptSelector = lime.NoneEncryptionSelector
	if tlsOn {
		ccfg.EncryptSelector = lime.TLSEncryptionSelector
	}
	ccfg.Authenticator = lime.GuestAuthenticator
	ccfg.NewTransport = func(context.Context) (lime.Transport, error) {
		if c.Transport == "inproc" {
			if c.Senders > 1 {
				// senders queue behind the send mutex, which a bubble does not see as blocked: leave room for all they send
				return lime.DialInProcess(addr, 64)
			}
			return lime.DialInProcess(addr, 4)
		}
		t, _, err := fl.DialTransport(cliTCP)
		return t, err
	}
	client := lime.NewClient(ccfg, cmux)
	ectx, ecancel := context.WithTimeout(context.Background(), 20*time.Second)
	err := client.Establish(ectx)
	ecancel()
	if err != nil {
		obs.Note = "harness: initial establish: " + err.Error()
		_ = client.Close()
		_ = server.Close()
		<-done
		return obs
	}
	var sc *lime.ServerChannel
	select {
	case sc = <-estCh:
	case <-time.After(5 * time.Second):
		obs.Note = "harness: no session reported"
	}
	synctest.Wait()
	var okIDs []string
	var postFaultOK []string // sent after a fault had settled and reported sent: must be handled by the server
	seq := 0
	sendProbe := func(timeout time.Duration) (string, error, time.Duration) {
		seq++
		id := fmt.Sprintf("probe-%d", seq)
		ctx, cancel := context.WithTimeout(context.Background(), timeout)
		t0 := time.Now()
		err := client.SendMessage(ctx, c13Message(id))
		cancel()
		if err == nil {
			okIDs = append(okIDs, id)
		}
		return id, err, time.Since(t0)
	}
	lastConn := func() *FLConn {
		fl.mu.Lock()
		defer fl.mu.Unlock()
		if len(fl.Conns) == 0 {
			return nil
		}
		return fl.Conns[len(fl.Conns)-1]
	}
	for fi, f := range c.Faults {
		if obs.Note != "" || sc == nil {
			break
		}
		atomic.AddInt64(&c19Beat, 1)
		mu.Lock()
		known := map[string]bool{}
		for _, id := range sessionIDs {
			known[id] = true
		}
		mu.Unlock()
		// traffic around the moment of the fault
		var bg sync.WaitGroup
		openGate := func() {}
		moment := f.Moment
		if f.Kind == "stalled-send" {
			// the stalled sends are the traffic of this fault; another sender would queue behind them on the channel's send lock,
			// and a lock wait stops the virtual clock their deadlines depend on
			moment = "idle"
		}
		switch moment {
		case "during-send":
			senders := c.Senders
			if senders < 1 {
				senders = 1
			}
			for g := 0; g < senders; g++ {
				bg.Add(1)
				go func() {
					defer bg.Done()
					for k := 0; k < 6; k++ {
						ctx, cancel := context.WithTimeout(context.Background(), 2*time.Second)
						id := fmt.Sprintf("bg-%d-%d-%d", fi, g, k)
						if err := client.SendMessage(ctx, c13Message(id)); err == nil {
							mu.Lock()
							okIDs = append(okIDs, id)
							mu.Unlock()
						}
						cancel()
						runtime.Gosched()
					}
				}()
			}
		case "backlog":
			// the client's handler gets stuck on the first of a series of pushed messages: the rest stays queued in the
			// client's channel and transport when the fault comes
			g := make(chan struct{})
			gate.Store(g)
			openGate = func() { gate.Store((chan struct{})(nil)); close(g) }
			for k := 0; k < c.ChanBuf+6; k++ {
				ctx, cancel := context.WithTimeout(context.Background(), 200*time.Millisecond)
				_ = sc.SendMessage(ctx, c13Message(fmt.Sprintf("backlog-%d-%d", fi, k)))
				cancel()
			}
			synctest.Wait()
		case "during-inbound":
			bg.Add(1)
			cur := sc
			go func() {
				defer bg.Done()
				for k := 0; k < 6; k++ {
					ctx, cancel := context.WithTimeout(context.Background(), 2*time.Second)
					_ = cur.SendMessage(ctx, c13Message(fmt.Sprintf("in-%d-%d", fi, k)))
					cancel()
					runtime.Gosched()
				}
			}()
		}
		runtime.Gosched()
		conn := lastConn()
		fctx, fcancel := context.WithTimeout(context.Background(), 2*time.Second)
		if f.Kind != "stalled-send" {
			openSrvGate() // a session an earlier round left stalled is let go
		}
		switch f.Kind {
		case "server-finish":
			_ = sc.FinishSession(fctx)
		case "server-fail":
			_ = sc.FailSession(fctx, &lime.Reason{Code: 7, Description: "maintenance"})
		case "cut":
			if conn != nil {
				conn.Server.Cut()
			} else {
				_ = sc.Close()
			}
		case "eof", "half-close":
			if conn != nil {
				if f.Kind == "eof" {
					_ = conn.Server.Close()
				} else {
					conn.Server.CloseWrite()
				}
			} else {
				_ = sc.Close()
			}
		case "refuse":
			// the session is dropped and for the next three seconds the server refuses every new handshake: the client has to
			// keep trying at a civil pace and get through once the server accepts again
			atomic.StoreInt32(&refusing, 1)
			time.AfterFunc(3*time.Second, func() { atomic.StoreInt32(&refusing, 0) })
			if conn != nil {
				_ = conn.Server.Close()
			} else {
				_ = sc.Close()
			}
		case "garbage":
			if conn != nil {
				_, _ = conn.Server.Write([]byte("}}} not json at all {{{\n"))
			}
		case "non-envelope":
			if conn != nil {
				_, _ = conn.Server.Write([]byte("{\"hello\":\"world\",\"n\":[1,2,3]}\n"))
			}
		case "oversized":
			if conn != nil {
				big := bytes.Repeat([]byte("x"), 3*c19ReadLimit)
				_, _ = conn.Server.Write([]byte("{\"id\":\"big\",\"type\":\"text/plain\",\"content\":\"" + string(big) + "\"}\n"))
			}
		case "regress-session":
			if conn != nil {
				_, _ = conn.Server.Write([]byte("{\"id\":\"" + sc.ID() + "\",\"from\":\"postmaster@srv.example/s1\",\"state\":\"negotiating\"}\n"))
			}
		case "stalled-send":
			// the server stops reading for a while; the application keeps sending with short deadlines until the buffers are full
			// and a send is given up half way: the session is lost by that (a TCP stream cannot carry another envelope after a
			// torn one, TLS cannot even say how far it got), and the client has to come back on a fresh one
			if conn != nil {
				openSrvGate()
				srvGate.Store(make(chan struct{}))             // the dispatch loop of this session stays in its handler: the server stops consuming
				payload := strings.Repeat("s", c19ReadLimit/2) // well within the server's read limit
				for k := 0; k < 200; k++ {
					m := &lime.Message{}
					m.ID = fmt.Sprintf("stall-%d-%d", fi, k)
					m.SetContent(lime.TextDocument(payload))
					ctx, cancel := context.WithTimeout(context.Background(), 300*time.Millisecond)
					err := client.SendMessage(ctx, m)
					cancel()
					if err != nil {
						break
					}
				}
				time.Sleep(2 * time.Second)
			}
		case "repeat-established":
			// the server says established once more on the established session (no session envelope but finished / failed has a
			// place there): whatever the client makes of it, it must not stay deaf on that connection
			if conn != nil {
				_, _ = conn.Server.Write([]byte("{\"id\":\"" + sc.ID() + "\",\"from\":\"postmaster@srv.example/s1\",\"to\":\"alice@cli.example/home\",\"state\":\"established\"}\n"))
			}
		}
		fcancel()
		bg.Wait()
		synctest.Wait()
		if moment == "backlog" {
			// the fault has settled; the application sends while its handler is still stuck. Whatever is reported sent must
			// reach the server (on whatever session); a failure is fine
			for k := 0; k < 3; k++ {
				id := fmt.Sprintf("early-%d-%d", fi, k)
				ctx, cancel := context.WithTimeout(context.Background(), 200*time.Millisecond)
				err := client.SendMessage(ctx, c13Message(id))
				cancel()
				if err == nil {
					postFaultOK = append(postFaultOK, id)
				}
				synctest.Wait()
			}
			openGate()
			synctest.Wait()
		}
		// let the bound pass; if something spins, the fake clock cannot advance and the watchdog outside the bubble reports it
		time.Sleep(2 * time.Second)
		synctest.Wait()
		r := c19Round{Fault: f.Kind + "@" + f.Moment}
		// (a) an application call succeeds and is carried by a new session
		id, err, lat := sendProbe(30 * time.Second)
		r.SendLatencyMs = lat.Milliseconds()
		if err != nil {
			r.SendErr = err.Error()
		} else {
			postFaultOK = append(postFaultOK, id)
		}
		synctest.Wait()
		time.Sleep(100 * time.Millisecond)
		synctest.Wait()
		mu.Lock()
		sid, handled := handledBy[id]
		r.ProbeHandled = handled
		r.NewSession = handled && !known[sid]
		r.SessionsAfter = len(sessionIDs)
		var newest *lime.ServerChannel
		if len(sessions) > 0 {
			newest = sessions[len(sessions)-1]
		}
		mu.Unlock()
		// (b) a push on the newest session reaches the client's handler
		if newest != nil {
			pid := fmt.Sprintf("push-%d", fi)
			ctx, cancel := context.WithTimeout(context.Background(), 2*time.Second)
			_ = newest.SendMessage(ctx, c13Message(pid))
			cancel()
			synctest.Wait()
			time.Sleep(100 * time.Millisecond)
			synctest.Wait()
			mu.Lock()
			r.PushHandled = clientGot[pid]
			mu.Unlock()
			sc = newest
		}
		obs.Rounds = append(obs.Rounds, r)
	}
	// (d) every successful send was written to some connection
	if c.Transport == "fconn" {
		var all []byte
		fl.mu.Lock()
		for _, cn := range fl.Conns {
			all = append(all, cn.Client.Captured()...)
		}
		fl.mu.Unlock()
		mu.Lock()
		for _, id := range okIDs {
			if !bytes.Contains(all, []byte("\""+id+"\"")) {
				obs.OKNotSent = append(obs.OKNotSent, id)
			}
		}
		mu.Unlock()
	}
	synctest.Wait()
	mu.Lock()
	obs.Sessions = len(sessionIDs)
	for _, id := range postFaultOK {
		if _, ok := handledBy[id]; !ok {
			obs.OKNotHandled = append(obs.OKNotHandled, id)
		}
	}
	mu.Unlock()
	openSrvGate() // a session left stalled by the last round is let go before everything is closed
	_ = client.Close()
	_ = server.Close()
	<-done
	fl.mu.Lock()
	for _, cn := range fl.Conns {
		_ = cn.Client.Close()
		_ = cn.Server.Close()
	}
	fl.mu.Unlock()
	time.Sleep(6 * time.Second)
	synctest.Wait()
	if lib, _ := bubbleLeftovers(); len(lib) > 0 {
		obs.Leftover = strings.Join(lib, "\n--\n")
		// release what is left so that the bubble can end: closing every in-process pair is not possible from here, the
		// verdict has been recorded
	}
	return obs
}

// c19InBubble runs one case in a bubble. When library goroutines are still blocked at the end (recorded in the
// observation as a leftover), the bubble refuses to end ("blocked goroutines remain"): that panic is absorbed here, the
// verdict is in the observation.
func c19InBubble(t *testing.T, c *c19Case) *c19Obs {
	var obs *c19Obs
	if p := Protect(func() { synctest.Test(t, func(t *testing.T) { obs = runC19(c) }) }); p != "" {
		if obs == nil || obs.Leftover == "" || !strings.Contains(p, "blocked goroutines remain") {
			panic(p)
		}
	}
	return obs
}

func judgeC19(c *c19Case, obs *c19Obs, o *Outcome) {
	o.Class("transport=" + c.Transport)
	if strings.HasPrefix(obs.Note, "harness:") {
		o.Fail("C19/harness", "%s", obs.Note)
		return
	}
	for i, r := range obs.Rounds {
		f := c.Faults[i]
		o.Class("fault=" + f.Kind)
		o.Class("moment=" + f.Moment)
		if f.Kind != "server-finish" || len(c.Faults) >= 2 {
			o.NonTrivial = true
		}
		key := c.Transport + "/" + f.Kind
		if r.SendErr != "" {
			o.Fail("C19/send-after-fault-failed/"+key, "round %d (%s): SendMessage with a 30 s context failed after %d ms: %s", i, r.Fault, r.SendLatencyMs, r.SendErr)
			return
		}
		if !r.NewSession {
			what := "was never handled by the server"
			if r.ProbeHandled {
				what = "was handled on the old session"
			}
			o.Fail("C19/no-new-session/"+key, "round %d (%s): the message sent after the fault %s (sessions so far: %d)", i, r.Fault, what, r.SessionsAfter)
			return
		}
		if !r.PushHandled {
			o.Fail("C19/deaf-after-fault/"+key, "round %d (%s): a message pushed on the new session did not reach the client's handler", i, r.Fault)
			return
		}
	}
	if obs.Leftover != "" {
		o.Fail("C19/goroutine-left/"+c.Transport, "after Client.Close, Server.Close and the release bound library goroutines are still alive:\n%s", truncate(obs.Leftover, 2500))
	}
	if len(obs.OKNotHandled) > 0 {
		o.Fail("C19/send-ok-but-not-delivered/"+c.Transport, "SendMessage returned nil for %v, sent after a fault had settled, but no session of the server ever handled them", obs.OKNotHandled)
	}
	if len(obs.OKNotSent) > 0 {
		o.Fail("C19/send-ok-but-not-written/"+c.Transport, "SendMessage returned nil for %v but the bytes never appeared on any connection", obs.OKNotSent)
	}
}

var c19Faults = []string{"server-finish", "server-fail", "cut", "eof", "half-close", "garbage", "non-envelope", "oversized", "regress-session", "repeat-established", "stalled-send", "refuse"}

func c19Watchdog(rec *Recorder, stop chan struct{}) {
	// real time, outside any bubble: a spinning library goroutine freezes the bubble's fake clock
	last := atomic.LoadInt64(&c19Beat)
	idle := 0
	for {
		select {
		case <-stop:
			return
		case <-time.After(time.Second):
		}
		cur := atomic.LoadInt64(&c19Beat)
		if cur != last {
			last, idle = cur, 0
			continue
		}
		idle++
		if idle < 8 {
			continue
		}
		// no progress for 8 s of real time: take two dumps one second apart and look for a running library goroutine
		spin := func() string {
			buf := make([]byte, 1<<20)
			n := runtime.Stack(buf, true)
			for _, g := range strings.Split(string(buf[:n]), "\n\n") {
				head := strings.SplitN(g, "\n", 2)[0]
				if (strings.Contains(head, "[running") || strings.Contains(head, "[runnable")) && strings.Contains(g, "github.com/takenet/lime-go") {
					return truncate(g, 1500)
				}
			}
			return ""
		}
		s1 := spin()
		time.Sleep(time.Second)
		s2 := spin()
		cs, _ := c19Current.Load().(string)
		if s1 != "" && s2 != "" {
			sig := "C19/wedged-spinning"
			if m := limeFrameRe.FindStringSubmatch(s2); m != nil {
				sig += "/" + m[1]
			}
			var cc c19Case
			_ = jsonUnmarshal(cs, &cc)
			if len(cc.Faults) > 0 {
				sig = "C19/wedged-spinning/" + cc.Transport + "/" + cc.Faults[0].Kind
			}
			WriteFuzzViolation("C19", Verdict{Sig: sig, Detail: "after the fault the client's listener busy-loops (the fake clock of the bubble cannot advance; two dumps one second apart show):\n" + s2}, rawJSON(cs))
		} else if locked := libGoroutines(func(head, _ string) bool {
			return strings.Contains(head, "sync.Mutex.Lock") || strings.Contains(head, "sync.RWMutex")
		}); len(locked) > 0 {
			frame := "unknown"
			if m := limeFrameRe.FindStringSubmatch(locked[0]); m != nil {
				frame = m[1]
			}
			WriteFuzzViolation("C19", Verdict{Sig: "C19/wedged-waiting-for-a-lock/" + frame, Detail: "no progress for 8 s; library goroutines wait for a lock that is never released (the client cannot send, re-establish or listen any more):\n" + truncate(strings.Join(locked, "\n\n"), 20000)}, rawJSON(cs))
		} else {
			buf := make([]byte, 4<<20)
			n := runtime.Stack(buf, true)
			var libs []string
			for _, g := range strings.Split(string(buf[:n]), "\n\n") {
				if strings.Contains(g, "github.com/takenet/lime-go") || strings.Contains(g, "verif/harness") {
					libs = append(libs, truncate(g, 900))
				}
			}
			WriteFuzzViolation("C19", Verdict{Sig: "C19/harness/stalled", Detail: "no progress for 8 s without a running library goroutine:\n" + truncate(strings.Join(libs, "\n\n"), 30000)}, rawJSON(cs))
		}
		FlushAll()
		os.Exit(7)
	}
}

func TestC19Enum(t *testing.T) {
	rec := NewRecorder("C19", "TestC19Enum")
	defer rec.Finish(t)
	stop := make(chan struct{})
	go c19Watchdog(rec, stop)
	defer close(stop)
	sh, nsh := Shard()
	idx := 0
	for _, tr := range []string{"fconn", "fconn-tls", "inproc"} {
		for _, kind := range c19Faults {
			if tr == "inproc" && kind != "server-finish" && kind != "server-fail" && kind != "eof" && kind != "refuse" {
				continue // byte-level faults need a byte stream
			}
			for _, moment := range []string{"idle", "during-send", "during-inbound", "backlog"} {
				for _, reps := range []int{1, 3} {
					idx++
					if idx%nsh != sh {
						continue
					}
					c := &c19Case{Transport: tr, ChanBuf: 4}
					for k := 0; k < reps; k++ {
						c.Faults = append(c.Faults, c19Fault{Kind: kind, Moment: moment})
					}
					if rec.IsOpen("C19/wedged-spinning/" + tr + "/" + kind) {
						// the case would freeze the bubble: count it as excluded by the known finding, do not run it
						o := &Outcome{NonTrivial: true}
						o.Fail("C19/wedged-spinning/"+tr+"/"+kind, "not executed: listed as an open finding (the client busy-loops after this fault)")
						rec.Eval(c, o)
						continue
					}
					o := &Outcome{}
					var obs *c19Obs
					rec.Journal(c)
					c19Current.Store(string(toRaw(c)))
					obs = c19InBubble(t, c)
					atomic.AddInt64(&c19Beat, 1)
					judgeC19(c, obs, o)
					rec.Eval(c, o)
				}
			}
		}
	}
	rec.Note("exhaustive", "true")
}

// TestC19Flap: many goroutines send through one Client while its session is taken away again and again (the callers, the
// Client's listener and the rebuild all meet in getOrBuildChannel).
func TestC19Flap(t *testing.T) {
	rec := NewRecorder("C19", "TestC19Flap")
	defer rec.Finish(t)
	stop := make(chan struct{})
	go c19Watchdog(rec, stop)
	defer close(stop)
	sh, nsh := Shard()
	idx := 0
	for rep := 0; rep < Scale(2, 40); rep++ {
		for _, tr := range []string{"inproc", "fconn", "fconn-tls"} {
			for _, kind := range []string{"eof", "server-fail", "server-finish", "cut"} {
				if tr == "inproc" && kind == "cut" {
					continue
				}
				for _, buf := range []int{0, 1, 8} {
					idx++
					if idx%nsh != sh {
						continue
					}
					c := &c19Case{Transport: tr, ChanBuf: buf, Senders: 8}
					for k := 0; k < 10; k++ {
						c.Faults = append(c.Faults, c19Fault{Kind: kind, Moment: "during-send"})
					}
					o := &Outcome{}
					var obs *c19Obs
					rec.Journal(c)
					c19Current.Store(string(toRaw(c)))
					obs = c19InBubble(t, c)
					atomic.AddInt64(&c19Beat, 1)
					judgeC19(c, obs, o)
					o.Class("senders=8")
					rec.Eval(c, o)
				}
			}
		}
	}
}

func TestC19(t *testing.T) {
	rec := NewRecorder("C19", "TestC19")
	stop := make(chan struct{})
	go c19Watchdog(rec, stop)
	defer close(stop)
	rapid.Check(t, func(rt *rapid.T) {
		c := &c19Case{Transport: rapid.SampledFrom([]string{"fconn", "fconn", "fconn-tls", "inproc"}).Draw(rt, "transport"), ChanBuf: rapid.SampledFrom([]int{0, 1, 8}).Draw(rt, "chanBuf"),
			Senders: rapid.SampledFrom([]int{1, 1, 2, 8}).Draw(rt, "senders")}
		n := rapid.IntRange(1, 4).Draw(rt, "reps")
		for i := 0; i < n; i++ {
			kinds := c19Faults
			if c.Transport == "inproc" {
				kinds = []string{"server-finish", "server-fail", "eof", "refuse"}
			}
			var usable []string
			for _, k := range kinds {
				if !rec.IsOpen("C19/wedged-spinning/" + c.Transport + "/" + k) {
					usable = append(usable, k)
				}
			}
			c.Faults = append(c.Faults, c19Fault{Kind: rapid.SampledFrom(usable).Draw(rt, "kind"), Moment: rapid.SampledFrom([]string{"idle", "during-send", "during-inbound", "backlog"}).Draw(rt, "moment")})
		}
		o := &Outcome{}
		var obs *c19Obs
		rec.Journal(c)
		c19Current.Store(string(toRaw(c)))
		rapid.SyncTest(rt, func(rt *rapid.T) { obs = runC19(c) })
		atomic.AddInt64(&c19Beat, 1)
		judgeC19(c, obs, o)
		rec.Check(rt, c, o)
	})
}

func TestC19Replay(t *testing.T) {
	rec := NewRecorder("C19", "TestC19Replay")
	defer rec.Finish(t)
	stop := make(chan struct{})
	go c19Watchdog(rec, stop)
	defer close(stop)
	for _, f := range ReplayFiles("C19") {
		var c c19Case
		if err := LoadCase(f, &c); err != nil || len(c.Faults) == 0 {
			continue
		}
		if rec.IsOpen("C19/wedged-spinning/" + c.Transport + "/" + c.Faults[0].Kind) {
			continue
		}
		o := &Outcome{}
		var obs *c19Obs
		c19Current.Store(string(toRaw(&c)))
		obs = c19InBubble(t, &c)
		atomic.AddInt64(&c19Beat, 1)
		judgeC19(&c, obs, o)
		if os.Getenv("VERIF_DEBUG") != "" {
			t.Logf("obs: %s", toRaw(obs))
		}
		rec.Eval(&c, o)
	}
}
