package harness

import (
	"context"
	"fmt"
	"sync"
	"testing"
	"time"

	lime "github.com/takenet/lime-go"
	"pgregory.net/rapid"
)

// establishedRealChannels: library client and server channels established over real loopback sockets.
func establishedRealChannels(kind string, chanBuf int) (*lime.ClientChannel, *lime.ServerChannel, func(), string) {
	l, addr, err := NewRealListener(kind, 0)
	if err != nil {
		return nil, nil, func() {}, "skip: " + err.Error()
	}
	ctx, cancel := context.WithTimeout(context.Background(), 10*time.Second)
	defer cancel()
	type res struct {
		t   lime.Transport
		err error
	}
	ch := make(chan res, 1)
	go func() { t, err := l.Accept(ctx); ch <- res{t, err} }()
	var ct lime.Transport
	for i := 0; i < 50; i++ {
		if ct, err = DialReal(ctx, kind, addr); err == nil {
			break
		}
		time.Sleep(20 * time.Millisecond)
	}
	if err != nil {
		_ = l.Close()
		return nil, nil, func() {}, "skip: dial: " + err.Error()
	}
	r := <-ch
	if r.err != nil {
		_ = ct.Close()
		_ = l.Close()
		return nil, nil, func() {}, "skip: accept: " + r.err.Error()
	}
	cc := lime.NewClientChannel(ct, chanBuf)
	sc := lime.NewServerChannel(r.t, chanBuf, srvNode, fixedSid)
	enc := []lime.SessionEncryption{lime.SessionEncryptionNone, lime.SessionEncryptionTLS}
	encSel := lime.NoneEncryptionSelector
	if kind == "tcp-tls" {
		enc = []lime.SessionEncryption{lime.SessionEncryptionTLS}
		encSel = lime.TLSEncryptionSelector
	}
	var wg sync.WaitGroup
	wg.Add(1)
	var serr error
	go func() {
		defer wg.Done()
		serr = sc.EstablishSession(ctx, []lime.SessionCompression{lime.SessionCompressionNone}, enc, []lime.AuthenticationScheme{lime.AuthenticationSchemeGuest},
			func(context.Context, lime.Identity, lime.Authentication) (*lime.AuthenticationResult, error) {
				return lime.MemberAuthenticationResult(), nil
			}, func(_ context.Context, n lime.Node, _ *lime.ServerChannel) (lime.Node, error) { return n, nil })
	}()
	_, cerr := cc.EstablishSession(ctx, lime.NoneCompressionSelector, encSel, lime.Identity{Name: "alice", Domain: "cli.example"}, lime.GuestAuthenticator, "home")
	wg.Wait()
	release := func() {
		if kind == "tcp" || kind == "tcp-tls" {
			// a TCP receiver only notices a cancellation at its 5 s poll boundary: closing the connections first ends it at once
			_ = ct.Close()
			_ = r.t.Close()
		}
		// WebSocket: channels first (Channel.Close stops the receiver before it closes the transport)
		_ = cc.Close()
		_ = sc.Close()
		_ = l.Close()
	}
	if cerr != nil || serr != nil || !cc.Established() || !sc.Established() {
		return cc, sc, release, fmt.Sprintf("harness: establish failed over %s: %v / %v", kind, cerr, serr)
	}
	return cc, sc, release, ""
}

func runC04Real(c *c04Case) *c04Obs {
	obs := &c04Obs{}
	cc, sc, release, note := establishedRealChannels(c.Transport, c.ChanBuf)
	if note != "" {
		obs.Note = note
		release()
		return obs
	}
	defer release()
	col := &c04Collector{recv: map[string][]string{}, want: map[string]interface{}{}, delay: c.Delay, real: true}
	ctx, cancel := context.WithCancel(context.Background())
	defer cancel()
	var cwg sync.WaitGroup
	col.consume(ctx, "c2s", sc, c.Consumer, func(ctx context.Context, mux *lime.EnvelopeMux) error { return mux.ListenServer(ctx, sc) }, &cwg)
	col.consume(ctx, "s2c", cc, c.Consumer, func(ctx context.Context, mux *lime.EnvelopeMux) error { return mux.ListenClient(ctx, cc) }, &cwg)
	c04Drive(c, cc, sc, col, obs, 60*time.Second)
	obs.NSent = len(obs.SentOK["c2s"]) + len(obs.SentOK["s2c"])
	// quiescence: everything sent successfully has arrived (or 30 s passed: inconclusive), then 200 ms without arrivals
	deadline := time.Now().Add(30 * time.Second)
	for {
		col.mu.Lock()
		n := col.n
		col.mu.Unlock()
		if n >= obs.NSent {
			break
		}
		if time.Now().After(deadline) {
			break
		}
		time.Sleep(5 * time.Millisecond)
	}
	time.Sleep(200 * time.Millisecond)
	col.mu.Lock()
	obs.Recv = map[string][]string{}
	for k, v := range col.recv {
		obs.Recv[k] = append([]string(nil), v...)
	}
	obs.Corrupt = append([]string(nil), col.corrupt...)
	obs.NRecv = col.n
	col.mu.Unlock()
	if obs.NRecv < obs.NSent && (!cc.Established() || !sc.Established()) {
		obs.Note = "inconclusive: the session did not stay established"
	}
	return obs
}

func TestC04Real(t *testing.T) {
	rec := NewRecorder("C04", "TestC04Real")
	kinds := []string{"tcp", "tcp-tls", "ws", "wss"}
	rapid.Check(t, func(rt *rapid.T) {
		c := &c04Case{Real: true,
			Transport: rapid.SampledFrom(kinds).Draw(rt, "transport"),
			ChanBuf:   rapid.SampledFrom([]int{0, 1, 8, 64}).Draw(rt, "chanBuf"),
			Consumer:  rapid.SampledFrom([]string{"streams", "mux"}).Draw(rt, "consumer"),
		}
		dirs := rapid.IntRange(1, 3).Draw(rt, "dirs")
		mk := func(label string) [][]c04Op {
			g := rapid.IntRange(1, 6).Draw(rt, label+"G")
			var out [][]c04Op
			for i := 0; i < g; i++ {
				n := rapid.IntRange(1, 30).Draw(rt, "nops")
				ops := make([]c04Op, n)
				for j := range ops {
					ops[j].Kind = rapid.SampledFrom([]string{"m", "n", "q", "r"}).Draw(rt, "kind")
					ops[j].Size = rapid.SampledFrom([]int{0, 10, 100, 3000, 70000}).Draw(rt, "size")
				}
				out = append(out, ops)
			}
			return out
		}
		if dirs&1 != 0 {
			c.C2S = mk("c2s")
		}
		if dirs&2 != 0 {
			c.S2C = mk("s2c")
		}
		if rapid.Bool().Draw(rt, "slow") {
			c.Delay = []int{0, 3, 0, 0, 12}
		}
		o := &Outcome{}
		rec.Journal(c)
		obs := runC04Real(c)
		judgeC04(c, obs, o)
		rec.Check(rt, c, o)
	})
}
