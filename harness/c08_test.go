//go:build go1.25

package harness

import (
	"context"
	"fmt"
	"strings"
	"testing"
	"testing/synctest"
	"time"

	lime "github.com/takenet/lime-go"
	"pgregory.net/rapid"
)

type SSym struct {
	Kind      string    `json:"kind"` // session message notification request response garbage
	State     string    `json:"state,omitempty"`
	ID        string    `json:"id,omitempty"` // A | B | "" (no id)
	EncOpts   []string  `json:"encOpts,omitempty"`
	CompOpts  []string  `json:"compOpts,omitempty"`
	EmptyOpts bool      `json:"emptyOpts,omitempty"` // options present but empty lists
	Enc       string    `json:"enc,omitempty"`
	Comp      string    `json:"comp,omitempty"`
	Schemes   []string  `json:"schemes,omitempty"`
	EmptySch  bool      `json:"emptySchemes,omitempty"`
	RoundTrip string    `json:"roundTrip,omitempty"` // authentication data of this scheme's shape
	From      *NodeSpec `json:"from,omitempty"`
	To        *NodeSpec `json:"to,omitempty"`
	PP        *NodeSpec `json:"pp,omitempty"`       // a delegation node on the envelope (valid on any envelope; the remote node of a session is still its from)
	DoTLS     bool      `json:"doTls,omitempty"`    // after sending, run the server side of a TLS handshake
	NoReason  bool      `json:"noReason,omitempty"` // a failed session without its reason member
}

type CliCase struct {
	EncSel  string `json:"encSel"`  // none | tls | first
	CompSel string `json:"compSel"` // none | first
	Auth    string `json:"auth"`    // guest | plain | key | external | transport | echo
	CliTLS  bool   `json:"cliTls"`
	Script  []SSym `json:"script"`
	End     string `json:"end"`               // eof | silence
	ChanBuf int    `json:"chanBuf,omitempty"` // the client channel's buffer size: 0 = 4 (the default of these scripts), -1 = none, n = n
}

func (c *CliCase) chanBuf() int {
	switch {
	case c.ChanBuf == 0:
		return 4
	case c.ChanBuf < 0:
		return 0
	}
	return c.ChanBuf
}

type CliObs struct {
	Returned      bool     `json:"returned"`
	Panic         string   `json:"panic,omitempty"`
	Err           string   `json:"err,omitempty"`
	SesState      string   `json:"sesState,omitempty"`
	Established   bool     `json:"established"`
	State         string   `json:"state"`
	ID            string   `json:"id"`
	Local         string   `json:"local"`
	Remote        string   `json:"remote"`
	Got           []GotEnv `json:"got"`                     // envelopes the scripted server received
	SentN         int      `json:"sentN"`                   // script symbols actually sent
	LastHS        int      `json:"lastHs"`                  // index of the symbol after which EstablishSession returned (-1: none)
	AttemptOverAt int      `json:"attemptOverAt,omitempty"` // via Client: 1 + number of symbols sent when the Client gave its first connection up and dialled again (0: never)
	EstAtEnd      bool     `json:"estAtEnd,omitempty"`      // Established() once the whole script has been sent and taken (before the server hangs up)
	CliClosed     bool     `json:"cliClosed"`
	CloseHangs    bool     `json:"closeHangs,omitempty"` // ClientChannel.Close did not return within the release bound
	Leftover      string   `json:"leftover,omitempty"`
	ClosedAtRet   bool     `json:"closedAtReturn"`
	Live          bool     `json:"live"`               // the client still consumes envelopes after the last symbol
	C2SClear      []M      `json:"c2sClear,omitempty"` // client envelopes found in cleartext on the raw capture
	C2SRestTLS    bool     `json:"c2sRestTls"`
	CliEnc        string   `json:"cliEnc"`
	AuthEnc       []string `json:"authEnc,omitempty"` // client transport encryption each time the authenticator ran
}

func idOf(s string) string {
	switch s {
	case "A":
		return "session-A"
	case "B":
		return "session-B"
	}
	return ""
}

func (s *SSym) env() M {
	m := M{}
	if id := idOf(s.ID); id != "" {
		m["id"] = id
	}
	if s.From != nil {
		m["from"] = NodeText(s.From.Node())
	}
	if s.To != nil {
		m["to"] = NodeText(s.To.Node())
	}
	if s.PP != nil {
		m["pp"] = NodeText(s.PP.Node())
	}
	switch s.Kind {
	case "session":
		m["state"] = s.State
		if s.EmptyOpts {
			m["encryptionOptions"], m["compressionOptions"] = []string{}, []string{}
		}
		if len(s.EncOpts) > 0 {
			m["encryptionOptions"] = s.EncOpts
		}
		if len(s.CompOpts) > 0 {
			m["compressionOptions"] = s.CompOpts
		}
		if s.Enc != "" {
			m["encryption"] = s.Enc
		}
		if s.Comp != "" {
			m["compression"] = s.Comp
		}
		if s.EmptySch {
			m["schemeOptions"] = []string{}
		}
		if len(s.Schemes) > 0 {
			m["schemeOptions"] = s.Schemes
		}
		if s.RoundTrip != "" {
			m["scheme"] = s.RoundTrip
			m["authentication"] = authMember(s.RoundTrip, "challenge", false)
		}
		if s.State == "failed" && !s.NoReason {
			m["reason"] = M{"code": 7, "description": "no"}
		}
	case "message":
		m["type"], m["content"] = "text/plain", "early"
	case "notification":
		m["event"] = "received"
	case "request":
		m["method"], m["uri"] = "get", "/ping"
	case "response":
		m["method"], m["status"] = "get", "success"
	}
	return m
}

type cliKeep struct {
	obs         *CliObs
	streamItems int
}

// RunClientScriptKeep additionally counts the envelopes sitting on the client's inbound streams at the end.
func RunClientScriptKeep(c *CliCase) *cliKeep {
	k := &cliKeep{}
	k.obs = runClientScript(c, &k.streamItems)
	return k
}

func RunClientScript(c *CliCase) *CliObs { return runClientScript(c, nil) }

func runClientScript(c *CliCase, streamItems *int) *CliObs {
	obs := &CliObs{LastHS: -1}
	_, ccfg := TLSConfigs()
	var tcpCfg *lime.TCPConfig
	if c.CliTLS {
		tcpCfg = &lime.TCPConfig{TLSConfig: ccfg}
	}
	cl, sv := Pipe(PipeOpts{Capture: true})
	ct := lime.VerifNewTCPTransport(cl, tcpCfg, false)
	cc := lime.NewClientChannel(ct, c.chanBuf())
	peer := NewRawPeer(sv)
	ctx, cancel := context.WithTimeout(context.Background(), handshakeTimeout)
	defer cancel()
	compSel := func(o []lime.SessionCompression) lime.SessionCompression {
		if c.CompSel == "first" && len(o) > 0 {
			return o[0]
		}
		return lime.SessionCompressionNone
	}
	encSel := func(o []lime.SessionEncryption) lime.SessionEncryption {
		switch c.EncSel {
		case "tls":
			return lime.SessionEncryptionTLS
		case "first":
			if len(o) > 0 {
				return o[0]
			}
		}
		return lime.SessionEncryptionNone
	}
	authr := func(_ []lime.AuthenticationScheme, rt lime.Authentication) lime.Authentication {
		obs.AuthEnc = append(obs.AuthEnc, string(ct.Encryption()))
		switch c.Auth {
		case "echo":
			if rt != nil {
				return rt
			}
			return &lime.PlainAuthentication{Password: "cw=="}
		case "plain", "key", "external", "transport", "guest":
			return (&AuthSpec{Scheme: c.Auth, A: "c2VjcmV0", B: "issuer"}).Auth()
		}
		return &lime.GuestAuthentication{}
	}
	done := make(chan struct{})
	go func() {
		defer close(done)
		obs.Panic = Protect(func() {
			ses, err := cc.EstablishSession(ctx, compSel, encSel, lime.Identity{Name: "alice", Domain: "cli.example"}, authr, "home")
			if err != nil {
				obs.Err = err.Error()
			} else if ses != nil {
				obs.SesState = string(ses.State)
			}
		})
		obs.Returned = true
		obs.ClosedAtRet = cl.Closed()
	}()
	returned := func() bool {
		select {
		case <-done:
			return true
		default:
			return false
		}
	}
	for i := range c.Script {
		synctest.Wait()
		peer.Drain()
		if returned() {
			if obs.LastHS < 0 {
				obs.LastHS = i - 1
			}
			if !cc.Established() {
				break // nobody reads any more
			}
		}
		s := &c.Script[i]
		peer.Step = i + 1
		obs.SentN = i + 1
		if s.Kind == "garbage" {
			_ = peer.SendBytes([]byte("{\"state\":: }\n"))
		} else {
			_ = peer.SendEnv(s.env())
		}
		if s.DoTLS {
			// the client upgrades after reading the confirmation
			if err := peer.StartTLSServer(); err != nil {
				_ = err
			}
		}
	}
	synctest.Wait()
	peer.Drain()
	if returned() && obs.LastHS < 0 {
		obs.LastHS = obs.SentN - 1
	}
	obs.Live = !returned() || cc.Established()
	obs.EstAtEnd = returned() && cc.Established()
	switch c.End {
	case "silence":
		time.Sleep(handshakeTimeout + time.Second)
	default:
		peer.Raw.CloseWrite()
	}
	synctest.Wait()
	time.Sleep(6 * time.Second)
	synctest.Wait()
	peer.Drain()
	<-done
	obs.Established = cc.Established()
	obs.State = string(cc.State())
	obs.ID, obs.Local, obs.Remote = cc.ID(), NodeText(cc.LocalNode()), NodeText(cc.RemoteNode())
	obs.Got = peer.Got
	obs.CliClosed = cl.Closed()
	if streamItems != nil {
		*streamItems = drainStreams(cc.MsgChan(), cc.NotChan(), cc.ReqCmdChan(), cc.RespCmdChan())
	}
	obs.CliEnc = string(ct.Encryption())
	var rest []byte
	obs.C2SClear, rest = clearPrefix(cl.Captured())
	obs.C2SRestTLS = looksLikeTLS(rest)
	cancel()
	// Everything has settled: no library call is in progress. A library goroutine that sits in stopReceiver now waits for a
	// receiver that will never end (calling Close on top of it would block on the same Once, and a mutex wait freezes the bubble).
	if lib, _ := bubbleLeftovers(); true {
		for _, g := range lib {
			if strings.Contains(g, ").stopReceiver(") {
				obs.CloseHangs = true
				obs.Leftover = truncate(g, 2500)
			}
		}
	}
	if !obs.CloseHangs {
		_ = cc.Close()
	}
	peer.Close()
	if !cl.Closed() {
		_ = cl.Close()
	}
	time.Sleep(6 * time.Second)
	synctest.Wait()
	return obs
}

// c08InBubble runs one case in a bubble; when the channel's Close never returns the bubble cannot end ("blocked goroutines
// remain"): that panic is absorbed, the verdict is in the observation.
func c08InBubble(t *testing.T, c *CliCase) *CliObs {
	var obs *CliObs
	if p := Protect(func() { synctest.Test(t, func(t *testing.T) { obs = RunClientScript(c) }) }); p != "" {
		if obs == nil || !obs.CloseHangs || !strings.Contains(p, "blocked goroutines remain") {
			panic(p)
		}
	}
	return obs
}

func judgeC08(c *CliCase, obs *CliObs, o *Outcome) {
	if obs.Panic != "" {
		o.Fail("C08/panic/"+panicClass(regressionClass(obs.Panic)), "EstablishSession panicked: %s", obs.Panic)
		return
	}
	if !obs.Returned {
		o.Fail("C08/never-returned", "EstablishSession did not return (context deadline %v)", handshakeTimeout)
		return
	}
	if obs.CloseHangs {
		o.Fail("C08/close-never-returns", "after this handshake a library goroutine waits for ever for the channel's receiver to end (ClientChannel.Close can never return):\n%s", obs.Leftover)
	}
	// (2) truthful establishment
	reported := obs.SesState == "established" || (obs.Established && obs.LastHS == obs.SentN-1)
	var last *SSym
	if obs.LastHS >= 0 && obs.LastHS < len(c.Script) {
		last = &c.Script[obs.LastHS]
	}
	if obs.SesState == "established" {
		if last == nil || last.Kind != "session" || last.State != "established" {
			o.Fail("C08/established-not-last-word", "the client reports an established session but the server's last word was %s", symText(last))
		} else {
			if obs.ID != idOf(last.ID) {
				o.Fail("C08/adopted-id", "ID()=%q, the established envelope carried %q", obs.ID, idOf(last.ID))
			}
			if obs.Local != NodeText(last.To.Node()) || obs.Remote != NodeText(last.From.Node()) {
				o.Fail("C08/adopted-nodes", "LocalNode/RemoteNode = %q/%q, the established envelope carried to=%q from=%q", obs.Local, obs.Remote, NodeText(last.To.Node()), NodeText(last.From.Node()))
			}
		}
	}
	_ = reported
	// ... and stops reporting it when the server has had another last word since (the script went on after establishment)
	if obs.SesState == "established" && obs.EstAtEnd {
		for j := obs.SentN - 1; j > obs.LastHS && j < len(c.Script); j-- {
			if c.Script[j].Kind != "session" {
				continue
			}
			// (these scripts do not consume the client's inbound streams: data envelopes beyond the buffer size, per kind,
			// hold the receiver up before it reaches the later word)
			held := map[string]int{}
			blocked := false
			for k := obs.LastHS + 1; k < j; k++ {
				if kd := c.Script[k].Kind; kd != "session" {
					held[kd]++
					if held[kd] > c.chanBuf() {
						blocked = true
					}
				}
			}
			if blocked {
				o.Class("later-word-behind-unconsumed-data")
				break
			}
			if c.Script[j].State != "established" {
				o.Fail("C08/established-after-later-"+c.Script[j].State, "the server's last word is a %s session (symbol %d, sent after establishment and taken), yet the channel still reports an established session (state %s)", c.Script[j].State, j, obs.State)
			}
			break
		}
	}
	// (3) id echo, (4) credentials only on request
	for gi, g := range obs.Got {
		if gi == 0 {
			continue
		}
		// latest session envelope the server had sent before the client produced this one
		var prev *SSym
		for i := 0; i < g.Step && i < len(c.Script); i++ {
			if c.Script[i].Kind == "session" {
				prev = &c.Script[i]
			}
		}
		if prev == nil {
			continue
		}
		if _, isSession := g.Env["state"]; !isSession {
			continue
		}
		gid, _ := g.Env["id"].(string)
		if gid != idOf(prev.ID) {
			o.Fail("C08/id-not-echoed", "client envelope #%d carries id %q, the server's latest session envelope had %q", gi, gid, idOf(prev.ID))
		}
		if g.Env["authentication"] != nil && prev.State != "authenticating" {
			o.Fail("C08/credentials-unrequested/after-"+prev.State, "client sent credentials in answer to a %s envelope", prev.State)
		}
	}
	// (5) close on finished / failed
	if last != nil && last.Kind == "session" && (last.State == "finished" || last.State == "failed") && obs.Err == "" && !obs.ClosedAtRet {
		o.Fail("C08/not-closed-after-"+last.State, "the server answered %s but the client's connection was still open when EstablishSession returned", last.State)
	}
	// the same at whatever point of the handshake the terminal envelope came, also when EstablishSession then returns an error:
	// a channel that has taken note of a finished / failed session (its state says so) must not keep the connection
	// (a session that was established and ended later is left to the application to close: that is C13's subject)
	if (obs.State == "finished" || obs.State == "failed") && obs.SesState != "established" && !obs.CliClosed {
		o.Fail("C08/not-closed-after-"+obs.State+"/still-open-at-the-end", "the client channel is in state %s (EstablishSession: %q) but its connection was still open after the release bound; the server had not hung up (end=%s)", obs.State, obs.Err, c.End)
	}
}

func regressionClass(p string) string {
	if strings.Contains(p, "cannot change from state") {
		return "state-regression"
	}
	return p
}

func symText(s *SSym) string {
	if s == nil {
		return "nothing"
	}
	if s.Kind == "session" {
		return "session/" + s.State
	}
	return s.Kind
}

var srvA = &NodeSpec{Name: "postmaster", Domain: "srv.example", Instance: "s1"}
var cliA = &NodeSpec{Name: "alice", Domain: "cli.example", Instance: "assigned"}

func cliAlphabet() []SSym {
	ses := func(state, id string) SSym { return SSym{Kind: "session", State: state, ID: id, From: srvA} }
	var a []SSym
	for _, opts := range [][]string{{"none"}, {"none", "tls"}, {"bogus"}} {
		s := ses("negotiating", "A")
		s.EncOpts, s.CompOpts = opts, []string{"none"}
		a = append(a, s)
	}
	e := ses("negotiating", "A")
	e.EmptyOpts = true
	a = append(a, e)
	a = append(a, ses("negotiating", "A")) // options absent, nothing confirmed
	ns := ses("negotiating", "A")          // a negotiating envelope that also lists schemes: still not an authentication request
	ns.Schemes = []string{"guest", "plain"}
	a = append(a, ns)
	for _, ch := range [][2]string{{"none", "none"}, {"none", "tls"}, {"gzip", "none"}} {
		s := ses("negotiating", "A")
		s.Comp, s.Enc = ch[0], ch[1]
		if ch[1] == "tls" {
			s.DoTLS = true
		}
		a = append(a, s)
	}
	nb := ses("negotiating", "B")
	nb.Comp, nb.Enc = "none", "none"
	a = append(a, nb)
	for _, sch := range [][]string{{"guest"}, {"plain", "key"}, {"bogus"}} {
		s := ses("authenticating", "A")
		s.Schemes = sch
		a = append(a, s)
	}
	es := ses("authenticating", "A")
	es.EmptySch = true
	a = append(a, es)
	a = append(a, ses("authenticating", "B"), ses("authenticating", ""))
	for _, rt := range []string{"plain", "key", "external", "guest"} {
		s := ses("authenticating", "A")
		s.RoundTrip = rt
		a = append(a, s)
	}
	for _, id := range []string{"A", "B", ""} {
		s := ses("established", id)
		s.To = cliA
		a = append(a, s)
	}
	a = append(a, ses("established", "A")) // no to
	viaGateway := ses("established", "A")  // sent on behalf of the server by another node
	viaGateway.To, viaGateway.PP = cliA, &NodeSpec{Name: "gateway", Domain: "edge.example", Instance: "lb7"}
	a = append(a, viaGateway)
	a = append(a, ses("new", "A"), ses("finishing", "A"), ses("finished", "A"), ses("failed", "A"), ses("failed", "B"))
	bare := ses("failed", "A")
	bare.NoReason = true
	a = append(a, bare)
	// terminal answers that quote transport options (the ones the client asked for, typically)
	for _, st := range []string{"failed", "finished"} {
		q := ses(st, "A")
		q.Enc, q.Comp = "tls", "none"
		a = append(a, q)
	}
	a = append(a, SSym{Kind: "message"}, SSym{Kind: "request", ID: "A"}, SSym{Kind: "notification"}, SSym{Kind: "garbage"})
	return a
}

// typicalProgression: indices of options -> confirmation -> authentication request -> round trip -> established.
func typicalProgression(alpha []SSym) []int {
	find := func(pred func(s *SSym) bool) int {
		for i := range alpha {
			if pred(&alpha[i]) {
				return i
			}
		}
		return 0
	}
	return []int{
		find(func(s *SSym) bool { return s.State == "negotiating" && len(s.EncOpts) == 2 }),
		find(func(s *SSym) bool { return s.State == "negotiating" && s.Enc == "none" && s.ID == "A" }),
		find(func(s *SSym) bool { return s.State == "authenticating" && len(s.Schemes) == 2 }),
		find(func(s *SSym) bool { return s.State == "authenticating" && s.RoundTrip == "plain" }),
		find(func(s *SSym) bool { return s.State == "established" && s.ID == "A" && s.To != nil }),
	}
}

func classifyCli(c *CliCase, obs *CliObs, o *Outcome) {
	o.Class("encSel=" + c.EncSel)
	o.Class("auth=" + c.Auth)
	o.Class(fmt.Sprintf("chanBuf=%d", c.chanBuf()))
	o.Class(fmt.Sprintf("scriptlen=%d", len(c.Script)))
	switch {
	case obs.SesState != "":
		o.Class("result=session/" + obs.SesState)
	case obs.Err != "":
		o.Class("result=error")
	}
	regress := false
	maxStep := -1
	for _, s := range c.Script {
		if s.Kind == "session" {
			st := lime.SessionState(s.State).Step()
			if st < maxStep {
				regress = true
			}
			if st > maxStep {
				maxStep = st
			}
		}
	}
	if regress {
		o.Class("has-regression")
	}
	o.NonTrivial = len(c.Script) >= 2 || regress
}

func TestC08Enum(t *testing.T) {
	rec := NewRecorder("C08", "TestC08Enum")
	defer rec.Finish(t)
	sh, nsh := Shard()
	alpha := cliAlphabet()
	maxDepth := Scale(3, 4)
	idx := 0
	cfgs := []CliCase{
		{EncSel: "first", CompSel: "first", Auth: "guest", CliTLS: true},
		{EncSel: "tls", CompSel: "none", Auth: "plain", CliTLS: true},
		{EncSel: "none", CompSel: "none", Auth: "echo", CliTLS: false},
		{EncSel: "tls", CompSel: "first", Auth: "key", CliTLS: false},
		{EncSel: "none", CompSel: "none", Auth: "guest", CliTLS: false, ChanBuf: -1},
	}
	var rec1 func(base CliCase, prefix []SSym, mine bool)
	rec1 = func(base CliCase, prefix []SSym, mine bool) {
		live := true
		if len(prefix) > 0 {
			c := base
			c.Script = append([]SSym(nil), prefix...)
			c.End = "eof"
			o := &Outcome{}
			var obs *CliObs
			rec.Journal(&c)
			obs = c08InBubble(t, &c)
			live = obs.Live && obs.Panic == ""
			if mine {
				judgeC08(&c, obs, o)
				classifyCli(&c, obs, o)
				rec.Eval(&c, o)
			}
		}
		if !live || len(prefix) >= maxDepth {
			return
		}
		for _, s := range alpha {
			m := mine
			if len(prefix) == 0 {
				idx++
				m = idx%nsh == sh // shard by first symbol
			}
			if len(prefix) == 0 && !m {
				continue
			}
			rec1(base, append(append([]SSym(nil), prefix...), s), m)
		}
	}
	for _, cfg := range cfgs {
		rec1(cfg, nil, true)
	}
	rec.Note("enum_depth", fmt.Sprint(maxDepth))
	rec.Note("exhaustive", "true")
}

func TestC08(t *testing.T) {
	rec := NewRecorder("C08", "TestC08")
	alpha := cliAlphabet()
	rapid.Check(t, func(rt *rapid.T) {
		c := &CliCase{
			EncSel:  rapid.SampledFrom([]string{"none", "tls", "first"}).Draw(rt, "encSel"),
			CompSel: rapid.SampledFrom([]string{"none", "first"}).Draw(rt, "compSel"),
			Auth:    rapid.SampledFrom([]string{"guest", "plain", "key", "external", "transport", "echo"}).Draw(rt, "auth"),
			CliTLS:  rapid.Bool().Draw(rt, "cliTls"),
			End:     rapid.SampledFrom([]string{"eof", "eof", "silence"}).Draw(rt, "end"),
			ChanBuf: rapid.SampledFrom([]int{0, 0, -1, 1}).Draw(rt, "chanBuf"),
		}
		n := rapid.IntRange(1, 7).Draw(rt, "len")
		for i := 0; i < n; i++ {
			s := rapid.SampledFrom(alpha).Draw(rt, "sym")
			// bias: a typical progression so that deeper states are reached
			if rapid.IntRange(0, 99).Draw(rt, "progress") < 50 {
				prog := typicalProgression(alpha)
				if i < len(prog) {
					s = alpha[prog[i]]
				}
			}
			if s.Kind == "session" && rapid.IntRange(0, 4).Draw(rt, "nodes") == 0 {
				s.From, s.To = GenNode().Draw(rt, "from"), GenNode().Draw(rt, "to")
			}
			c.Script = append(c.Script, s)
		}
		o := &Outcome{}
		rec.Journal(c)
		var obs *CliObs
		rapid.SyncTest(rt, func(rt *rapid.T) { obs = RunClientScript(c) })
		judgeC08(c, obs, o)
		classifyCli(c, obs, o)
		rec.Check(rt, c, o)
	})
}

func TestC08Replay(t *testing.T) {
	rec := NewRecorder("C08", "TestC08Replay")
	defer rec.Finish(t)
	for _, f := range ReplayFiles("C08") {
		var c CliCase
		if err := LoadCase(f, &c); err != nil || len(c.Script) == 0 {
			continue
		}
		o := &Outcome{}
		var obs *CliObs
		rec.Journal(&c)
		obs = c08InBubble(t, &c)
		judgeC08(&c, obs, o)
		classifyCli(&c, obs, o)
		rec.Eval(&c, o)
	}
}

// drainStreams counts the envelopes currently readable on the four inbound streams (without blocking).
func drainStreams(m <-chan *lime.Message, n <-chan *lime.Notification, rq <-chan *lime.RequestCommand, rs <-chan *lime.ResponseCommand) int {
	cnt := 0
	for {
		select {
		case v, ok := <-m:
			if !ok {
				m = nil
			} else if v != nil {
				cnt++
			}
		case v, ok := <-n:
			if !ok {
				n = nil
			} else if v != nil {
				cnt++
			}
		case v, ok := <-rq:
			if !ok {
				rq = nil
			} else if v != nil {
				cnt++
			}
		case v, ok := <-rs:
			if !ok {
				rs = nil
			} else if v != nil {
				cnt++
			}
		default:
			return cnt
		}
	}
}
