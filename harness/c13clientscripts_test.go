//go:build go1.25

package harness

// C13 through the high-level Client against scripted servers: whatever a server does around the established session it
// announces (announce it early, follow it with data, regress, go silent, hang up), once the application has called
// Client.Close nothing of that session is left behind: the Client's end of the connection is closed and no library goroutine
// remains. Scripts in which the server never says established are the subject of C08 and are only classified here.

import (
	"testing"

	"pgregory.net/rapid"
)

func judgeC13ClientScript(c *CliCase, obs *CliObs, o *Outcome) {
	o.Class("client-against-scripted-server")
	// the established session must have been taken by the handshake that was in progress on this connection: sent (and the
	// client settled) strictly before the symbol with which the Client gave the connection up, if it ever did
	saidEstablished := false
	limit := obs.SentN
	if obs.AttemptOverAt > 0 && obs.AttemptOverAt-2 < limit {
		limit = obs.AttemptOverAt - 2
	}
	for i := 0; i < limit && i < len(c.Script); i++ {
		if c.Script[i].Kind == "session" && c.Script[i].State == "established" {
			saidEstablished = true
		}
	}
	if !saidEstablished {
		o.Class("server-never-said-established")
		return
	}
	o.NonTrivial = true
	if obs.Err == "" {
		o.Class("client-establish=ok")
	} else {
		o.Class("client-establish=error")
	}
	if obs.Panic != "" {
		return // C08's subject
	}
	if obs.CloseHangs {
		o.Fail("C13/client-scripts/close-never-returns", "Client.Close did not return within 30 s")
		return
	}
	if !obs.CliClosed {
		o.Fail("C13/client-scripts/connection-left-open", "the server announced an established session; after Client.Close (Establish had returned %q) the Client's end of the connection is still open", obs.Err)
	}
	if obs.Leftover != "" {
		o.Fail("C13/client-scripts/goroutine-left", "the server announced an established session; after Client.Close (Establish had returned %q) library goroutines are left:\n%s", obs.Err, obs.Leftover)
	}
}

func TestC13ClientScriptsEnum(t *testing.T) {
	rec := NewRecorder("C13", "TestC13ClientScriptsEnum")
	defer rec.Finish(t)
	sh, nsh := Shard()
	alpha := cliAlphabet()
	depth := Scale(2, 3)
	idx := 0
	var walk func(prefix []SSym)
	walk = func(prefix []SSym) {
		if len(prefix) > 0 {
			idx++
			if idx%nsh == sh {
				for _, buf := range []int{-1, 0} {
					c := &CliCase{EncSel: "first", CompSel: "none", Auth: "guest", CliTLS: true, End: "eof", ChanBuf: buf, Script: append([]SSym(nil), prefix...)}
					o := &Outcome{}
					rec.Journal(c)
					obs := clientViaClientInBubble(t, c)
					judgeC13ClientScript(c, obs, o)
					rec.Eval(c, o)
				}
			}
		}
		if len(prefix) >= depth {
			return
		}
		for _, s := range alpha {
			walk(append(append([]SSym(nil), prefix...), s))
		}
	}
	walk(nil)
	rec.Note("exhaustive", "true")
}

func TestC13ClientScripts(t *testing.T) {
	rec := NewRecorder("C13", "TestC13ClientScripts")
	alpha := cliAlphabet()
	rapid.Check(t, func(rt *rapid.T) {
		c := &CliCase{
			EncSel:  rapid.SampledFrom([]string{"none", "tls", "first"}).Draw(rt, "encSel"),
			CompSel: rapid.SampledFrom([]string{"none", "first"}).Draw(rt, "compSel"),
			Auth:    rapid.SampledFrom([]string{"guest", "plain", "echo"}).Draw(rt, "auth"),
			CliTLS:  rapid.Bool().Draw(rt, "cliTls"),
			End:     "eof",
			ChanBuf: rapid.SampledFrom([]int{0, -1, 1}).Draw(rt, "chanBuf"),
		}
		n := rapid.IntRange(1, 7).Draw(rt, "len")
		prog := typicalProgression(alpha)
		// a third of the scripts: the server announces the established session early (after 0-2 steps of a normal handshake)
		// and goes on with whatever comes
		early := -1
		if rapid.IntRange(0, 2).Draw(rt, "early") == 0 {
			early = rapid.IntRange(0, 2).Draw(rt, "earlyAt")
		}
		for i := 0; i < n; i++ {
			s := rapid.SampledFrom(alpha).Draw(rt, "sym")
			switch {
			case early >= 0 && i < early && i < len(prog):
				s = alpha[prog[i]]
			case early >= 0 && i == early:
				s = alpha[prog[len(prog)-1]] // the established session
			case early < 0 && rapid.IntRange(0, 99).Draw(rt, "progress") < 60 && i < len(prog):
				s = alpha[prog[i]]
			}
			c.Script = append(c.Script, s)
		}
		o := &Outcome{}
		rec.Journal(c)
		obs := clientViaClientInBubbleRapid(rt, c)
		judgeC13ClientScript(c, obs, o)
		rec.Check(rt, c, o)
	})
}
