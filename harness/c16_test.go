package harness

import (
	"context"
	"encoding/json"
	"fmt"
	"net"
	"reflect"
	"strings"
	"testing"
	"time"

	lime "github.com/takenet/lime-go"
	"pgregory.net/rapid"
)

type c16Case struct {
	Limit     int64  `json:"limit"` // configured ReadLimit (0 = default 8 MiB)
	Sizes     []int  `json:"sizes"` // frame sizes in bytes (JSON text + newline); a negative size is a refused frame of that many bytes
	ReadChunk int    `json:"readChunk,omitempty"`
	Coalesce  bool   `json:"coalesce"`        // all frames are in the pipe before the first Receive
	Via       string `json:"via,omitempty"`   // hook | listener (loopback TCP listener with the configured limit)
	Trace     bool   `json:"trace,omitempty"` // the transport is configured with a TraceWriter (another reader chain)
}

type c16Step struct {
	Size     int    `json:"size"`
	Refused  bool   `json:"refused,omitempty"` // well-formed JSON that is no valid envelope (unknown event): must be answered with an error, and costs nothing afterwards
	Consumed int64  `json:"consumed"`
	Accepted bool   `json:"accepted"`
	Intact   bool   `json:"intact"`
	Err      string `json:"err,omitempty"`
}

const c16Base = len(`{"id":"f000","type":"text/plain","content":""}`) + 1

// frameOfSize builds a message whose frame (JSON text + "\n") has exactly size bytes.
func frameOfSize(i, size int) ([]byte, string) {
	if size < c16Base {
		size = c16Base
	}
	pad := strings.Repeat("x", size-c16Base)
	id := fmt.Sprintf("f%03d", i%1000)
	b := []byte(`{"id":"` + id + `","type":"text/plain","content":"` + pad + `"}` + "\n")
	return b, pad
}

const c16RefusedBase = len(`{"id":"f000","from":"leak@example.com/i","method":"get","uri":"/leak","event":"q"}`) + 1

// refusedFrameOfSize builds a line of exactly size bytes that is well-formed JSON but no valid envelope: the members before
// the unknown event decode, the event does not. The decoder stays in step with the stream.
func refusedFrameOfSize(i, size int) []byte {
	if size < c16RefusedBase {
		size = c16RefusedBase
	}
	pad := strings.Repeat("z", size-c16RefusedBase)
	id := fmt.Sprintf("f%03d", i%1000)
	if i%2 == 1 {
		// the other way of being refused: every member decodes, but together they are no envelope of any kind
		// (same length: the base differs only in the member names)
		return []byte(`{"id":"` + id + `","from":"leak@example.com/i","metadata":{"k":"` + pad + `"},"pp":"x@y.z/abcdefg"}` + "\n")
	}
	return []byte(`{"id":"` + id + `","from":"leak@example.com/i","method":"get","uri":"/leak","event":"q` + pad + `"}` + "\n")
}

func effLimit(l int64) int64 {
	if l == 0 {
		return lime.DefaultReadLimit
	}
	return l
}

func runC16(c *c16Case) ([]c16Step, string) {
	var total int
	var frames [][]byte
	var pads []string
	refused := make([]bool, len(c.Sizes))
	for i, s := range c.Sizes {
		if s < 0 {
			f := refusedFrameOfSize(i, -s)
			refused[i] = true
			frames = append(frames, f)
			pads = append(pads, "")
			total += len(f)
			continue
		}
		f, pad := frameOfSize(i, s)
		frames = append(frames, f)
		pads = append(pads, pad)
		total += len(f)
	}
	var tr lime.Transport
	var feed net.Conn
	var counter func() int64
	var closeAll func()
	cfg := &lime.TCPConfig{ReadLimit: c.Limit}
	if c.Trace {
		cfg.TraceWriter = NewCountingTrace()
	}
	if strings.HasPrefix(c.Via, "listener") {
		if c.Via == "listener-tls" {
			// a listener that can also do TLS (the upgrade is not negotiated here): its read limit is the configured one all the same
			cfg.TLSConfig, _ = TLSConfigs()
		}
		l := lime.NewTCPTransportListener(cfg)
		addr := &net.TCPAddr{IP: net.IPv4(127, 0, 0, 1), Port: 0}
		// port 0: find the port through a probe listener is racy; bind a fixed free port instead
		pl, err := net.Listen("tcp", "127.0.0.1:0")
		if err != nil {
			return nil, "skip: " + err.Error()
		}
		addr.Port = pl.Addr().(*net.TCPAddr).Port
		pl.Close()
		if err := l.Listen(context.Background(), addr); err != nil {
			return nil, "skip: " + err.Error()
		}
		conn, err := net.Dial("tcp", addr.String())
		if err != nil {
			l.Close()
			return nil, "skip: " + err.Error()
		}
		ctx, cancel := context.WithTimeout(context.Background(), 5*time.Second)
		t, err := l.Accept(ctx)
		cancel()
		if err != nil {
			l.Close()
			return nil, "skip: " + err.Error()
		}
		tr, feed = t, conn
		counter = nil
		closeAll = func() { conn.Close(); t.Close(); l.Close() }
	} else {
		capacity := 4096
		if c.Coalesce {
			capacity = total + 16
		}
		a, s := Pipe(PipeOpts{Capacity: capacity})
		s.SetReadChunk(c.ReadChunk)
		tr = lime.VerifNewTCPTransport(s, cfg, true)
		feed = a
		counter = s.TotalRead
		closeAll = func() { a.Close(); s.Close() }
	}
	defer closeAll()
	wrote := make(chan struct{})
	go func() {
		defer close(wrote)
		for _, f := range frames {
			if _, err := feed.Write(f); err != nil {
				return
			}
		}
		if fc, ok := feed.(*FConn); ok {
			fc.CloseWrite()
		} else if tc, ok := feed.(*net.TCPConn); ok {
			_ = tc.CloseWrite()
		}
	}()
	// (a real socket does not take a long stream before somebody reads: the long streams are read as they are written)
	if c.Coalesce || (strings.HasPrefix(c.Via, "listener") && total < 256<<10) {
		select {
		case <-wrote:
		case <-time.After(20 * time.Second):
			return nil, "harness: writer stuck"
		}
		if strings.HasPrefix(c.Via, "listener") {
			time.Sleep(50 * time.Millisecond) // let the kernel deliver
		}
	}
	var steps []c16Step
	for i := range frames {
		st := c16Step{Size: len(frames[i]), Refused: refused[i]}
		var before int64
		if counter != nil {
			before = counter()
		}
		ctx, cancel := context.WithTimeout(context.Background(), 20*time.Second)
		var e interface{}
		var err error
		p := Protect(func() { e, err = TReceive(ctx, tr) })
		cancel()
		if counter != nil {
			st.Consumed = counter() - before
		}
		switch {
		case p != "":
			st.Err = "panic: " + p
		case err != nil:
			st.Err = err.Error()
		default:
			st.Accepted = true
			if m, ok := e.(*lime.Message); ok && !refused[i] {
				if td, ok := m.Content.(*lime.TextDocument); ok && string(*td) == pads[i] && m.ID == fmt.Sprintf("f%03d", i%1000) {
					// and nothing else: compare the generic JSON forms
					var got, want interface{}
					gb, _ := json.Marshal(m)
					_ = json.Unmarshal(gb, &got)
					_ = json.Unmarshal(frames[i], &want)
					st.Intact = reflect.DeepEqual(got, want)
				}
			}
		}
		steps = append(steps, st)
		if !st.Accepted && !(refused[i] && int64(len(frames[i])) <= effLimit(c.Limit)) {
			break // behaviour after a Receive error is not specified, except after a refused envelope within the limit
		}
	}
	return steps, ""
}

func sizeClass(size int, L int64) string {
	s := int64(size)
	switch {
	case s <= L/4:
		return "<<L"
	case s < L:
		return "<L"
	case s == L:
		return "=L"
	case s <= 2*L:
		return "(L,2L]"
	case s <= 3*L:
		return "(2L,3L]"
	}
	return ">3L"
}

func judgeC16(c *c16Case, steps []c16Step, note string, o *Outcome) {
	L := effLimit(c.Limit)
	o.Class(fmt.Sprintf("limit=%d", c.Limit))
	if c.Trace {
		o.Class("traced")
	}
	if c.Via != "" {
		o.Class("via=" + c.Via)
	}
	if strings.HasPrefix(note, "skip") {
		o.Class("skipped")
		return
	}
	if note != "" {
		o.Fail("C16/harness", "%s", note)
		return
	}
	big := false
	for i, st := range steps {
		cl := sizeClass(st.Size, L)
		o.Class("frame" + cl)
		if int64(st.Size) > L {
			big = true
		}
		pos := "first"
		if i > 0 {
			pos = "later"
		}
		if strings.HasPrefix(st.Err, "panic") {
			o.Fail("C16/panic", "%s", st.Err)
			return
		}
		if !strings.HasPrefix(c.Via, "listener") && st.Consumed > L {
			o.Fail("C16/receive-consumed-more-than-limit/"+cl, "Receive #%d consumed %d bytes from the connection, limit %d (frame %d bytes)", i, st.Consumed, L, st.Size)
		}
		if st.Refused {
			o.Class("refused-frame")
			if st.Accepted {
				o.Fail("C16/refused-frame-returned", "frame #%d (an unknown event) was returned as an envelope", i)
			}
			continue
		}
		if int64(st.Size) > 2*L && st.Accepted {
			o.Fail("C16/oversized-accepted/"+cl+"/"+pos, "a frame of %d bytes was accepted with limit %d", st.Size, L)
		}
		if int64(st.Size) <= L && !st.Accepted {
			o.Fail("C16/within-limit-rejected/"+cl+"/"+pos, "frame #%d of %d bytes (limit %d) was rejected after %d accepted predecessors: %s", i, st.Size, L, i, st.Err)
		}
		if st.Accepted && !st.Intact {
			o.Fail("C16/not-intact/"+cl, "frame #%d of %d bytes was returned but its content differs", i, st.Size)
		}
	}
	o.NonTrivial = big || (len(steps) >= 2 && c.Coalesce)
}

func boundarySizes(L int64) []int {
	l := int(L)
	return []int{c16Base, 60, l / 4, l / 2, l - 1, l, l + 1, l + l/2, 2*l - 1, 2 * l, 2*l + 1, 3 * l, 10 * l}
}

func TestC16Sweep(t *testing.T) {
	rec := NewRecorder("C16", "TestC16Sweep")
	defer rec.Finish(t)
	sh, nsh := Shard()
	idx := 0
	run := func(c *c16Case) {
		idx++
		if idx%nsh != sh {
			return
		}
		o := &Outcome{}
		steps, note := runC16(c)
		judgeC16(c, steps, note, o)
		rec.Eval(c, o)
	}
	limits := []int64{256, 1000, 4096}
	if Thorough() {
		limits = append(limits, 65536)
	}
	for _, L := range limits {
		bs := boundarySizes(L)
		for _, chunk := range []int{0, 1, 7, int(L) - 1, int(L), int(L) + 1} {
			if chunk == 1 && L > 1000 && !Thorough() {
				continue
			}
			for _, coalesce := range []bool{true, false} {
				// a single frame of every boundary size; every ordered pair; a long run of in-limit frames then each boundary size
				for _, a := range bs {
					run(&c16Case{Limit: L, Sizes: []int{a}, ReadChunk: chunk, Coalesce: coalesce})
					for _, b := range bs {
						run(&c16Case{Limit: L, Sizes: []int{a, b}, ReadChunk: chunk, Coalesce: coalesce})
					}
					run(&c16Case{Limit: L, Sizes: []int{int(L), int(L), 60, int(L) - 1, int(L) / 2, int(L), a}, ReadChunk: chunk, Coalesce: coalesce})
					// refused envelopes (well-formed JSON, unknown event) before it: they are data that preceded it, no more
					run(&c16Case{Limit: L, Sizes: []int{-c16RefusedBase, a}, ReadChunk: chunk, Coalesce: coalesce})
					run(&c16Case{Limit: L, Sizes: []int{-int(L) / 2, -int(L) / 2, -int(L) / 2, 60, a}, ReadChunk: chunk, Coalesce: coalesce})
					run(&c16Case{Limit: L, Sizes: []int{60, -(int(L) - 1), a, -int(L), 60}, ReadChunk: chunk, Coalesce: coalesce})
				}
			}
		}
	}
	// the same boundaries on a traced transport (the trace writer changes the reader chain)
	for _, L := range limits {
		bs := boundarySizes(L)
		for _, coalesce := range []bool{true, false} {
			for _, a := range bs {
				run(&c16Case{Limit: L, Sizes: []int{a}, Coalesce: coalesce, Trace: true})
				run(&c16Case{Limit: L, Sizes: []int{60, int(L), a}, ReadChunk: 7, Coalesce: coalesce, Trace: true})
				run(&c16Case{Limit: L, Sizes: []int{-int(L) / 2, -int(L) / 2, -int(L) / 2, 60, a}, Coalesce: coalesce, Trace: true})
			}
		}
	}
	for _, a := range boundarySizes(4096) {
		run(&c16Case{Limit: 4096, Sizes: []int{60, a}, Via: "listener", Trace: true})
	}
	// limit propagation through the real listener (loopback), also one with a TLS configuration
	for _, L := range []int64{256, 4096} {
		for _, a := range boundarySizes(L) {
			run(&c16Case{Limit: L, Sizes: []int{60, a}, Via: "listener"})
			run(&c16Case{Limit: L, Sizes: []int{60, a}, Via: "listener-tls"})
		}
	}
	// the default limit (nothing configured): the boundary, and long streams of frames within it - "no matter how much data
	// preceded it" also holds when more than the limit has gone by on the connection
	def := int(lime.DefaultReadLimit)
	for _, sz := range []int{def - 1, def, 2*def + 1} {
		run(&c16Case{Limit: 0, Sizes: []int{1000, sz}, Coalesce: true})
		if Thorough() {
			run(&c16Case{Limit: 0, Sizes: []int{sz}, ReadChunk: 65536})
		}
	}
	run(&c16Case{Limit: 0, Sizes: []int{3 << 20, 3 << 20, 3 << 20, 1000, 3 << 20}})
	run(&c16Case{Limit: 0, Sizes: []int{def / 2, -(def / 2), def / 2, def / 2, 60, def}, Coalesce: true, ReadChunk: 65536, Trace: true})
	run(&c16Case{Limit: 0, Sizes: []int{5 << 20, 5 << 20, 200}, Via: "listener"})
	run(&c16Case{Limit: 0, Sizes: []int{1 << 20, 1 << 20, 1 << 20, 1 << 20, 1 << 20, 1 << 20, 1 << 20, 1 << 20, 1 << 20, 100}, Via: "listener-tls"})
	rec.Note("exhaustive", "true")
}

func TestC16(t *testing.T) {
	rec := NewRecorder("C16", "TestC16")
	rapid.Check(t, func(rt *rapid.T) {
		L := rapid.SampledFrom([]int64{256, 1000, 4096, 65536}).Draw(rt, "limit")
		n := rapid.IntRange(1, 12).Draw(rt, "frames")
		c := &c16Case{Limit: L, Coalesce: rapid.Bool().Draw(rt, "coalesce"), Trace: rapid.IntRange(0, 3).Draw(rt, "trace") == 0}
		if rapid.Bool().Draw(rt, "chunked") {
			c.ReadChunk = rapid.OneOf(rapid.IntRange(1, 64), rapid.IntRange(1, int(2*L))).Draw(rt, "chunk")
		}
		bs := boundarySizes(L)
		for i := 0; i < n; i++ {
			var s int
			switch rapid.IntRange(0, 11).Draw(rt, "how") {
			case 10, 11:
				s = -rapid.IntRange(c16RefusedBase, int(L)).Draw(rt, "refused")
			case 0, 1, 2, 3:
				s = rapid.IntRange(c16Base, int(L)).Draw(rt, "inlimit")
			case 4, 5, 6:
				s = bs[rapid.IntRange(0, len(bs)-1).Draw(rt, "boundary")] + rapid.IntRange(-2, 2).Draw(rt, "delta")
			case 7:
				s = rapid.IntRange(int(L), int(2*L)).Draw(rt, "between")
			default:
				s = rapid.IntRange(int(2*L)+1, int(12*L)).Draw(rt, "oversized")
			}
			if s >= 0 && s < c16Base {
				s = c16Base
			}
			c.Sizes = append(c.Sizes, s)
		}
		o := &Outcome{}
		steps, note := runC16(c)
		judgeC16(c, steps, note, o)
		rec.Check(rt, c, o)
	})
}

func TestC16Replay(t *testing.T) {
	rec := NewRecorder("C16", "TestC16Replay")
	defer rec.Finish(t)
	for _, f := range ReplayFiles("C16") {
		var c c16Case
		if err := LoadCase(f, &c); err != nil || len(c.Sizes) == 0 {
			continue
		}
		o := &Outcome{}
		steps, note := runC16(&c)
		judgeC16(&c, steps, note, o)
		rec.Eval(&c, o)
	}
}

var _ = json.Marshal
