#!/bin/bash
# run every claimed check (quick or thorough) once; print one line per property
tier=${1:-quick}
for p in $(python3 -c "import json;print(' '.join(c['property_id'] for c in json.load(open('MANIFEST.json'))['checks']))"); do
  out=$(python3 run.py check $p --tier $tier 2>&1)
  rc=$?
  echo "$p rc=$rc $(echo "$out" | grep '^property=' | cut -c1-160)"
  if [ $rc -ne 0 ]; then echo "$out" | grep -E "VIOLATION|INCONCLUSIVE|signature|detail" | head -8 | cut -c1-300; fi
done
