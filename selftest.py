#!/usr/bin/env python3
"""Sensitivity self-test: apply each mutant / seeded change to a scratch copy of the repository, run the quick check
for its property against the copy (VERIF_REPO_DIR), expect exit 1 (VIOLATION). Scratch copies are removed afterwards.

  python3 selftest.py [--baseline] [--tier quick] [C01 ...| mutant-name ...]
  python3 selftest.py make <name> <file> <old> <new>     create mutants/<name>.patch from a textual replacement
"""
import glob, json, os, re, shutil, subprocess, sys, tempfile, time

HERE = os.path.dirname(os.path.abspath(__file__))


def list_mutants():
    out = []
    for p in sorted(glob.glob(os.path.join(HERE, "mutants", "*.patch"))):
        name = os.path.basename(p)[:-6]
        out.append({"name": name, "patch": p, "props": [name.split("-")[0]]})
    for d in sorted(glob.glob(os.path.join(HERE, "seeded", "*"))):
        meta = os.path.join(d, "meta.json")
        patch = os.path.join(d, "patch.diff")
        if os.path.exists(meta) and os.path.exists(patch):
            m = json.load(open(meta))
            if m.get("obsolete"):
                continue  # no longer a violation on the repaired tree (see meta.json)
            props = m.get("detected_by") or [m.get("property")]
            out.append({"name": "seeded/" + os.path.basename(d), "patch": patch, "props": props})
    return out


def scratch_copy():
    d = tempfile.mkdtemp(prefix="verif-mut-")
    dst = os.path.join(d, "repo")
    subprocess.run(["rsync", "-a", "--exclude", ".git", "/repo/", dst + "/"], check=True)
    return d, dst


def run_one(m, baseline, tier):
    d, dst = scratch_copy()
    try:
        p = subprocess.run(["patch", "-p1", "-s", "-i", m["patch"]], cwd=dst, stdout=subprocess.PIPE, stderr=subprocess.STDOUT, text=True)
        if p.returncode != 0:
            return "PATCH-FAILED", p.stdout
        env = dict(os.environ, GOFLAGS="-mod=mod", GOPROXY="off", GOSUMDB="off", GOTOOLCHAIN="local")
        if baseline:
            b = subprocess.run(["go", "test", "-vet=off", "-count=1", "-timeout", "120s", "."], cwd=dst, env=env, stdout=subprocess.PIPE, stderr=subprocess.STDOUT, text=True)
            if b.returncode != 0:
                return "BASELINE-KILLS", b.stdout[-1500:]
        res = []
        status = "MISSED"
        for prop in m["props"]:
            env2 = dict(os.environ, VERIF_REPO_DIR=dst, VERIF_EVIDENCE_DIR=os.path.join(d, "evidence"), VERIF_REPLAY_DIR=os.path.join(d, "replays"))
            t0 = time.time()
            c = subprocess.run([sys.executable, os.path.join(HERE, "run.py"), "check", prop, "--tier", tier], cwd=HERE, env=env2,
                               stdout=subprocess.PIPE, stderr=subprocess.STDOUT, text=True)
            sigs = re.findall(r"signature: (.*)", c.stdout)
            res.append("%s rc=%d %.0fs %s" % (prop, c.returncode, time.time() - t0, "; ".join(sigs[:4])))
            if c.returncode == 1 and "VIOLATION property=" + prop in c.stdout:
                status = "KILLED"
            elif c.returncode == 2 and status != "KILLED":
                status = "INCONCLUSIVE"
                res.append(c.stdout[-1200:])
        return status, " | ".join(res)
    finally:
        shutil.rmtree(d, ignore_errors=True)


def make(name, file, old, new):
    src = open(os.path.join("/repo", file)).read()
    if src.count(old) != 1:
        print("pattern occurs %d times" % src.count(old))
        return 1
    d = tempfile.mkdtemp(prefix="verif-mk-")
    try:
        os.makedirs(os.path.join(d, "a", os.path.dirname(file)), exist_ok=True)
        os.makedirs(os.path.join(d, "b", os.path.dirname(file)), exist_ok=True)
        open(os.path.join(d, "a", file), "w").write(src)
        open(os.path.join(d, "b", file), "w").write(src.replace(old, new))
        p = subprocess.run(["diff", "-u", os.path.join("a", file), os.path.join("b", file)], cwd=d, stdout=subprocess.PIPE, text=True)
        os.makedirs(os.path.join(HERE, "mutants"), exist_ok=True)
        open(os.path.join(HERE, "mutants", name + ".patch"), "w").write(p.stdout)
        print("wrote mutants/%s.patch (%d lines)" % (name, p.stdout.count("\n")))
        return 0
    finally:
        shutil.rmtree(d, ignore_errors=True)


def main(args):
    if args and args[0] == "make":
        return make(*args[1:5])
    baseline = "--baseline" in args
    tier = "quick"
    sel = [a for a in args if not a.startswith("--")]
    muts = list_mutants()
    if sel:
        muts = [m for m in muts if any(s in m["props"] or s == m["name"] or m["name"].startswith(s) for s in sel)]
    missed = 0
    for m in muts:
        status, info = run_one(m, baseline, tier)
        print("%-14s %-40s %s" % (status, m["name"], info), flush=True)
        if status != "KILLED":
            missed += 1
    print("%d mutants, %d not killed" % (len(muts), missed))
    return 1 if missed else 0


if __name__ == "__main__":
    sys.exit(main(sys.argv[1:]))
