#!/usr/bin/env python3
"""Regenerate MANIFEST.json from checks_config.py (single source of truth for the claimed checks)."""
import json, os, subprocess
from checks_config import CHECKS, NOT_APPLICABLE, HOOK_COMMITS

props = [json.loads(l)["id"] for l in open("properties.jsonl")]
checks = []
for pid in sorted(CHECKS):
    c = CHECKS[pid]
    if not c.get("claimed", True):
        continue
    checks.append({
        "property_id": pid,
        "quick_cmd": "python3 run.py check %s --tier quick" % pid,
        "thorough_cmd": "python3 run.py check %s --tier thorough" % pid,
        "evidence_file": "evidence/%s.json" % pid,
        "replay_cmd_template": "python3 run.py replay %s {path}" % pid,
        "engine": "harness",
        "level_claimed": {"category": c["level"], "text": c["claim"], "design_ref": "DESIGN.md section 3, " + pid},
        "level_note": c["note"],
        "technique": c["technique"],
    })
claimed = [c["property_id"] for c in checks]
na = [{"property_id": p, "reason": NOT_APPLICABLE.get(p, "check not built yet (work in progress; see DESIGN.md section 6)")}
      for p in props if p not in claimed]
m = {
    "version": 1,
    "setup_cmd": "python3 run.py setup",
    "hooks": {
        "guard": "verif",
        "enable": "run.py builds the harness test binary with `go1.26.8 test -c -tags verif` against /repo's working tree (replace directive in a scratch -modfile)",
        "baseline_off_cmd": "cd /repo && go test -vet=off -count=1 -timeout 25m ./...",
        "source_commits": HOOK_COMMITS,
        "add_only": True,
    },
    "engines": [{"name": "harness", "path": "harness", "serves_properties": claimed,
                 "kind_free_text": "Go test binary: rapid v1.3.0 property tests (stateful/model-based where histories matter), systematic enumerators, "
                                   "native go fuzz targets, virtual time via testing/synctest; driven, sharded and judged by run.py"}],
    "checks": checks,
    "not_applicable": na,
    "notes": "Known findings and fixed defects: known_findings.json. Sensitivity mutants: mutants/, seeded/ (python3 selftest.py). Design: DESIGN.md.",
}
json.dump(m, open("MANIFEST.json", "w"), indent=1)
print("claimed", claimed)
