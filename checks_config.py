"""Per-property job tables for run.py.

job fields: test (Go test function), kind (rapid|plain), shards, checks (quick, thorough) per shard for rapid jobs,
timeout (quick, thorough) seconds per shard, env, thorough_only.
"""

STD_ASSUMPTIONS = [
    "checks run the library built from the repository working tree with -tags verif (adds constructors only)",
    "harness built with go1.26.8 (testing/synctest for virtual time); the library's go.mod language version is unchanged",
]

CHECKS = {}
NOT_APPLICABLE = {}
HOOK_COMMITS = ["3a4e866"]

CHECKS["C01"] = {
    "level": "exploration",
    "claim": ("Generated-input search: rapid-generated envelopes of all kinds and exhaustive small-alphabet text forms, judged by an independent "
              "canonical form (wire-shape predicate + normalised equality) through the typed decoders and the real TCP receive path."),
    "note": "Trusts encoding/json, the harness's canonical form (norm.go) and the in-memory net.Conn; values are sampled (text forms exhaustive up to the stated length).",
    "technique": "property-based testing (rapid): round-trip + independent wire-shape oracle; exhaustive small-scope enumeration of text forms",
    "rule": ("rapid-generated envelope specs of all 5 kinds (optional fields drawn independently, recursive documents of every "
             "kind incl. chat and a harness-registered custom type, all authentication types) round-tripped through json.Marshal, "
             "typed decoder, raw bytes into a real TCP transport's Receive (4 whitespace variants) and Send->Receive; plus exhaustive "
             "text forms (nodes/identities over 43^3 part combinations, media types, every string <=6/7 over {a,b,@,/,+}, URI token "
             "strings). Non-trivial: envelope with a document or authentication or >=2 optional fields; text form with >=2 non-empty "
             "parts / length>=3. Distinct by SHA-1 of the case."),
    "assumptions": STD_ASSUMPTIONS + ["well-formed = valid UTF-8, address parts without '@' and '/', media type parts without '/' and '+', "
                                      "declared media type maps to the document's factory, command type present iff resource present"],
    "exhaustive_jobs": ["TestC01Text"],
    "jobs": [
        {"test": "TestC01Replay", "kind": "plain"},
        {"test": "TestC01Text", "kind": "plain"},
        {"test": "TestC01", "kind": "rapid", "shards": 14, "checks": (5000, 60000)},
        {"test": "TestC01TextRapid", "kind": "rapid", "shards": 1, "checks": (5000, 200000)},
    ],
}

CHECKS["C11"] = {
    "level": "exploration",
    "claim": ("Generated requests/messages x all reply builders, compared with the reply computed from the property statement and round-tripped "
              "over the wire; ping auto-reply exercised end to end on both roles over loopback TCP."),
    "note": "Trusts the canonical form and encoding/json; ping cases use real loopback sockets with a 2 s response bound per request.",
    "technique": "property-based testing (rapid): independent field oracle + wire round-trip; enumerated end-to-end ping cases",
    "rule": ("rapid-generated request commands / messages (from/pp/to in all 8 combinations, all methods, resources of every document "
             "kind) x builders {SuccessResponse, SuccessResponseWithResource, FailureResponse, Notification, FailedNotification, Sender}; "
             "expected reply computed from the statement, compared field by field, then wire round-trip (typed decoder + real TCP "
             "transport). Ping auto-reply: Server and Client built with AutoReplyPings over loopback TCP, all 8 address combinations x 2 "
             "URI forms. Non-trivial: pp present, or a resource, or a failure reason; every ping case."),
    "assumptions": STD_ASSUMPTIONS + ["ping cases need a loopback TCP socket (127.0.0.1)"],
    "exhaustive_jobs": ["TestC11Ping"],
    "jobs": [
        {"test": "TestC11Replay", "kind": "plain"},
        {"test": "TestC11Ping", "kind": "plain", "timeout": (200, 300)},
        {"test": "TestC11", "kind": "rapid", "shards": 14, "checks": (3000, 50000)},
    ],
}
