"""Per-property job tables for run.py.

job fields: test (Go test function), kind (rapid|plain), shards, checks (quick, thorough) per shard for rapid jobs,
timeout (quick, thorough) seconds per shard, env, thorough_only.
"""

STD_ASSUMPTIONS = [
    "checks run the library built from the repository working tree with -tags verif (adds constructors only)",
    "harness built with go1.26.8 (testing/synctest for virtual time); the library's go.mod language version is unchanged",
]

CHECKS = {}

CHECKS["C01"] = {
    "level": "exploration",
    "rule": ("rapid-generated envelope specs of all 5 kinds (optional fields drawn independently, recursive documents of every "
             "kind incl. chat and a harness-registered custom type, all authentication types) round-tripped through json.Marshal, "
             "typed decoder, raw bytes into a real TCP transport's Receive (4 whitespace variants) and Send->Receive; plus exhaustive "
             "text forms (nodes/identities over 43^3 part combinations, media types, every string <=6/7 over {a,b,@,/,+}, URI token "
             "strings). Non-trivial: envelope with a document or authentication or >=2 optional fields; text form with >=2 non-empty "
             "parts / length>=3. Distinct by SHA-1 of the case."),
    "assumptions": STD_ASSUMPTIONS + ["well-formed = valid UTF-8, address parts without '@' and '/', media type parts without '/' and '+', "
                                      "declared media type maps to the document's factory, command type present iff resource present"],
    "exhaustive_jobs": ["TestC01Text"],
    "jobs": [
        {"test": "TestC01Replay", "kind": "plain"},
        {"test": "TestC01Text", "kind": "plain"},
        {"test": "TestC01", "kind": "rapid", "shards": 14, "checks": (5000, 60000)},
        {"test": "TestC01TextRapid", "kind": "rapid", "shards": 1, "checks": (5000, 200000)},
    ],
}
