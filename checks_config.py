"""Per-property job tables for run.py.

job fields: test (Go test function), kind (rapid|plain), shards, checks (quick, thorough) per shard for rapid jobs,
timeout (quick, thorough) seconds per shard, env, thorough_only.
"""

STD_ASSUMPTIONS = [
    "checks run the library built from the repository working tree with -tags verif (adds constructors only)",
    "harness built with go1.26.8 (testing/synctest for virtual time); the library's go.mod language version is unchanged",
]

CHECKS = {}
NOT_APPLICABLE = {}
HOOK_COMMITS = ["3a4e866"]

CHECKS["C01"] = {
    "level": "exploration",
    "claim": ("Generated-input search: rapid-generated envelopes of all kinds and exhaustive small-alphabet text forms, judged by an independent "
              "canonical form (wire-shape predicate + normalised equality) through the typed decoders and the real TCP receive path (one long-lived connection; before every other envelope a refused "
              "relative of the previous one - all of its members plus an unknown event - goes through the same connection and must be answered with an error without touching what follows). "
              "Plus 16 goroutines round-tripping their own generated envelopes at the same time (TestC01Concurrent). "
              "A document type may also be registered after its media type has already been decoded through the generic fallback: from the registration on it decodes to the registered type at every position (message content, command resource, container value, collection item, collection of containers) on both decoders, whichever saw it first."),
    "note": "Trusts encoding/json, the harness's canonical form (norm.go) and the in-memory net.Conn; values are sampled (text forms exhaustive up to the stated length).",
    "technique": "property-based testing (rapid): round-trip + independent wire-shape oracle; exhaustive small-scope enumeration of text forms",
    "rule": ("rapid-generated envelope specs of all 5 kinds (optional fields drawn independently, recursive documents of every "
             "kind incl. chat and a harness-registered custom type, all authentication types) round-tripped through json.Marshal, "
             "typed decoder, raw bytes into a real TCP transport's Receive (4 whitespace variants) and Send->Receive; plus exhaustive "
             "text forms (nodes/identities over 43^3 part combinations, media types, every string <=6/7 over {a,b,@,/,+}, URI token "
             "strings). Non-trivial: envelope with a document or authentication or >=2 optional fields; text form with >=2 non-empty "
             "parts / length>=3. Distinct by SHA-1 of the case."),
    "assumptions": STD_ASSUMPTIONS + ["well-formed = valid UTF-8, address parts without '@' and '/', media type parts without '/' and '+', "
                                      "declared media type maps to the document's factory, command type present iff resource present"],
    "exhaustive_jobs": ["TestC01Text"],
    "jobs": [
        {"test": "TestC01Replay", "kind": "plain"},
        {"test": "TestC01Text", "kind": "plain"},
        {"test": "TestC01LateRegistration", "kind": "plain"},
        {"test": "TestC01", "kind": "rapid", "shards": 14, "checks": (5000, 60000)},
        {"test": "TestC01TextRapid", "kind": "rapid", "shards": 1, "checks": (5000, 200000)},
        {"test": "TestC01Concurrent", "kind": "plain", "shards": (2, 8), "timeout": (300, 1500), "gomaxprocs": [16, 8, 16, 4, 16, 8, 16, 4]},
    ],
}

CHECKS["C11"] = {
    "level": "exploration",
    "claim": ("Generated requests/messages x all reply builders, compared with the reply computed from the property statement and round-tripped "
              "over the wire; ping auto-reply exercised end to end on both roles over loopback TCP, for every combination of from/pp and destinations relative to the answering endpoint (none, its complete "
              "address, its identity only, its identity with another instance, somebody else). "
              "Plus 16 goroutines building and encoding replies (success with a text / JSON resource, failure with a reason) of the same size at the same time: each comes back from the wire with its own id, destination and content."),
    "note": "Trusts the canonical form and encoding/json; ping cases use real loopback sockets with a 2 s response bound per request.",
    "technique": "property-based testing (rapid): independent field oracle + wire round-trip; enumerated end-to-end ping cases",
    "rule": ("rapid-generated request commands / messages (from/pp/to in all 8 combinations, all methods, resources of every document "
             "kind) x builders {SuccessResponse, SuccessResponseWithResource, FailureResponse, Notification, FailedNotification, Sender}; "
             "expected reply computed from the statement, compared field by field, then wire round-trip (typed decoder + real TCP "
             "transport). Ping auto-reply: Server and Client built with AutoReplyPings over loopback TCP, all 8 address combinations x 2 "
             "URI forms. Non-trivial: pp present, or a resource, or a failure reason; every ping case."),
    "assumptions": STD_ASSUMPTIONS + ["ping cases need a loopback TCP socket (127.0.0.1)"],
    "exhaustive_jobs": ["TestC11Ping"],
    "jobs": [
        {"test": "TestC11Concurrent", "kind": "plain", "shards": (1, 4), "timeout": (300, 1500), "gomaxprocs": [16, 8, 16, 4]},
        {"test": "TestC11Replay", "kind": "plain"},
        {"test": "TestC11Ping", "kind": "plain", "timeout": (200, 300)},
        {"test": "TestC11", "kind": "rapid", "shards": 14, "checks": (3000, 50000)},
    ],
}

CHECKS["C02"] = {
    "level": "exploration",
    "claim": ("Generated-input search over byte strings: complete single-point (and sampled/complete double-point) structural mutation sweep of a "
              "corpus of valid encodings at every node, lexical mutations (truncation / byte replacement / deletion at every offset, "
              "concatenations, deep nesting), every string of up to 3 (thorough: 4) pieces from a 24-piece alphabet of separators and escapes in each member that carries a "
              "parsed text form (uri, node, media type, event, document URI), rapid-generated byte strings and mutations, native coverage-guided fuzzing in the thorough tier, and 8 goroutines decoding at once "
              "(typed decoders and TCP transports) inputs whose text forms are new to the process, and frames sent by a raw WebSocket peer to a library WebSocket listener (whole-document scalars and null, the corpus, single-point mutations); "
              "oracle: no panic, and whatever is accepted re-encodes and re-decodes to an equal envelope of the same kind, on the typed "
              "decoders and on the real TCP receive path; a live Server must survive the inputs. "
              "The text members are additionally swept deeper with the few characters each grammar branches on: media types ('a', '/', '+', ';', '=') to 6 pieces (thorough 8), nodes ('a', '@', '/', '.') to 7 (9), URIs to 5 (7). "
              "Termination on traced connections: 1-3 TCP transports that share the library's stdout trace writer (as a listener's connections do) are handed sequences of up to 10 lines - envelopes, JSON values "
              "that are no envelope (numbers, strings, arrays, null, wrong member types), texts that are no JSON - and every Receive must return, with an envelope or an error, also on the connections "
              "that merely share the trace writer with the one that was handed such a text (real time: not returned 8 s after a context of 300 ms = does not terminate)."),
    "note": "Trusts encoding/json and the harness's canonical equality; inputs are sampled/enumerated, not all byte strings.",
    "technique": "systematic structural mutation sweep + property-based testing (rapid) + native go fuzzing, with a re-encode/re-decode stability oracle",
    "rule": ("inputs: corpus literals + hostile constants + generated envelopes; every single-point mutation (delete, 14 replacement values, wrap, "
             "alien key, duplicate key, sibling swap) at every node, donor-subtree splices, double mutations for small members; truncations, "
             "suffixes, byte replacement/deletion at every offset, concatenations, deep nesting; rapid: random bytes, random structural / "
             "lexical / string / splice / merge mutations. Non-trivial: input accepted by at least one decoder or rejected inside document "
             "decoding (i.e. got past the JSON scanner and envelope discrimination). Distinct by SHA-1 of the input."),
    "assumptions": STD_ASSUMPTIONS,
    "exhaustive_jobs": ["TestC02Sweep", "TestC02Lexical", "TestC02Text", "TestC02TracedEnum"],
    "jobs": [
        {"test": "TestC02Replay", "kind": "plain"},
        {"test": "TestC02Text", "kind": "plain", "shards": (4, 12), "timeout": (300, 3000)},
        {"test": "TestC02WS", "kind": "plain", "shards": (2, 4), "timeout": (300, 1500)},
        {"test": "TestC02Concurrent", "kind": "plain", "shards": (2, 8), "timeout": (300, 3000), "gomaxprocs": [8, 16, 4, 16, 8, 16, 4, 16]},
        {"test": "TestC02Sweep", "kind": "plain", "shards": 16, "timeout": (300, 3000)},
        {"test": "TestC02Lexical", "kind": "plain", "shards": 8, "timeout": (300, 3000)},
        {"test": "TestC02Rapid", "kind": "rapid", "shards": 8, "checks": (4000, 150000)},
        {"test": "TestC02Live", "kind": "plain", "shards": (4, 8), "timeout": (300, 1500)},
        {"test": "TestC02TracedEnum", "kind": "plain", "timeout": (300, 1500)},
        {"test": "TestC02Traced", "kind": "rapid", "shards": 2, "checks": (60, 1500), "timeout": (300, 3000), "shrink": (30, 90)},
        {"test": "FuzzC02Decode", "kind": "fuzz", "fuzztime": (0, 240), "thorough_only": True},
    ],
}

HANDSHAKE_ASSUMPTIONS = STD_ASSUMPTIONS + [
    "cases run in testing/synctest bubbles over the real TCP transport on in-memory connections; virtual clock, real Go scheduler",
    "scripted peers speak JSON lines produced/parsed with encoding/json (independent of the library codec)",
    "release bound: 6 s of virtual time after the peer's last action (TCP poll interval 5 s + 1 s)",
]

CHECKS["C07"] = {
    "level": "exploration",
    "claim": ("Every client script up to a depth bound over a ~35-symbol alphabet (all session states, id variants, option choices incl. a real TLS "
              "upgrade, schemes, credential classes, non-session and undecodable inputs) for 6 representative server configurations, plus "
              "rapid-generated configurations/scripts, replayed against the implementation and compared with an executable reference model of "
              "the server handshake (order grammar, single id, sender, monotone state, failed+reason+close on client violations). Also over the in-process transport (library envelope values instead of bytes), "
              "and with cleartext envelopes glued to the choice of tls in one write (the model discards them)."),
    "note": "The reference model (srvscript.go RunServerModel) is written from README/property text; configurations are sampled from a lattice; depth-bounded.",
    "technique": "model-based testing: exhaustive depth-bounded script enumeration with model-guided pruning + rapid (stateful generation) in virtual time",
    "rule": ("case = (server configuration, client script, how the peer ends). Enumeration: all scripts to depth 4 (quick) / 5 (thorough), not extended past "
             "a terminal model state; rapid: configuration lattice x drawn authentication tables x scripts of 1-8 symbols biased (65%) towards symbols "
             "that keep the handshake going; both direct ServerChannel.EstablishSession and a real Server. Non-trivial: script with >=2 client "
             "envelopes or one that triggers a violation clause. Distinct by SHA-1 of the case."),
    "assumptions": HANDSHAKE_ASSUMPTIONS,
    "exhaustive_jobs": ["TestC07Enum"],
    "jobs": [
        {"test": "TestC07Replay", "kind": "plain"},
        {"test": "TestC07Enum", "kind": "plain", "shards": 6, "timeout": (300, 3000)},
        {"test": "TestC07", "kind": "rapid", "shards": 10, "checks": (4000, 80000), "timeout": (300, 3000)},
    ],
}

CHECKS["C03"] = {
    "level": "exploration",
    "claim": ("Same script space as C07; oracle is an invariant over the observed history, independent of the model: whenever the server side treats a session as "
              "established (channel state, established envelope, or the Server's Established callback) the callback log must show Authenticate for exactly the "
              "identity/scheme/credentials the peer presented last, under an offered scheme, returning a known role, followed by Register for the peer's node, "
              "and the established envelope / RemoteNode must announce exactly the registered node. Scripts run over TCP (in-memory connections), TCP+TLS and the in-process transport, against a bare "
              "ServerChannel, a Server and a ServerBuilder-built server, with peers that stay, half-close, reset, or vanish right after their last envelope. "
              "Through the builder the peer also sends authenticating envelopes that name a scheme but carry no authentication object at all: no session may come of them under a scheme that needs credentials. "
              "In a third of the builder cases a second ServerBuilder is configured (with other schemes) while the first server is serving: that changes nothing for the first. "
              "The scheme a session is established under is judged against the offer the peer actually read off the connection (the scheme options of the authentication request it was sent), not only against the configured list."),
    "note": "History invariant over callback log + envelopes seen by the scripted peer + exported channel state; scripts/configurations sampled and depth-bounded.",
    "technique": "property-based testing (rapid) + exhaustive depth-bounded script enumeration against a history invariant, in virtual time",
    "rule": ("cases as in C07 (direct and Server modes; enumeration depth 5/6 direct, 4/5 under Server), plus the ServerBuilder entry point over the in-process transport (drawn sets of enabled schemes x 1-3 "
             "authenticating envelopes with right / wrong / empty / non-base64 secrets), where the application's authenticator functions are the log. Non-trivial: the script reaches the authentication stage "
             "(model state AwaitAuth). Distinct by SHA-1 of the case."),
    "assumptions": HANDSHAKE_ASSUMPTIONS,
    "exhaustive_jobs": ["TestC03Enum", "TestC03EnumServer"],
    "jobs": [
        {"test": "TestC03Replay", "kind": "plain"},
        {"test": "TestC03Enum", "kind": "plain", "shards": 4, "timeout": (300, 3000)},
        {"test": "TestC03EnumServer", "kind": "plain", "shards": 4, "timeout": (300, 3000)},
        {"test": "TestC03", "kind": "rapid", "shards": 8, "checks": (4000, 80000), "timeout": (300, 3000)},
        {"test": "TestC03Builder", "kind": "rapid", "shards": 4, "checks": (1500, 40000), "timeout": (300, 3000)},
    ],
}

CHECKS["C14"] = {
    "level": "fault_enumeration",
    "claim": ("Every failing script of the handshake model (each rejection branch), authentication/registration callback errors, garbage, non-session input, failed TLS "
              "upgrade and the peer vanishing or staying connected, against a real Server: the server end of the connection must be closed, no goroutine may still serve "
              "it after the release bound, neither Established nor Finished may fire, and a refused client must see the end of its connection. Over TCP, TCP+TLS and the in-process transport; "
              "peers that half-close, stay, stay silent past the deadline, reset, or vanish right after their last envelope. "
              "Callback errors come in two flavours: plain, and wrapping a context error although the server's own context is alive. "
              "Plus the library's WebSocket listeners (ws and wss) over loopback, real time: a raw peer fails its handshake at three points (right after connecting, after its new session, during authentication) in four ways (a WebSocket close frame, then waiting for the server to drop the connection; garbage; a wrong session id; a non-session envelope): it sees the end of its connection within 4 s, no Established callback, no goroutine left serving it. "
              "One case in five or six has the peer's connection reset while the Authenticate callback runs (the credentials have been read, the reply cannot be written). The goroutine census counts whatever is still inside the connection's transport (ctxConn, tcpTransport), not only the handshake and receiver goroutines."),
    "note": "Server runs over the real TCP transport on in-memory connections (closure observed exactly on the server end); serving goroutines found by stack census. A real-time watchdog outside the bubbles turns a library goroutine that spins or waits for a lock for ever (which stops a bubble's clock) into a violation with the stack frame in its signature instead of a timeout.",
    "technique": "fault enumeration over model-classified failing scripts (exhaustive to a depth bound) + rapid, in virtual time",
    "rule": ("cases as in C07 under a real Server, each with the peer ending by EOF (vanishing) or staying connected (wait), rapid adds silence. Judged only when the model "
             "says the handshake failed. Non-trivial: >=2 client envelopes, or a cause other than a first-envelope protocol violation. Distinct by SHA-1 of the case."),
    "assumptions": HANDSHAKE_ASSUMPTIONS,
    "exhaustive_jobs": ["TestC14Enum", "TestC14WS"],
    "jobs": [
        {"test": "TestC14Replay", "kind": "plain"},
        {"test": "TestC14Enum", "kind": "plain", "shards": 8, "timeout": (300, 3000)},
        {"test": "TestC14", "kind": "rapid", "shards": 8, "checks": (3000, 60000), "timeout": (300, 3000)},
        {"test": "TestC14WS", "kind": "plain", "shards": 2, "timeout": (300, 1500), "gomaxprocs": [4, 8]},
    ],
}

CHECKS["C10"] = {
    "level": "exploration",
    "claim": ("Server configured with encryption options that exclude 'none' on a TLS-capable TCP transport, against (a) every client script to a depth bound, both "
              "for clients that follow a negotiation and for clients that skip or refuse it, directly on ServerChannel and under a real Server, (b) the library's own "
              "client with every selector, with and without a client TLS configuration, every offered scheme and credential class, (c) rapid-generated scripts: the "
              "Authenticate callback must never run, and no authenticating/established session or client credential may appear in cleartext, while the server transport "
              "is unencrypted (observed on the callback log, the scripted peer, and the raw byte capture of both directions). "
              "The compression lists are drawn too: the usual one, one with an option the transport lacks, and one that shares nothing with what the transport supports. "
              "Plus the ServerBuilder entry point over the library's loopback TCP listener with a TLS configuration: EncryptionOptions(TLS), drawn CompressionOptions, other builders of the same process configured with none before and after, and a raw peer that chooses none, chooses tls without performing the handshake, or skips negotiation: no authenticating / established session in cleartext, no authenticator call, no Established callback. "
              "A third of the cases run after three ordinary negotiations elsewhere in the same process whose offer contained none and whose client chose it: nothing one negotiation leaves behind counts for the next."),
    "note": "Real TLS (crypto/tls) runs over the in-memory connection; the cleartext/TLS boundary is read off the captured bytes.",
    "technique": "exhaustive enumeration of configurations x client behaviours + rapid scripts, with an invariant over callback log and captured wire bytes, in virtual time",
    "rule": ("every case is non-trivial by construction (policy excludes none, transport can do TLS); enumerated: 6 scheme lists x 2 registration modes x 2 entry points x scripts "
             "to depth 3/4 in both model branches; pairs: 6 scheme lists x 4 selectors x client TLS config on/off x schemes x credential classes. Distinct by SHA-1 of the case."),
    "assumptions": HANDSHAKE_ASSUMPTIONS,
    "exhaustive_jobs": ["TestC10Enum", "TestC10Pair"],
    "all_exhaustive": False,
    "jobs": [
        {"test": "TestC10Replay", "kind": "plain"},
        {"test": "TestC10Pair", "kind": "plain", "timeout": (300, 1500)},
        {"test": "TestC10Enum", "kind": "plain", "shards": 8, "timeout": (300, 3000)},
        {"test": "TestC10", "kind": "rapid", "shards": 6, "checks": (2000, 40000), "timeout": (300, 3000)},
        {"test": "TestC10Builder", "kind": "rapid", "shards": (2, 4), "checks": (40, 600), "timeout": (300, 3000), "gomaxprocs": [4, 8, 2, 16], "shrink": (10, 40)},
    ],
}

CHECKS["C08"] = {
    "level": "exploration",
    "claim": ("Every server script up to a depth bound over a 37-symbol alphabet (all session states incl. regressions, id variants, option lists absent/empty/unknown, "
              "confirmations incl. a real TLS upgrade, scheme lists, round-trip data of every type, non-session envelopes, undecodable bytes, disconnect/silence) against "
              "ClientChannel.EstablishSession for 4 client configurations, plus rapid-generated scripts/configurations: no panic (also not on the receiver goroutine: a process "
              "crash is attributed to the journalled case), established only if the server's last word was established with id/nodes adopted from it, id echo, credentials only "
              "in answer to an authentication request, connection closed after finished/failed - at whatever point of the handshake the terminal envelope comes and whether or not EstablishSession then returns an error (server staying connected). "
              "Channel buffer sizes 0, 1 and 4 are drawn; scripts that go on after establishment: once a later session envelope that is not 'established' has been taken, the channel no longer reports an established session "
              "(judged when the unconsumed data in front of that envelope fits the buffers). "
              "The same scripts also through the high-level Client (every script of up to 2, thorough 3, symbols, and drawn ones): Client.Establish never panics - nor do the Client's own goroutines - and returns nil only when the server's last word was an established session. "
              "The client alphabet has an established session that carries a delegation node (pp) next to its from: the remote node adopted is still the envelope's from."),
    "note": "Symbols are sent only while the client is provably waiting (synctest.Wait), so 'last word' is exact; clauses are exactly those of the statement.",
    "technique": "exhaustive depth-bounded script enumeration with dynamic pruning + rapid (stateful generation) against invariants over the observed history, in virtual time",
    "rule": ("case = (selectors, authenticator, client TLS config, server script, end). Enumeration depth 3 (quick) / 4 (thorough), a script is only extended while the client still consumes "
             "envelopes. Non-trivial: >=2 server envelopes or an out-of-order state. Distinct by SHA-1 of the case."),
    "assumptions": HANDSHAKE_ASSUMPTIONS + ["selector and authenticator callbacks are total functions (the property's precondition)"],
    "exhaustive_jobs": ["TestC08Enum", "TestC08ClientEnum"],
    "jobs": [
        {"test": "TestC08Replay", "kind": "plain"},
        {"test": "TestC08Enum", "kind": "plain", "shards": 12, "timeout": (400, 6000)},
        {"test": "TestC08", "kind": "rapid", "shards": 4, "checks": (2500, 80000), "timeout": (300, 3000)},
        {"test": "TestC08ClientEnum", "kind": "plain", "shards": 4, "timeout": (300, 3000)},
        {"test": "TestC08Client", "kind": "rapid", "shards": 4, "checks": (400, 15000), "timeout": (300, 3000)},
    ],
}

CHECKS["C09"] = {
    "level": "exploration",
    "claim": ("All pairs of configured compression/encryption lists and transport capabilities (TCP with and without a TLS configuration, in-process) against (a) every client script to a "
              "depth bound incl. offered / unoffered / empty / unknown choices, wrong id and state, with and without performing the TLS handshake, (b) the library's own client with "
              "every selector, (c) the library client against a scripted server whose confirmation differs from the client's choice, and (d) every sequence of up to three connections over listeners of different "
              "capability (in-process, TLS-capable TCP) on one Server for every order of the configured lists: the offer equals configured ∩ supported, only an offered pair is confirmed (echoing the choice), anything else is answered with failed; after a confirmed "
              "tls every later byte in both directions is a TLS record, credentials never appear in cleartext, both callbacks (client authenticator, server Authenticate) run under the "
              "confirmed options, and both ends report the same options after establishment. (e) a pipelining peer: every authenticating symbol written in cleartext in the same write as the choice of tls, alone "
              "and followed by each authenticating symbol sent under TLS: credentials that never travelled under TLS must not reach Authenticate. "
              "Client side also: a confirmation that names a compression the TCP transport cannot apply (alone, or together with tls which it can): the client stops there - no credentials, no established session. "
              "Plus the ServerBuilder entry point over the loopback TCP listener with a TLS configuration: what a server built with EncryptionOptions(TLS) (and drawn CompressionOptions, with other builders configured around it) offers is exactly [tls] and [none]. "
              "Plus the WebSocket transports over loopback sockets (ws, wss), where the connection itself decides what is in force: for every spelling of the URL scheme, with and without a TLS "
              "configuration handed to the client, through DialWebsocket and through the builders, both ends report what is in force (tls under wss, none under ws) and the client follows a scripted "
              "server that offers and confirms exactly that."),
    "note": "Real crypto/tls over the in-memory connection; wire observations come from the raw byte capture of both directions. The WebSocket part runs in real time over loopback sockets (a connection that cannot be set up is skipped, not failed).",
    "technique": "exhaustive enumeration of configurations x client behaviours + rapid scripts, with invariants over captured wire bytes and callback-time transport state, in virtual time",
    "rule": ("scripts: 2 transports x 3 compression lists x 4 encryption lists x 2 entry points x scripts to depth 3/4; pairs: the same 24 configurations x 4 encryption selectors x 2 compression "
             "selectors x client TLS config on/off x 2 schemes, plus 9 in-process pairs. Non-trivial: a negotiation stage occurs. Distinct by SHA-1 of the case."),
    "assumptions": HANDSHAKE_ASSUMPTIONS,
    "exhaustive_jobs": ["TestC09Script", "TestC09Pair", "TestC09Client", "TestC09Sequence", "TestC09WS"],
    "jobs": [
        {"test": "TestC09WS", "kind": "plain", "timeout": (300, 1500), "gomaxprocs": [4, 8]},
        {"test": "TestC09Builder", "kind": "rapid", "shards": 2, "checks": (30, 400), "timeout": (300, 3000), "gomaxprocs": [4, 8], "shrink": (10, 40)},
        {"test": "TestC09Replay", "kind": "plain"},
        {"test": "TestC09Pair", "kind": "plain", "timeout": (300, 1500)},
        {"test": "TestC09Client", "kind": "plain", "timeout": (300, 1500)},
        {"test": "TestC09Sequence", "kind": "plain", "timeout": (300, 1500)},
        {"test": "TestC09Script", "kind": "plain", "shards": 8, "timeout": (300, 3000)},
        {"test": "TestC09", "kind": "rapid", "shards": 6, "checks": (2000, 40000), "timeout": (300, 3000)},
    ],
}

CHECKS["C06"] = {
    "level": "exploration",
    "claim": ("Both roles are parked at every stage of handshake and teardown by controlled means (the scripted peer withholds its reply and synctest.Wait confirms the library side is blocked; "
              "the library's own callbacks serve as in-stage hook points), and every send operation is attempted there: outside established each returns an error and the byte capture of that "
              "side shows nothing but session envelopes; in established they succeed and the peer sees exactly those envelopes. Receive direction: each data kind is injected at every position "
              "of the handshake on both roles: no handler invocation, nothing on inbound streams, and the handshake never ends established. Server role also: while FinishSession / FailSession is still "
              "in progress (terminal envelope on the wire, the call waiting for its receiver on TCP) a send from another goroutine must fail and emit nothing. "
              "Client role, stages after establishment: the same sends also through the Sender a dispatch-loop handler was given while the session was established and kept. "
              "Channel buffer sizes none, one and four for both roles, and the stage in which the server finishes the session unasked."),
    "note": "Stage x role x operation is enumerated completely; the 'finishing' stage and the instant between the server's state change and its established envelope are deliberately not asserted (DESIGN.md).",
    "technique": "exhaustive enumeration of (role, stage, operation) and of injection positions, plus rapid orderings, against wire-capture and return-value oracles, in virtual time",
    "rule": ("stages: server {new, negotiating, authenticating, inside Authenticate, inside Register, established, finished, failed during handshake, failed after established, peer closed}; client "
             "{new before/after the first send, negotiating, inside the selector, authenticating, inside the authenticator, established, finished, failed during handshake, failed after established, "
             "peer closed}; operations: the four Send* and ProcessCommand, singly and all five in two orders; injections: 4 data kinds at every pending prefix (depth<=3) of 6 server configurations in "
             "both entry points, and at 5 positions x 2 client configurations. Non-trivial: stage other than new/established, or any injection. Distinct by SHA-1 of the case."),
    "assumptions": HANDSHAKE_ASSUMPTIONS,
    "exhaustive_jobs": ["TestC06Stages", "TestC06InjectServer", "TestC06InjectClient"],
    "all_exhaustive": False,
    "jobs": [
        {"test": "TestC06Replay", "kind": "plain"},
        {"test": "TestC06Stages", "kind": "plain"},
        {"test": "TestC06InjectClient", "kind": "plain"},
        {"test": "TestC06InjectServer", "kind": "plain", "shards": 4},
        {"test": "TestC06", "kind": "rapid", "shards": 4, "checks": (1500, 40000), "timeout": (300, 3000)},
    ],
}

TRANSPORT_ASSUMPTIONS = STD_ASSUMPTIONS + [
    "the real TCP transport runs over the harness's in-memory net.Conn (fconn.go), whose deadline/short-write/EOF behaviour mirrors a TCP socket; faults are injected there",
    "cases run in testing/synctest bubbles (virtual clock): the 5 s I/O poll and stalls cost no real time",
]

CHECKS["C12"] = {
    "level": "fault_enumeration",
    "claim": ("Envelope streams sent with Transport.Send on one real TCP transport and read with Receive on another, joined by an in-memory connection carrying a fault plan: every single and "
              "every pair of split points of a small stream, byte-at-a-time and fixed-size chunking, coalescing, transient read timeouts and stalls, every short-write length followed by a "
              "transient timeout, zero-length timeouts, cuts at every offset, resets; random plans on larger streams (up to 20 envelopes of up to 64 KiB, back-pressure with tiny pipes); "
              "with TLS: fragmentation of the raw stream, stalls and cuts. Oracle: what is received is a duplicate-free, in-order sub-sequence of what was attempted, each element equal to "
              "the one sent; every envelope whose Send returned nil arrives when nothing was cut (also one reported sent after an earlier Send failed); a cut in the middle of a write makes a Send fail. "
              "Sends may be given up on their context (cancelled or timed out, per envelope) while the receiver stalls for seconds behind a pipe smaller than a frame, or be issued with a context that is already dead (refused: such an envelope must never arrive, also not with a later one); "
              "the receiver may ask with short deadlines and ask again (an envelope is lost only if the receiver kept asking). "
              "TLS cases draw the protocol version (1.3, or capped at 1.2); the sender may close its transport right after its last send (under TLS the close notification follows the data at once) - everything reported sent still arrives; "
              "the receiver may run with a read limit just above the largest frame of the stream (it bounds one envelope, not the connection); a receiver that stays away for one to three write polls while the sender's context lives on. "
              "Under TLS (1.2 and 1.3) with a sender that closes after its last send, a transient read timeout is placed at each of the last 70 reads for fragment sizes 2-13 and 64 (crypto/tls can hand the last data over together with the timeout that interrupts the reading of the close notification). "
              "A watchdog turns a library goroutine that spins (which freezes the virtual clock) into a verdict instead of a timeout."),
    "note": "Short writes / write timeouts are not injected under TLS (crypto/tls makes any write error permanent, so no retry semantics apply there).",
    "technique": "fault enumeration (exhaustive split points / short-write lengths / cut offsets for small streams) + rapid fault plans, sent-vs-received sequence oracle, in virtual time",
    "rule": ("case = (stream, write fault plan on the sender's connection, read fault plan on the receiver's, global read chunk, coalescing, pipe capacity, TLS). Non-trivial: a fault fired or a frame "
             "was delivered in >=2 reads. Distinct by SHA-1 of the case."),
    "assumptions": TRANSPORT_ASSUMPTIONS,
    "exhaustive_jobs": ["TestC12Sweep"],
    "jobs": [
        {"test": "TestC12Replay", "kind": "plain"},
        {"test": "TestC12Sweep", "kind": "plain", "shards": 6, "timeout": (300, 3000)},
        {"test": "TestC12", "kind": "rapid", "shards": 8, "checks": (1200, 40000), "timeout": (300, 3000)},
    ],
}

CHECKS["C16"] = {
    "level": "fault_enumeration",
    "claim": ("Read limits x frame sizes at the boundaries (<<L, L/2, L-1, L, L+1, 1.5L, 2L-1, 2L, 2L+1, 3L, 10L) x stream position (single frame, every ordered pair of boundary sizes, a run of "
              "in-limit frames followed by each boundary size) x fragmentation (coalesced, concurrent writer with a 4 KiB pipe, read chunks of 1, 7, L-1, L, L+1 bytes), plus rapid streams of up to 12 "
              "frames; the limit is set through the hook constructor and through the real loopback TCP listener (propagation). Oracle per Receive: bytes taken from the connection during the call "
              "<= L; a frame > 2L is never returned; a frame <= L whose predecessors were accepted is returned intact. Frames in (L, 2L] may go either way. Refused frames (well-formed JSON that is no "
              "valid envelope: an unknown event, or members that add up to no kind) of every size up to L are interleaved: each must be answered with an error and costs later frames nothing. "
              "A frame of L/2 ... 10L also arrives in pieces (1, L/2, L-1, L, L+1 bytes, 1-24 of them, and drawn piece lists) while the receiver gives up on a 100 ms context between the pieces and asks again "
              "(virtual time): whatever the transport does after a given-up receive, a frame > 2L is never returned, one Receive takes at most L bytes, and what is returned was sent. "
              "The loopback listener cases run with and without a TLS configuration on the listener. "
              "Under the default limit (nothing configured): the boundary sizes, and streams of 9-14 MiB of frames within the limit (in-memory, traced, through the loopback listener with and without TLS)."),
    "note": "The unit is the frame (JSON text plus the encoder's newline). Bytes consumed are counted on the in-memory connection; not measured for the loopback listener cases.",
    "technique": "boundary-value enumeration + rapid streams with a per-call consumption counter on the injected connection",
    "rule": ("case = (limit, frame sizes, read chunk, coalesced?, via hook|listener). Non-trivial: a frame > L occurs, or >=2 coalesced frames; for the given-up cases: a frame > L and at least one receive that ended on its context with part of the frame taken. Distinct by SHA-1 of the case. Default 8 MiB limit only in the thorough tier."),
    "assumptions": STD_ASSUMPTIONS + ["the real TCP transport runs over the harness's in-memory net.Conn; listener cases use loopback TCP"],
    "exhaustive_jobs": ["TestC16Sweep", "TestC16GiveUpSweep"],
    "jobs": [
        {"test": "TestC16Replay", "kind": "plain"},
        {"test": "TestC16Sweep", "kind": "plain", "shards": 8, "timeout": (300, 3000), "gomaxprocs": [4]},
        {"test": "TestC16", "kind": "rapid", "shards": 8, "checks": (1500, 40000), "timeout": (300, 3000), "gomaxprocs": [4]},
        {"test": "TestC16GiveUpSweep", "kind": "plain", "shards": 4, "timeout": (300, 3000), "gomaxprocs": [4]},
        {"test": "TestC16GiveUp", "kind": "rapid", "shards": 4, "checks": (300, 10000), "timeout": (300, 3000), "gomaxprocs": [4]},
    ],
}

CHECKS["C15"] = {
    "level": "exploration",
    "claim": ("Enumerated product of context-taking operations (Transport.Send/Receive, the four channel sends, ProcessCommand, client EstablishSession with the server silent after each of 4 stages incl. "
              "mid-TLS-upgrade, client FinishSession, server EstablishSession with the client silent at each of 4 stages, listener Accept) x transports (in-process, TCP and TCP+TLS over in-memory "
              "connections in virtual time; TCP, TCP+TLS, ws, wss over loopback in real time) x deadline/cancellation x the moment the context ends (before the call, 50 ms, 1.3 s, 7 s; rapid draws others): "
              "a call that is provably blocked when its context ends must return a non-nil error within the stated bound - exact on the virtual clock (1 ms at a deadline; 5 s poll interval for a "
              "cancellation on TCP), 1 s of slack and two isolated re-runs on real sockets. Plus (TestC15FinishBusy, real time) ServerChannel.FinishSession / FailSession on an established session whose peer keeps writing and whose application keeps consuming, over the in-process transport and loopback TCP, 12 (thorough: 120) rounds per combination: the call returns within its context plus the bound. And (TestC15AfterDeadContext) every channel operation with a 300 ms deadline called right after a channel operation whose context was already cancelled or expired, on the same channel. "
              "transport.receive also against a slow peer that writes an envelope one byte every 700 ms (never a gap as long as the I/O poll). "
              "Plus the high-level Client in real time against a server that accepts the connection and then says nothing (the Client's own listener is in an establishment that cannot finish): Establish, SendMessage, SendNotification, SendRequestCommand and ProcessCommand, three calls in a row, deadline or cancellation after 30 / 300 ms, in-process and TCP: each returns an error within 1 s of its context's end (6 s for a cancellation on TCP). "
              "And ProcessCommand with an unconsumed response stream (more unsolicited responses than the channel buffers hold, nobody draining RespCmdChan), issued before or after they arrive, in-process and TCP, real time: it returns within 1.5 s of its context's end."),
    "note": "Blocking is established with synctest.Wait (virtual) or by still being pending 20 ms before the end (real); 'peer not reading' is produced by sending until a send blocks.",
    "technique": "exhaustive enumeration of (operation, transport, context end, moment) + rapid timings, latency oracle on a virtual clock; sampled real-socket cases",
    "rule": ("case = (operation, transport, deadline|cancel, time). Non-trivial: the operation was blocked when the context ended. Distinct by SHA-1 of the case."),
    "assumptions": TRANSPORT_ASSUMPTIONS + ["real-time cases: wall clock with 1 s slack; a late case is reported only if late in three runs"],
    "exhaustive_jobs": ["TestC15Enum"],
    "jobs": [
        {"test": "TestC15Replay", "kind": "plain"},
        {"test": "TestC15Enum", "kind": "plain", "shards": 4, "timeout": (300, 1500)},
        {"test": "TestC15Real", "kind": "plain", "timeout": (300, 900), "gomaxprocs": [8]},
        {"test": "TestC15AfterDeadContext", "kind": "plain", "shards": 4, "timeout": (300, 900)},
        {"test": "TestC15ClientSilentServer", "kind": "plain", "shards": 10, "timeout": (300, 1500), "gomaxprocs": [4]},
        {"test": "TestC15UnconsumedResponses", "kind": "plain", "shards": 4, "timeout": (300, 1500), "gomaxprocs": [4]},
        {"test": "TestC15FinishBusy", "kind": "plain", "shards": (6, 12), "timeout": (300, 1500), "gomaxprocs": [4, 8, 2, 16, 4, 8, 2, 16, 4, 8, 2, 16]},
        {"test": "TestC15", "kind": "rapid", "shards": 6, "checks": (800, 30000), "timeout": (300, 3000)},
    ],
}

CHECKS["C20"] = {
    "level": "exploration",
    "claim": ("Generated handler tables (0-6 handlers per kind; predicates nil / constant / truth table over the envelope class; registered as handler values, handler functions and catch-alls at a "
              "drawn position; handlers failing at their j-th invocation) x inbound sequences of 1-60 mixed envelopes, driven through ListenServer, ListenClient and a real Server over the in-process "
              "and TCP transports, compared with a first-match dispatch model per kind: the earliest registered matching handler, exactly once, with the envelope as sent; nothing for unmatched "
              "envelopes while later ones are still dispatched; after a handler error no further invocation, Listen returns that error, and under Server the client observes a finished session. "
              "Plus all tables of up to 3 handlers over 5 predicate shapes for each kind (exhaustive). Plus (TestC20Builder) the ping auto-reply of ServerBuilder as one more request handler: every registration order of up to 2 (thorough: 3) recording handlers (catch-all, ping only, everything but ping, never) around AutoReplyPings(), with pings and other requests on a real in-process session: each request reaches exactly the first handler that accepts it. "
              "A third of the listening-side cases first run ProcessCommand calls that are given up unanswered, with the ids of response commands that arrive later: those responses are dispatched like any other."),
    "note": "Cross-kind order is not asserted (the dispatch loop selects over four streams); per kind the invocation log must be a prefix of the model's, complete when no handler failed.",
    "technique": "model-based property testing (rapid) + exhaustive small tables against a first-match dispatch model, in virtual time",
    "rule": "case = (handler tables, inbound sequence, entry point, transport). Non-trivial: some envelope skips the first handler of its kind in a table with >=2 handlers. Distinct by SHA-1 of the case.",
    "assumptions": TRANSPORT_ASSUMPTIONS,
    "exhaustive_jobs": ["TestC20Tables", "TestC20Builder"],
    "jobs": [
        {"test": "TestC20Replay", "kind": "plain"},
        {"test": "TestC20Tables", "kind": "plain", "shards": 4, "timeout": (300, 1500)},
        {"test": "TestC20Builder", "kind": "plain", "shards": (1, 4), "timeout": (300, 1500)},
        {"test": "TestC20", "kind": "rapid", "shards": 8, "checks": (800, 25000), "timeout": (300, 3000)},
    ],
}

CHECKS["C05"] = {
    "level": "exploration",
    "claim": ("Generated histories of concurrent ProcessCommand calls (ids deliberately colliding; contexts none / deadline / cancelled at a step) interleaved with a scripted peer's responses "
              "(matching, duplicated, unknown ids, bursts in arbitrary order, late responses after the caller's context ended, omissions), on both roles and over the TCP and in-process transports, "
              "compared step by step with a pending-command table model: each call returns the response instance the model assigns to it (same id, same payload tag) or its context's error or "
              "the duplicate-id error, and the multiset of responses surfaced on the response stream equals the model's (nothing lost, nothing delivered to an unrelated caller). "
              "Plus every permutation of the responses of up to 4/5 concurrent calls sent as one burst, with an unknown id, a duplicate and an omission, followed by id reuse. "
              "Plus stalled-peer histories (tiny buffers, a peer that stops reading): requests whose send itself fails on its deadline, then reuse of those ids and late responses for them "
              "(enumerated in TestC05SendFails and drawn as a prefix in TestC05); once a failed write has ended the session the rest of the history is not judged. "
              "Steps also include a response racing with the cancellation of its request (either outcome, never a stuck goroutine) and two calls with one id started in the same instant "
              "(exactly one owns the id and gets the response, the other is refused). "
              "A quarter of the drawn histories end with the peer hanging up under the calls still pending; a call that returns neither a response nor an error is a violation in every history. "
              "Slow answers: responses that come 4 s to 61 s after the request complete the calls whose contexts are still alive (none, or a deadline beyond the answer) and only those; one generated pause in five is longer than any interval the library waits for on its own."),
    "note": "Staging uses synctest.Wait after every step, so races between a response and a cancellation at the same instant are not generated (as in DESIGN.md).",
    "technique": "stateful model-based property testing (rapid) + exhaustive permutations against a pending-command table model, in virtual time",
    "rule": "case = (role, transport, step list). Non-trivial: >=2 calls in flight with a burst, or any response that matches no pending call (unknown / duplicate / late). Distinct by SHA-1 of the case.",
    "assumptions": TRANSPORT_ASSUMPTIONS,
    "exhaustive_jobs": ["TestC05Perms", "TestC05SendFails"],
    "jobs": [
        {"test": "TestC05Replay", "kind": "plain"},
        {"test": "TestC05SendFails", "kind": "plain"},
        {"test": "TestC05Perms", "kind": "plain", "shards": 4, "timeout": (300, 1500)},
        {"test": "TestC05", "kind": "rapid", "shards": 8, "checks": (1200, 40000), "timeout": (300, 3000)},
    ],
}

CHECKS["C04"] = {
    "level": "exploration",
    "claim": ("Generated workloads (four kinds, payloads up to 64 KiB, both directions at once, 1-8 sender goroutines per direction, channel buffers 0/1/2/8/64, in-process transport buffers 0/1/4, "
              "tiny pipes for back-pressure, consumers reading the four streams or an EnvelopeMux, drawn consumer delays, and in a third of the TCP cases a consumer that pauses for 5.5-16 s of virtual time - longer than one to three write polls - every few envelopes while one sender per direction keeps sending; a third of the virtual-time sessions stay idle for 6-120 s before the traffic, longer than any deadline of the handshake, and a third send every other envelope with a context that has no deadline) over the in-process, TCP and TCP+TLS transports in virtual time and over "
              "TCP, TCP+TLS, ws and wss loopback sockets in real time: the multiset of delivered envelopes equals the multiset of envelopes whose Send* returned nil, each delivered value equals the "
              "sent one, per (sender goroutine, kind) the ids arrive in sending order, each kind arrives on its own stream, and no send fails while the session stays established."),
    "note": "Schedules are sampled (real Go scheduler, GOMAXPROCS varied per shard); consumers never send, except that in a third of the cases a client goroutine issues ProcessCommand calls it cancels after a few yields and the server's consumer answers them (once or twice): noise next to the judged traffic, not judged itself (C05 judges the pending-command table). Real-socket cases wait for all successfully sent envelopes, then 200 ms of silence; a session that drops is inconclusive, not a violation.",
    "technique": "property-based testing (rapid) of concurrent workloads with a multiset / order / equality oracle; virtual time for in-memory transports, real time for sockets",
    "rule": "case = (transport, buffers, per-goroutine op lists for both directions, consumer, delays). Non-trivial: >=2 kinds and >=2 concurrent senders, or both directions active, or buffer 0. Distinct by SHA-1 of the case.",
    "assumptions": TRANSPORT_ASSUMPTIONS + ["real-socket cases use loopback TCP/WebSocket listeners of the library"],
    "jobs": [
        {"test": "TestC04Replay", "kind": "plain"},
        {"test": "TestC04", "kind": "rapid", "shards": 10, "checks": (60, 2500), "timeout": (300, 3000), "gomaxprocs": [1, 2, 4, 16, 2]},
        {"test": "TestC04Real", "kind": "rapid", "shards": 4, "checks": (15, 400), "timeout": (300, 3000), "gomaxprocs": [2, 16, 4, 1], "shrink": (20, 60)},
    ],
}

CHECKS["C17"] = {
    "level": "exploration",
    "claim": ("One Server with several listeners (in-process + TCP over in-memory connections in virtual time; in-process + TCP + WebSocket over loopback in real time), 2-24 concurrent clients spread over "
              "them, a registration callback assigning pairwise distinct nodes unrelated to the candidates, every client sending a drawn interleaving of tagged messages, requests and notifications "
              "at the same time; handlers record the context's session id / remote node / local node and reply through the Sender they were handed: context values must be those of the sending client's "
              "session, every reply must arrive at the client that sent the tag and at no other, each envelope is handled exactly once, session ids are pairwise distinct and equal to ClientChannel.ID() "
              "and to the ids (and channels) passed to the Established callback, and each client is announced its own registered node. Plus (TestC17Ping) 2-16 sessions of a ServerBuilder server with AutoReplyPings, over the in-process transport and loopback TCP, pinging at the same time (50-600 ProcessCommand calls each): every call gets the response to its own request addressed to its own node, none is lost, nothing unsolicited surfaces. "
              "Plus servers without a Register callback (ServerBuilder and plain configuration): bursts of 2, 8 and 32 clients released by a barrier register at the same instant; every client is established under its own name, no address is announced twice, and each handler is told its own session's remote node. "
              "Half of the cases end with the server pushing ONE notification value and ONE message value, neither naming a destination, to every session it has: what arrives on a session names nobody or that session's own node."),
    "note": "Schedules are sampled; in-process dials are serialised by the harness because the library's in-process listener registry is an unsynchronised global (not part of any listed property).",
    "technique": "property-based testing (rapid) of concurrent multi-session workloads with a per-tag routing oracle; virtual time and real sockets",
    "rule": "case = (per-client transport and op list, channel buffer). Non-trivial: >=3 clients on >=2 transports. Distinct by SHA-1 of the case.",
    "assumptions": TRANSPORT_ASSUMPTIONS,
    "jobs": [
        {"test": "TestC17Replay", "kind": "plain"},
        {"test": "TestC17", "kind": "rapid", "shards": 8, "checks": (70, 4000), "timeout": (300, 3000), "gomaxprocs": [1, 2, 4, 16]},
        {"test": "TestC17DefaultRegistration", "kind": "plain", "shards": (1, 4), "timeout": (300, 3000), "gomaxprocs": [16, 8, 16, 4]},
        {"test": "TestC17Ping", "kind": "rapid", "shards": 4, "checks": (25, 600), "timeout": (300, 3000), "gomaxprocs": [4, 16, 2, 8], "shrink": (5, 20)},
        {"test": "TestC17Real", "kind": "rapid", "shards": 4, "checks": (15, 400), "timeout": (300, 3000), "gomaxprocs": [4, 16], "shrink": (20, 60)},
    ],
}

CHECKS["C13"] = {
    "level": "exploration",
    "claim": ("Who ends the session (ClientChannel.FinishSession, ServerChannel.FinishSession, ServerChannel.FailSession, Client.Close, Server.Close) x when (idle, or after the k-th of a drawn number of "
              "sends in either/both directions, consumers always draining) x transport (in-process, TCP and TCP+TLS over in-memory connections in virtual time; TCP, ws, wss, in-process over loopback in "
              "real time) x channel / transport buffers 0/1/8 x wiring (bare ClientChannel or the high-level Client against a real Server): the peer reaches the matching terminal state, RcvDone and the "
              "four inbound streams of both sides are closed and every consumer returns within the bound (1 s; 5 s on TCP), the initiator's transport is disconnected when the terminating call returns, "
              "Established/Finished callbacks pair up, and after the observing side closed its channel no session goroutine (receiver, dispatch loop, serving goroutine, client listener) and no connection "
              "end is left. Client.Close also with the server's dispatch loop stuck in a handler (finishing not answered): every connection the Client dialled must be released when Close returns. "
              "TCP+TLS cases draw the protocol version (1.3 or capped at 1.2, where the peer's close notification travels as a visible alert). Plus two real-time loads over the in-process transport: "
              "48 bare client channels finishing their sessions at the same time again and again, and a server whose last word (finished session, then close) is swept in steps of a few nanoseconds across "
              "the instant the client's receiver asks for its next envelope, right after establishment or right after a delivered message: every client reaches the finished state. "
              "Plus the high-level Client against scripted servers (every script of up to 2, thorough 3, symbols of the client-handshake alphabet and drawn ones, a third of them announcing the established session early): "
              "when the handshake in progress has taken an established session, then after Client.Close the Client's end of the connection is closed and no library goroutine is left, whatever Establish returned. "
              "Server initiators are also drawn busy: their dispatch loop sits in a handler and more notifications than their buffers hold have arrived when they end the session; every terminating call is bounded (one that never returns is a violation, not a hang). "
              "Plus, over loopback WebSocket, secure WebSocket and TCP pairs: the server has a send of a large message given up through its context while the client is not reading, then finishes, fails or closes the session: its transport is disconnected when the call returns, its receiver ends, and the client, once it reads again, is not left waiting on its connection. "
              "Plus, over real TCP (with and without TLS): the server finishes or fails the session while a burst it has already sent still waits in its socket for a client with a 64 KiB receive buffer that starts consuming only after the terminating call has returned (and sends nothing itself): the client receives every message sent before the end, then the terminal session. And with the high-level Client as the observing side, the Client lets go of the ended session's connection on its own, before the application closes it."),
    "note": "Schedules are sampled; the terminating call's own return value is not judged (under TLS it can report a close_notify write error after a clean finish). Server-side transports are only visible on in-memory connections.",
    "technique": "property-based testing (rapid) over (initiator, moment, transport, buffers, wiring) with state / stream-closure / goroutine-census oracles; virtual time plus real sockets",
    "rule": "case = (transport, wiring, initiator, buffers, traffic counts, termination moment). Non-trivial: termination with traffic still to be sent, or initiated by the server side, or buffer 0. Distinct by SHA-1 of the case.",
    "assumptions": TRANSPORT_ASSUMPTIONS + ["an application does not send through a Client it is closing (that would dial a new session)"],
    "jobs": [
        {"test": "TestC13Replay", "kind": "plain"},
        {"test": "TestC13FinishStress", "kind": "plain", "shards": (3, 8), "timeout": (300, 1500), "gomaxprocs": [16, 8, 4, 16, 8, 4, 16, 2]},
        {"test": "TestC13LastWordRace", "kind": "plain", "shards": (3, 8), "timeout": (300, 1500), "gomaxprocs": [16, 8, 4, 16, 8, 4, 16, 2]},
        {"test": "TestC13AfterAbandonedSend", "kind": "plain", "shards": 5, "timeout": (300, 1500), "gomaxprocs": [4]},
        {"test": "TestC13ClientScriptsEnum", "kind": "plain", "shards": 4, "timeout": (300, 3000)},
        {"test": "TestC13ClientScripts", "kind": "rapid", "shards": 4, "checks": (400, 15000), "timeout": (300, 3000)},
        {"test": "TestC13", "kind": "rapid", "shards": 10, "checks": (150, 6000), "timeout": (300, 3000), "gomaxprocs": [1, 2, 4, 16, 2]},
        {"test": "TestC13RealBacklog", "kind": "plain", "timeout": (400, 3000), "gomaxprocs": [8, 16]},
        {"test": "TestC13Real", "kind": "rapid", "shards": 4, "checks": (6, 150), "timeout": (400, 3000), "gomaxprocs": [4, 16], "shrink": (30, 90)},
    ],
}

CHECKS["C18"] = {
    "level": "exploration",
    "claim": ("A Server with 1-3 listeners (TCP over in-memory connections, with and without a negotiation stage, and in-process) and 0-12 clients parked exactly (synctest.Wait) at a drawn stage - "
              "dialled only, 'new' sent, mid-negotiation, inside a held Authenticate callback, established idle, established with traffic, failing handshake - optionally under a connection flood of "
              "1-8 dialling goroutines, is closed at the parked state or after a drawn delay (and sometimes twice): ListenAndServe returns exactly ErrServerClosed within the bound, nothing panics "
              "(a crash of the process is attributed to the journalled case), a dial after Close returned is refused, every established client ends finished, Established fires exactly once for exactly "
              "the sessions whose client saw an established envelope, before any handler for it, Finished exactly once afterwards for the same set and after the last handler, and no server goroutine "
              "(accept/consume/serve/receiver/dispatch/listener hand-off) is left after the release bound, and every connection a listener had accepted is closed on the server side. "
              "Plus, over the library's own loopback listeners (TCP, TCP with a TLS configuration, WebSocket; ConnBuffer 0-32, Backlog 0-8) in real time: 1-24 raw peers, speaking or silent, connect at drawn "
              "microsecond offsets (half of the cases as a burst right before the closing) while the Server is closed: every peer that got connected is served (receives bytes) or sees its connection end "
              "(expected within one I/O poll, 5 s, for a silent peer in mid-handshake; a peer that has seen nothing after 8 s looks again for 12 s before its connection counts as left behind - what ends only then is classified, not judged), ListenAndServe returns ErrServerClosed and no serving goroutine stays. "
              "A quarter of these cases serve the same Server value two or three times, half of those starting the next serve call right after Close returned, before the previous call came back (Close must not answer \"not listening\" then). "
              "The TCP and WebSocket listeners alone are also started and closed thousands of times in a row: nothing panics. "
              "WebSocket peers that have not got as far as an upgrade when the Server is closed - connected and silent, in the middle of their upgrade request, or refused and kept alive by the listener's HTTP server - see their connection end as well."),
    "note": "Virtual time for the parked-stage cases, real time for the loopback-listener cases; schedules are sampled (GOMAXPROCS varied). The in-memory listener mirrors the library listeners' Accept (select over context, close signal, queue) and refuses what is left in its backlog when closed, as a kernel does.",
    "technique": "property-based testing (rapid) over (listeners, parked client stages, flood, close moment) with callback-log / return-value / goroutine-census oracles, in virtual time",
    "rule": "case = (listener kinds, client stages, flood size, delay before Close, close twice). Non-trivial: Close with a session mid-handshake or established, or with the flood running. Distinct by SHA-1 of the case.",
    "assumptions": TRANSPORT_ASSUMPTIONS,
    "jobs": [
        {"test": "TestC18Replay", "kind": "plain"},
        {"test": "TestC18", "kind": "rapid", "shards": 12, "checks": (250, 12000), "timeout": (300, 3000), "gomaxprocs": [1, 2, 4, 16, 8, 2]},
        {"test": "TestC18ListenerRestart", "kind": "plain", "timeout": (300, 1500)},
        {"test": "TestC18WSRaw", "kind": "plain", "timeout": (300, 1500)},
        {"test": "TestC18ServeAgainEarly", "kind": "plain", "timeout": (300, 1500)},
        {"test": "TestC18RealAccept", "kind": "rapid", "shards": (4, 8), "checks": (10, 150), "timeout": (300, 3000), "gomaxprocs": [4, 16, 2, 8], "shrink": (20, 60)},
    ],
}

CHECKS["C19"] = {
    "level": "fault_enumeration",
    "claim": ("A high-level Client whose transport factory is supplied by the harness, against a real Server whose Established callback hands the harness each ServerChannel, suffers a fault - server "
              "FinishSession, server FailSession, abrupt cut, orderly EOF, half-close, undecodable bytes, valid JSON that is no envelope, a frame beyond the read limit, a session envelope with a regressing "
              "state - while idle, during client sends or during inbound delivery, 1-4 times in a row, over TCP (in-memory connections) and the in-process transport in virtual time, and finish/fail/drop "
              "over loopback TCP and WebSocket in real time: afterwards SendMessage (generous context) must succeed and be handled by the server on a session id not seen before, a message pushed by the "
              "server on the newest session must reach the client's handler, the listener must not spin (virtual: a watchdog outside the bubble sees the fake clock frozen by a running library goroutine "
              "in two stack dumps; real: process CPU time in an idle window), and every send that returned nil must appear in the byte capture of some connection. "
              "Storm (TestC19Storm): 2-16 goroutines send through one Client while the server ends the session (Close / FailSession / FinishSession) after every 1-4 messages, 5-120 times per case, "
              "over TCP and TCP+TLS in virtual time and the in-process transport in real time; afterwards the same recovery clauses, and no crash of the process. "
              "Fault kinds also include session envelopes that have no place on an established session (an earlier state, or established once more). "
              "Fault kinds also: the server stops consuming (its handler waits) and the application sends with 300 ms deadlines until a send is given up half way. "
              "Plus, in real time over the in-process transport: the server drops the session while 8 of its goroutines are still sending, thousands of times: once the client's receiver has ended the channel never reports an established session again."),
    "note": ("Byte-level faults need a byte stream, so the in-process transport only gets finish/fail/EOF. Real-socket cases run one at a time (CPU time is per process). "
             "The storm's interleavings are the Go scheduler's (GOMAXPROCS varied per shard): the nil-channel crash it found shows in about one of four shards of the quick tier."),
    "technique": "fault enumeration (fault kind x moment x repetition x transport) + rapid fault sequences with recovery / liveness oracles; virtual time with an external spin watchdog, plus real sockets",
    "rule": "case = (transport, fault sequence with moments, channel buffer). Non-trivial: a fault other than a clean server finish, or >=2 faults. Distinct by SHA-1 of the case.",
    "assumptions": TRANSPORT_ASSUMPTIONS,
    "exhaustive_jobs": ["TestC19Enum", "TestC19Real"],
    "jobs": [
        {"test": "TestC19InprocLateEnvelopes", "kind": "plain", "shards": (1, 4), "timeout": (300, 1500), "gomaxprocs": [16, 8, 16, 4]},
        {"test": "TestC19Replay", "kind": "plain"},
        {"test": "TestC19Enum", "kind": "plain", "shards": 4, "timeout": (300, 1500)},
        {"test": "TestC19Real", "kind": "plain", "timeout": (300, 900), "gomaxprocs": [4]},
        {"test": "TestC19", "kind": "rapid", "shards": 10, "checks": (400, 8000), "timeout": (300, 3000)},
        {"test": "TestC19Flap", "kind": "plain", "shards": 3, "timeout": (300, 1500), "gomaxprocs": [4, 16, 2]},
        {"test": "TestC19Storm", "kind": "rapid", "shards": 10, "checks": (250, 5000), "timeout": (300, 3000), "gomaxprocs": [4, 16, 2, 4, 16, 2, 4, 16, 2, 8], "shrink": (5, 20)},
    ],
}
