#!/usr/bin/env python3
"""Driver for the lime-go property checks.

  python3 run.py setup
  python3 run.py check C01 [--tier quick|thorough]
  python3 run.py replay C01 <replay-file>
  python3 run.py selftest [C01 ...]        (apply mutants/seeded changes to scratch copies; expect exit 1)

Exit codes of `check`/`replay`: 0 held (possibly with KNOWN-FINDING lines), 1 violation (VIOLATION lines),
2 inconclusive (build failure, harness crash, watchdog).
"""
import argparse
import concurrent.futures as cf
import glob
import hashlib
import json
import os
import re
import shutil
import subprocess
import sys
import tempfile
import time

HERE = os.path.dirname(os.path.abspath(__file__))
HARNESS = os.path.join(HERE, "harness")
KNOWN = os.path.join(HERE, "known_findings.json")
GO = os.environ.get("VERIF_GO", "go1.26.8")
NCPU = os.cpu_count() or 4

sys.path.insert(0, HERE)
from checks_config import CHECKS  # noqa: E402


def go_env():
    env = dict(os.environ)
    env.update({"GOFLAGS": "-mod=mod", "GOPROXY": "off", "GOSUMDB": "off", "GOTOOLCHAIN": "local",
                "GONOSUMDB": "*", "GONOSUMCHECK": "1", "GOFLAGS_EXTRA": ""})
    return env


def repo_dir():
    return os.path.abspath(os.environ.get("VERIF_REPO_DIR", "/repo"))


def build(scratch, go=GO, tags="verif", out="harness.test", extra=()):
    """Compile the harness test binary against the current working tree of the repository."""
    mod = open(os.path.join(HARNESS, "go.mod")).read()
    mod = re.sub(r"replace github.com/takenet/lime-go => .*", "replace github.com/takenet/lime-go => " + repo_dir(), mod)
    modfile = os.path.join(scratch, "go.mod")
    open(modfile, "w").write(mod)
    shutil.copy(os.path.join(HARNESS, "go.sum"), os.path.join(scratch, "go.sum"))
    binp = os.path.join(scratch, out)
    cmd = [go, "test", "-c", "-tags", tags, "-vet=off", "-modfile=" + modfile] + list(extra) + ["-o", binp, "."]
    t0 = time.time()
    p = subprocess.run(cmd, cwd=HARNESS, env=go_env(), stdout=subprocess.PIPE, stderr=subprocess.STDOUT, text=True)
    if p.returncode != 0 or not os.path.exists(binp):
        sys.stdout.write(p.stdout)
        return None, time.time() - t0
    return binp, time.time() - t0


def slug(s):
    s2 = re.sub(r"[^A-Za-z0-9._=-]+", "_", s)[:90]
    return s2 + "-" + hashlib.sha1(s.encode()).hexdigest()[:8]


def load_known(prop):
    try:
        doc = json.load(open(KNOWN))
    except FileNotFoundError:
        return []
    return [f for f in doc.get("findings", []) if f.get("property") == prop]


def sig_open(sig, known):
    for f in known:
        if f.get("status") != "open":
            continue
        s = f["signature"]
        if s == sig or (s.endswith("*") and sig.startswith(s[:-1])):
            return f
    return None


LIME_FRAME = re.compile(r"github\.com/takenet/lime-go(?:/chat)?\.((?:\(\*?\w+\)\.)?[\w.]+)")


def crash_signature(prop, text):
    """Signature of a process crash: panic message class + first library function in the trace."""
    msg = ""
    m = re.search(r"^(panic: .*|fatal error: .*)$", text, re.M)
    if m:
        msg = m.group(1)
    msg = re.sub(r"0x[0-9a-f]+", "0x?", msg)
    msg = re.sub(r"\[recovered\].*", "", msg)
    msg = re.sub(r"goroutine \d+", "goroutine N", msg)
    msg = re.sub(r"[0-9a-f]{8}-[0-9a-f]{4}-[0-9a-f]{4}-[0-9a-f]{4}-[0-9a-f]{12}", "UUID", msg)
    fn = ""
    # first lime frame after the panic line
    idx = text.find(m.group(1)) if m else 0
    for fm in LIME_FRAME.finditer(text[idx:]):
        if "verif" in fm.group(0).lower():
            continue
        fn = fm.group(1)
        break
    return "%s/crash/%s@%s" % (prop, re.sub(r"\s+", " ", msg)[:80], fn)


def run_shard(binp, job, shard, nshards, tier, seed, outdir, jobidx):
    env = dict(os.environ)
    env.update({"VERIF_OUT": outdir, "VERIF_SHARD": str(shard), "VERIF_NSHARDS": str(nshards), "VERIF_TIER": tier,
                "VERIF_SEED": str(seed), "VERIF_KNOWN": KNOWN, "VERIF_REGRESS": os.path.join(HARNESS, "regress"),
                "VERIF_REPO_DIR": repo_dir()})
    env.update(job.get("env", {}))
    gmp = job.get("gomaxprocs", [2, 4, 1, 2])  # few Ps: bubbles and stress cases run faster, and schedules vary by shard
    env["GOMAXPROCS"] = str(gmp[shard % len(gmp)])
    timeout = job.get("timeout", (240, 1500))[0 if tier == "quick" else 1]
    args = [binp, "-test.run", "^" + job["test"] + "$", "-test.timeout", "%ds" % timeout, "-test.count=1"]
    if job.get("kind", "rapid") == "rapid":
        checks = job["checks"][0 if tier == "quick" else 1]
        rseed = seed * 100000 + jobidx * 1000 + shard + 1
        args += ["-rapid.checks=%d" % checks, "-rapid.seed=%d" % rseed, "-rapid.nofailfile",
                 "-rapid.shrinktime=%ds" % job.get("shrink", (10, 40))[0 if tier == "quick" else 1]]
    if os.environ.get("VERIF_VERBOSE"):
        args.append("-test.v")
    t0 = time.time()
    try:
        p = subprocess.run(args, cwd=HARNESS, env=env, stdout=subprocess.PIPE, stderr=subprocess.STDOUT,
                           timeout=timeout + 60)
        out, rc = p.stdout.decode("utf-8", "replace"), p.returncode
    except subprocess.TimeoutExpired as e:
        out, rc = (e.stdout or b"").decode("utf-8", "replace") + "\n[driver] killed after timeout\n", -9
    return {"job": job["test"], "shard": shard, "rc": rc, "out": out, "wall": time.time() - t0}


def merge_results(prop, cfg, outdir, shard_runs, known):
    ev = {"evaluations": 0, "classes": {}, "samples": [], "excluded": {}, "violations": {}, "hashes": set(),
          "notes": {}, "exhaustive": [], "per_job": {}}
    inconclusive = []
    # violations written by watchdogs that had to kill their own process (e.g. a spinning goroutine freezing a bubble)
    watchdog = False
    for f in sorted(glob.glob(os.path.join(outdir, "fuzzviol-*.json"))):
        try:
            v = json.load(open(f))
        except Exception:
            continue
        watchdog = True
        if "/harness/stalled" in v["sig"]:
            # the watchdog saw no progress but no library goroutine spinning or waiting for a lock: nothing is decided
            inconclusive.append("watchdog: %s\n%s" % (v["sig"], str(v["detail"])[:3000]))
            continue
        v = {"sig": v["sig"], "detail": v["detail"], "case": v.get("case"), "count": 1, "test": "watchdog"}
        kind = "excluded" if sig_open(v["sig"], known) else "violations"
        if v["sig"] in ev[kind]:
            ev[kind][v["sig"]]["count"] += 1
        else:
            ev[kind][v["sig"]] = v
    for r in shard_runs:
        path = os.path.join(outdir, "result-%s-%d.json" % (r["job"], r["shard"]))
        res = None
        if os.path.exists(path):
            try:
                res = json.load(open(path))
            except Exception:
                res = None
        if res is not None:
            ev["evaluations"] += res["evaluations"]
            pj = ev["per_job"].setdefault(r["job"], {"evaluations": 0, "shards": 0, "wall_s": 0.0})
            pj["evaluations"] += res["evaluations"]
            pj["shards"] += 1
            pj["wall_s"] = round(max(pj["wall_s"], r["wall"]), 2)
            ev["hashes"].update(res.get("hashes") or [])
            for k, v in (res.get("classes") or {}).items():
                ev["classes"][k] = ev["classes"].get(k, 0) + v
            js = ev.setdefault("job_samples", {}).setdefault(r["job"], [])
            for s in res.get("samples") or []:
                if len(js) < 3 and s not in js:
                    js.append(s)
            for k, v in (res.get("notes") or {}).items():
                ev["notes"][r["job"] + "." + k] = v
            if res.get("exhaustive"):
                ev["exhaustive"].append(r["job"])
            for kind in ("violations", "excluded"):
                for v in res.get(kind) or []:
                    v = dict(v, test=r["job"])
                    cur = ev[kind].get(v["sig"])
                    if cur is None or len(json.dumps(v["case"])) < len(json.dumps(cur["case"])):
                        if cur is not None:
                            v["count"] += cur["count"]
                        ev[kind][v["sig"]] = v
                    else:
                        cur["count"] += v["count"]
        if r["rc"] == 0:
            continue
        if res is not None and (res.get("violations") or []):
            continue  # failure explained by recorded violations
        if r["rc"] == 7 and watchdog:
            continue  # the watchdog reported and ended the process
        text = r["out"]
        if "panic: test timed out" in text or r["rc"] == -9:
            if cfg.get("hang_is_observation") and LIME_FRAME.search(text):
                pass
            inconclusive.append("%s shard %d: timed out\n%s" % (r["job"], r["shard"], text[-3000:]))
            continue
        crashed = re.search(r"^(panic:|fatal error:)", text, re.M)
        if crashed and LIME_FRAME.search(text):
            sig = crash_signature(prop, text)
            jpath = os.path.join(outdir, "journal-%s-%d.json" % (r["job"], r["shard"]))
            case = None
            if os.path.exists(jpath):
                try:
                    case = json.load(open(jpath))
                except Exception:
                    case = open(jpath).read()
            v = {"sig": sig, "detail": "process crashed:\n" + text[text.find(crashed.group(0)):][:2500], "case": case,
                 "count": 1, "test": r["job"]}
            kind = "excluded" if sig_open(sig, known) else "violations"
            if sig in ev[kind]:
                ev[kind][sig]["count"] += 1
            else:
                ev[kind][sig] = v
            continue
        if res is not None and r["rc"] == 1 and "--- FAIL" in text and not crashed:
            # a test failed without recording a violation: harness assertion → inconclusive
            inconclusive.append("%s shard %d: test failed without a recorded violation\n%s" % (r["job"], r["shard"], text[-3000:]))
            continue
        inconclusive.append("%s shard %d: exit %s\n%s" % (r["job"], r["shard"], r["rc"], text[-3000:]))
    return ev, inconclusive


def run_native_fuzz(prop, job, tier, scratch, ev, inconclusive, known):
    """Coverage-guided native fuzzing of one target with a fresh cache; time-boxed; first crasher stops it."""
    secs = job["fuzztime"][0 if tier == "quick" else 1]
    if secs <= 0:
        return
    binp, bt = build(scratch, out="fuzz.test", extra=["-fuzz", job["test"]])
    if binp is None:
        inconclusive.append("native fuzz build failed")
        return
    wd = os.path.join(scratch, "fuzzwd")
    out = os.path.join(scratch, "fuzzout")
    os.makedirs(wd, exist_ok=True)
    os.makedirs(out, exist_ok=True)
    env = dict(os.environ, VERIF_OUT=out, VERIF_KNOWN=KNOWN, VERIF_TIER=tier)
    args = [binp, "-test.run", "^$", "-test.fuzz", "^" + job["test"] + "$", "-test.fuzztime", "%ds" % secs,
            "-test.fuzzcachedir", os.path.join(scratch, "fuzzcache"), "-test.parallel", str(NCPU),
            "-test.fuzzminimizetime", "20s", "-test.timeout", "%ds" % (secs + 300)]
    t0 = time.time()
    try:
        p = subprocess.run(args, cwd=wd, env=env, stdout=subprocess.PIPE, stderr=subprocess.STDOUT, timeout=secs + 400)
        text, rc = p.stdout.decode("utf-8", "replace"), p.returncode
    except subprocess.TimeoutExpired as e:
        text, rc = (e.stdout or b"").decode("utf-8", "replace"), -9
    execs = [int(x) for x in re.findall(r"execs: (\d+)", text)]
    n = max(execs) if execs else 0
    ev["evaluations"] += n
    ev["classes"]["origin=native-fuzz-execs"] = n
    ev["per_job"][job["test"]] = {"evaluations": n, "shards": NCPU, "wall_s": round(time.time() - t0, 1), "fuzztime_s": secs,
                                  "interesting": (re.findall(r"total: (\d+)\)", text) or ["0"])[-1]}
    found = False
    for f in sorted(glob.glob(os.path.join(out, "fuzzviol-*.json"))):
        try:
            v = json.load(open(f))
        except Exception:
            continue
        found = True
        v = {"sig": v["sig"], "detail": v["detail"], "case": v["case"], "count": 1, "test": job["test"]}
        kind = "excluded" if sig_open(v["sig"], known) else "violations"
        cur = ev[kind].get(v["sig"])
        if cur is None or len(json.dumps(v["case"])) < len(json.dumps(cur["case"])):
            ev[kind][v["sig"]] = v
    if rc != 0 and not found:
        inconclusive.append("native fuzz %s: exit %s\n%s" % (job["test"], rc, text[-2500:]))


def write_evidence(prop, cfg, tier, seed, ev, wall, nviol, extra_assumptions=()):
    evdir = os.environ.get("VERIF_EVIDENCE_DIR") or os.path.join(HERE, "evidence")
    os.makedirs(evdir, exist_ok=True)
    lists = [l for _, l in sorted(ev.get("job_samples", {}).items(), key=lambda kv: -len(json.dumps(kv[1])))]
    samples = []
    for i in range(3):
        for l in lists:
            if i < len(l) and len(samples) < 8:
                samples.append(l[i])
    if not samples:
        samples = [v["case"] for v in list(ev["excluded"].values())[:2] + list(ev["violations"].values())[:2]]
    coverage = {
        "evaluations": ev["evaluations"],
        "distinct_nontrivial": len(ev["hashes"]),
        "rule": cfg["rule"],
        "samples": samples,
        "classes": dict(sorted(ev["classes"].items())),
        "per_job": ev["per_job"],
        "excluded_by_known_findings": {k: v["count"] for k, v in ev["excluded"].items()},
        "notes": ev["notes"],
    }
    if cfg.get("exhaustive_jobs"):
        coverage["exhaustive_parts"] = sorted(set(ev["exhaustive"]))
        coverage["exhaustive"] = False
        if cfg.get("all_exhaustive") and set(cfg["exhaustive_jobs"]) <= set(ev["exhaustive"]):
            coverage["exhaustive"] = True
    doc = {
        "property_id": prop, "tier": tier, "seed": seed, "level": cfg["level"], "coverage": coverage,
        "assumptions": list(cfg.get("assumptions", [])) + list(extra_assumptions),
        "wall_s": round(wall, 2), "violations": nviol,
    }
    path = os.path.join(evdir, prop + ".json")
    tmp = path + ".tmp"
    json.dump(doc, open(tmp, "w"), indent=1, sort_keys=False, ensure_ascii=False)
    os.replace(tmp, path)
    return path


def do_check(prop, tier, seed, replay=None, quiet=False):
    cfg = CHECKS[prop]
    t0 = time.time()
    scratch = tempfile.mkdtemp(prefix="verif-%s-" % prop)
    try:
        binp, bt = build(scratch)
        if binp is None:
            print("INCONCLUSIVE property=%s build failed" % prop)
            return 2
        outdir = os.path.join(scratch, "out")
        os.makedirs(outdir)
        jobs = cfg["jobs"]
        if replay:
            jobs = [dict(j) for j in cfg["jobs"] if j["test"].endswith("Replay")]
            for j in jobs:
                j.setdefault("env", {})
                j["env"] = dict(j["env"], VERIF_REPLAY=os.path.abspath(replay))
        tasks = []
        fuzz_jobs = []
        for ji, job in enumerate(jobs):
            if tier == "quick" and job.get("thorough_only"):
                continue
            if job.get("kind") == "fuzz":
                if not replay:
                    fuzz_jobs.append(job)
                continue
            n = job.get("shards", 1)
            if isinstance(n, (tuple, list)):
                n = n[0 if tier == "quick" else 1]
            for sh in range(n):
                tasks.append((job, sh, n, ji))
        known = load_known(prop)
        runs = []
        workers = cfg.get("workers", NCPU)
        with cf.ThreadPoolExecutor(max_workers=workers) as ex:
            futs = [ex.submit(run_shard, binp, job, sh, n, tier, seed, outdir, ji) for (job, sh, n, ji) in tasks]
            for f in futs:
                runs.append(f.result())
        ev, inconclusive = merge_results(prop, cfg, outdir, runs, known)
        for job in fuzz_jobs:
            run_native_fuzz(prop, job, tier, scratch, ev, inconclusive, known)
        # post-processing hooks (e.g. native fuzzing) may add to ev
        for hook in cfg.get("post", []):
            hook(prop, tier, seed, scratch, ev, inconclusive, known)
        rc = 0
        nviol = len(ev["violations"])
        # known findings
        matched = {}
        for sig, v in ev["excluded"].items():
            f = sig_open(sig, known)
            key = f["signature"] if f else sig
            matched.setdefault(key, (f, 0))
            matched[key] = (f, matched[key][1] + v["count"])
        for f in known:
            # every listed open finding is reported, whether or not this run came across it
            if f.get("status") == "open" and f["signature"] not in matched:
                matched[f["signature"]] = (f, 0)
        for key, (f, cnt) in sorted(matched.items()):
            what = f["what"] if f else key
            print("KNOWN-FINDING: property=%s %s [signature %s, %d case(s) this run]" % (prop, what, key, cnt))
        if ev["violations"]:
            rc = 1
            rdir = os.path.join(os.environ.get("VERIF_REPLAY_DIR") or os.path.join(HERE, "replays"), prop)
            os.makedirs(rdir, exist_ok=True)
            for sig, v in sorted(ev["violations"].items()):
                path = os.path.join(rdir, slug(sig) + ".json")
                json.dump({"property": prop, "test": v.get("test"), "sig": sig, "detail": v["detail"], "case": v["case"],
                           "tier": tier, "seed": seed, "count": v["count"]}, open(path, "w"), indent=1, ensure_ascii=False)
                print("VIOLATION property=%s replay=%s" % (prop, path))
                print("  signature: %s" % sig)
                print("  detail: %s" % v["detail"][:1500].replace("\n", "\n    "))
        if inconclusive and rc == 0:
            rc = 2
        for msg in inconclusive:
            print("INCONCLUSIVE property=%s %s" % (prop, msg))
        wall = time.time() - t0
        if not replay:
            p = write_evidence(prop, cfg, tier, seed, ev, wall, nviol)
            if not quiet:
                print("property=%s tier=%s seed=%d evaluations=%d distinct_nontrivial=%d violations=%d known=%d wall=%.1fs (build %.1fs) evidence=%s"
                      % (prop, tier, seed, ev["evaluations"], len(ev["hashes"]), nviol, len(matched), wall, bt, p))
        else:
            print("replay property=%s evaluations=%d violations=%d" % (prop, ev["evaluations"], nviol))
        return rc
    finally:
        shutil.rmtree(scratch, ignore_errors=True)


def do_setup():
    # warm the build cache with both the standard library and the harness; nothing is downloaded
    scratch = tempfile.mkdtemp(prefix="verif-setup-")
    try:
        binp, bt = build(scratch)
        if binp is None:
            print("setup: harness build failed")
            return 1
        print("setup: harness built in %.1fs with %s" % (bt, GO))
        return 0
    finally:
        shutil.rmtree(scratch, ignore_errors=True)


def main():
    ap = argparse.ArgumentParser()
    ap.add_argument("cmd", choices=["setup", "check", "replay", "selftest", "list"])
    ap.add_argument("args", nargs="*")
    ap.add_argument("--tier", default=os.environ.get("VERIF_TIER", "quick"), choices=["quick", "thorough"])
    a = ap.parse_args()
    try:
        seed = int(os.environ.get("VERIF_SEED", "1"))
    except ValueError:
        seed = 1
    seed = abs(seed) % 1000000007
    if a.cmd == "setup":
        sys.exit(do_setup())
    if a.cmd == "list":
        for k in sorted(CHECKS):
            print(k, [j["test"] for j in CHECKS[k]["jobs"]])
        return
    if a.cmd == "check":
        sys.exit(do_check(a.args[0], a.tier, seed))
    if a.cmd == "replay":
        sys.exit(do_check(a.args[0], a.tier, seed, replay=a.args[1]))
    if a.cmd == "selftest":
        import selftest
        sys.exit(selftest.main(a.args))


if __name__ == "__main__":
    main()
