#!/usr/bin/env python3
"""Validate MANIFEST.json and evidence/*.json against the schemas (uses the tooling venv's jsonschema if needed)."""
import glob, json, sys
try:
    import jsonschema
except ImportError:
    import os
    os.execvp("python3-vt", ["python3-vt"] + sys.argv)
ok = True
def check(path, schema):
    global ok
    try:
        jsonschema.validate(json.load(open(path)), json.load(open(schema)))
        print("ok  ", path)
    except Exception as e:
        ok = False
        print("FAIL", path, str(e)[:400])
check("MANIFEST.json", "/root/.vp/MANIFEST.schema.json")
for p in sorted(glob.glob("evidence/*.json")):
    check(p, "/root/.vp/EVIDENCE.schema.json")
m = json.load(open("MANIFEST.json"))
props = [json.loads(l)["id"] for l in open("properties.jsonl")]
claimed = [c["property_id"] for c in m["checks"]]
na = [n["property_id"] for n in m.get("not_applicable", [])]
missing = [p for p in props if p not in claimed and p not in na]
print("claimed:", claimed, "not_applicable:", na, "neither:", missing)
sys.exit(0 if ok else 1)
